from dataclasses import dataclass
from entity_query_language import symbol, let, an, entity, set_of, symbolic_mode, rule_mode, refinement, alternative, Add, infer
@symbol
@dataclass(unsafe_hash=True)
class Item: name: str; a: int = 0
@symbol
@dataclass(unsafe_hash=True)
class Thing: name: str; c: int = 0
@symbol
@dataclass(unsafe_hash=True)
class Label: obj: object; tag: str
things = [Thing("t1",1), Thing("t0",0)]
item = let(type_=Item, domain=things)    # no Item among them
thing = let(type_=Thing, domain=things)
with symbolic_mode():
    query = an(entity(labels := let(type_=Label), item.a > 0))
with rule_mode(query):
    Add(labels, Label(obj=thing, tag="base"))
    with alternative(thing.c > 0):
        Add(labels, Label(obj=thing, tag="alt_c"))
print([(l.obj.name, l.tag) for l in query.evaluate()], "prescribed [('t1','alt_c')]")
