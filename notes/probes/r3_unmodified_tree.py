from dataclasses import dataclass, field
from typing import Any, List
from entity_query_language import *
from entity_query_language import MultipleSolutionFound, NoSolutionFound
@symbol
@dataclass(eq=False)
class Item:
    name: str
    parts: list = field(default_factory=list)
    def __len__(self): return len(self.parts)
@symbol
@dataclass(eq=False)
class Box:
    items: list
members = [Item("empty"), Item("full", [1])]
box = Box(members)
with symbolic_mode():
    b = let(Box, [box]);  over_expr = an(entity(Item(From(flatten(b.items)))))
print("1 domain expr falsy member:", [i.name for i in over_expr.evaluate()], "expected ['empty','full']")

@symbol
@dataclass(eq=False)
class P: name: str; v: int
@symbol
@dataclass(eq=False)
class Q: name: str; v: int
ps = [P('a', 1), P('b', 2), P('c', 3)]; qs = [Q('x', 2), Q('y', 7)]
def outcome(q):
    try: return ('one', q.evaluate().name)
    except MultipleSolutionFound: return ('multiple',)
    except NoSolutionFound: return ('none',)
with symbolic_mode():
    p = let(P, ps); qq = let(Q, qs)
    outer = the(entity(p, and_(p.v > 0, or_(the(entity(qq, qq.v == p.v)), p.v == 99))))
print("3 nested the:", outcome(outer), "expected ('one','b')")

@symbol
@dataclass(eq=False)
class T: x: object
@predicate
def older_than(p, limit=0): return p.v > limit
with rule_mode():
    pp = let(P, ps)
    r = infer(entity(T(x=pp), older_than(pp, 2)))
print("4 predicate positional default:", sorted(t.x.name for t in r.evaluate()), "expected ['c']")

@symbol
@dataclass(eq=False)
class U: g: P; k: int = 0
@symbol
@dataclass(eq=False)
class T2: x: object; y: object=None
us=[U(ps[0],1),U(ps[1],2),U(ps[0],3)]; p=let(P,ps)
with rule_mode(): r=infer(entity(T2(x=U(g=p), y=p), p.v > 0))
it=r.evaluate(); next(it); it.close()
print("5 kwargs flag after close:", sorted((t.x.k,t.y.name) for t in r.evaluate()), "expected [(1,'a'),(2,'b'),(3,'a')]")
