from dataclasses import dataclass, field
from entity_query_language import *
from entity_query_language.cache_data import enable_caching, disable_caching
import sys
@symbol
@dataclass(eq=False)
class Box:
    name: str
    items: list = field(default_factory=list)
for caching in (True, False):
    (enable_caching if caching else disable_caching)()
    boxes = [Box("A", [1, 2, 3]), Box("B", []), Box("C", [2, 3, 4, 0])]
    with symbolic_mode():
        b = Box(From(boxes)); x = flatten(b.items)
        q = an(set_of([b, x], and_(x > 1, x < 3)))
    print("caching" if caching else "nocache", "V1", [(r[b].name, r[x]) for r in q.evaluate()], "expected [('A',2),('C',2)]")
    with symbolic_mode():
        b = Box(From(boxes)); x = flatten(b.items)
        q = an(set_of([b, x], x >= 3))
    print("   V2", [(r[b].name, r[x]) for r in q.evaluate()], [(r[b].name, r[x]) for r in q.evaluate()])
    with symbolic_mode():
        b = Box(From(boxes)); x = flatten(b.items)
        q = an(set_of([b, x], or_(b.name == "nowhere", x > 2)))
    print("   V5 or_", [(r[b].name, r[x]) for r in q.evaluate()], "expected A3 C3 C4")
