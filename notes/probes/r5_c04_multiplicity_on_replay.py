from dataclasses import dataclass, field
from typing import Any
from entity_query_language import symbol, let, an, entity, and_, or_, contains, flatten, symbolic_mode
@symbol
@dataclass(eq=False)
class Part:
    name: str
    size: int
    tags: Any = field(default_factory=list)
parts = [Part("a",1,["r","g"]), Part("b",7,["g"]), Part("c",2,[]), Part("d",9,["r","b"]), Part("e",7,["b"])]
with symbolic_mode():
    x = let(Part, parts, name="x"); y = let(Part, parts, name="y")
    q = an(entity(y, and_(x.size < y.size, or_(contains(y.tags, "g"), flatten(y.tags) == "b"))))
for k in range(3):
    print(sorted(r.name for r in q.evaluate()))
from entity_query_language.cache_data import disable_caching, enable_caching
disable_caching()
with symbolic_mode():
    x = let(Part, parts, name="x"); y = let(Part, parts, name="y")
    q = an(entity(y, and_(x.size < y.size, or_(contains(y.tags, "g"), flatten(y.tags) == "b"))))
print("no caching", sorted(r.name for r in q.evaluate()))
enable_caching()
