from dataclasses import dataclass
from entity_query_language import an, entity, let, symbolic_mode, symbol, From, flatten

@symbol
@dataclass(unsafe_hash=True)
class Body:
    name: str
@symbol
@dataclass(unsafe_hash=True)
class Handle(Body): ...
@symbol
@dataclass(eq=False)
class World:
    bodies: list
@symbol
@dataclass(eq=False)
class Shelf:
    items: list
    def __len__(self): return len(self.items)

world = World([Handle("H1"), Body("B1"), "noise", Handle("H2")])
with symbolic_mode():
    w = let(World, world)
    q = an(entity(Handle(From(flatten(w.bodies)))))
print("V1", list(q.evaluate()))
with symbolic_mode():
    bodies = let(Body, world.bodies)
    q = an(entity(Handle(From(bodies))))
print("V2", list(q.evaluate()))
full, empty = Shelf([1]), Shelf([])
with symbolic_mode():
    q = an(entity(let(Shelf, empty)))
print("V3", [s.items for s in q.evaluate()])
with symbolic_mode():
    q = an(entity(Shelf(From(empty))))
print("V3b", [s.items for s in q.evaluate()])
