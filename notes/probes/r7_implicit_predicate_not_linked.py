from dataclasses import dataclass
from entity_query_language import symbol, let, a, symbolic_mode, Predicate
@symbol
@dataclass(eq=False)
class A: x: int = 0
@symbol
@dataclass(eq=False)
class H: n: int = 0
@dataclass(eq=False)
class SameN(Predicate):
    h: object; other: object
    def __call__(self): return self.h.n == self.other.x
h1, h2, a1 = H(1), H(2), A(1)
with symbolic_mode():
    with a(H()) as q:
        SameN(other=let(A))
    q2 = a(hh := H(), SameN(hh, let(A)))   # same query written out
print([h.n for h in q.evaluate()], [h.n for h in q2.evaluate()])
a2 = A(2)
print([h.n for h in q2.evaluate()], [h.n for h in q.evaluate()])
