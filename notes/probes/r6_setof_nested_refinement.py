from dataclasses import dataclass
from entity_query_language import symbol, let, an, set_of, entity, symbolic_mode, rule_mode, refinement, Add

@symbol
@dataclass(unsafe_hash=True)
class Item:
    name: str
    a: int
    b: int

@symbol
@dataclass(unsafe_hash=True)
class Label:
    item: Item
    tag: str

items = [Item(f"i{n}", n & 1, (n >> 1) & 1) for n in range(4)]
def build(desc):
    x = let(type_=Item, domain=items)
    with symbolic_mode():
        labels = let(type_=Label)
        q = an(set_of([labels, x], x.name != "")) if desc == "set_of" else an(entity(labels, x.name != ""))
    with rule_mode(q):
        Add(labels, Label(x, "base"))
        with refinement(x.a == 1):
            Add(labels, Label(x, "A"))
            with refinement(x.b == 1):
                Add(labels, Label(x, "AB"))
    return q, labels
for desc in ("entity", "set_of"):
    q, labels = build(desc)
    got = sorted(((r[labels] if desc == "set_of" else r).item.name, (r[labels] if desc == "set_of" else r).tag) for r in q.evaluate())
    print(desc, got == [('i0', 'base'), ('i1', 'A'), ('i2', 'base'), ('i3', 'AB')], got)
