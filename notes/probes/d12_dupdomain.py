from dataclasses import dataclass
from entity_query_language import *
@symbol
@dataclass(eq=False)
class B:
    n: int
    def __repr__(self): return f"B({self.n})"
a,b=B(1),B(2)
with symbolic_mode():
    x=let(B,[a,b,a]); q=an(entity(x, x.n > 0))
print([list(q.evaluate()) for _ in range(3)])
with symbolic_mode():
    x=let(B,[a,b,a]); q=an(entity(x))
print([list(q.evaluate()) for _ in range(3)])
