"""@symbol classes with a __new__ of their own / inherited / of a builtin base, constructed outside every block (C08, round 5)."""
from entity_query_language import symbol, an, entity, let, symbolic_mode

@symbol
class Interned:
    _all = {}
    def __new__(cls, key):
        return cls._all.setdefault(key, object.__new__(cls))
    def __init__(self, key): self.key = key
a = Interned("k"); b = Interned("k")
print("own __new__      :", a is b, a.key)

class Base:
    made = 0
    def __new__(cls, *a, **k):
        Base.made += 1
        return super().__new__(cls)
@symbol
class Child(Base):
    def __init__(self, x): self.x = x
Child(1)
print("inherited __new__:", Base.made == 1)

@symbol
class MyInt(int): pass
print("builtin base     :", MyInt(5) + 1)

@symbol
class Plain:
    def __init__(self, x): self.x = x
@symbol
class Sub(Plain): pass
class Undecorated(Sub): pass
Plain(1); Sub(2); Undecorated(3)
with symbolic_mode():
    q = an(entity(let(Plain)))
print("registry         :", sorted(o.x for o in q.evaluate()))
