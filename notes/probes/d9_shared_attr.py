from dataclasses import dataclass
from typing import Any
from entity_query_language import *
@symbol
@dataclass(eq=False)
class Item:
    name: str
    val: Any
    def __repr__(self): return self.name
items=[Item("i0",0),Item("i1",[]),Item("i2",1)]
with symbolic_mode():
    i=let(Item,items); v=i.val
    q=an(entity(i, and_(v != 5, or_(i.name == "i1", v))))
print(list(q.evaluate()), "expected [i1, i2]")
with symbolic_mode():
    i=let(Item,items)
    q=an(entity(i, and_(i.val != 5, or_(i.name == "i1", i.val))))
print(list(q.evaluate()), "(unshared)")
