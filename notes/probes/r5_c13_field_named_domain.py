from dataclasses import dataclass
from entity_query_language import symbol, a, an, entity, let, symbolic_mode, From, predicate, rule_mode, infer
@symbol
@dataclass(eq=False)
class Zone:
    name: str
    domain: str = "x"
    function: str = "f"
zs = [Zone("a", "x"), Zone("b", "y", "g")]
with symbolic_mode():
    print([z.name for z in Zone(From(zs), domain="y").evaluate()], "expected ['b']")
    print([z.name for z in Zone(From(zs), "b", "y").evaluate()], "expected ['b']")
    print([z.name for z in Zone(From(zs), function="g").evaluate()], "expected ['b']")
@symbol
@dataclass(eq=False)
class Made:
    function: str
    domain: str
with rule_mode():
    z = let(Zone, zs)
    r = infer(entity(Made(function=z.function, domain=z.domain), z.name != ""))
print(sorted((m.function, m.domain) for m in r.evaluate()), "expected [('f','x'),('g','y')]")
print(Zone("c", domain="q").domain, Made(function="h", domain="d").function)
