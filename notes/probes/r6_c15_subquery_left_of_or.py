from dataclasses import dataclass
from entity_query_language import *
@symbol
@dataclass(eq=False)
class P: name: str; x: int; y: int
@symbol
@dataclass(eq=False)
class Q: name: str; x: int; y: int
ps=[P("p1",1,10),P("p2",2,20),P("p3",3,30),P("p4",1,40),P("p5",0,0)]
qs=[Q("q1",1,10),Q("q2",2,40),Q("q3",5,30),Q("q4",0,0)]
rows=lambda qu,*s: sorted({tuple(r[v].name for v in s) for r in qu.evaluate()})
with symbolic_mode():
    p=let(P,ps); q=let(Q,qs)
    n2=an(set_of((p,q), (q.x==an(entity(p,p.y>=20)).x) | (q.y==0))); i2=an(set_of((p,q), ((p.y>=20)&(q.x==p.x)) | (q.y==0)))
a, b = rows(n2,p,q), rows(i2,p,q)
print(a==b, "missing from the nested form:", sorted(set(b)-set(a)), "extra:", sorted(set(a)-set(b)))
