from dataclasses import dataclass, field
from typing import List
from entity_query_language import *
from entity_query_language.symbolic import in_symbolic_mode, Variable, _symbolic_mode, SymbolicExpression
from entity_query_language.cache_data import disable_caching, enable_caching

@symbol
@dataclass(eq=False)
class B:
    name: str
    size: int = 1
    def __repr__(self): return f"B({self.name},{self.size})"

objs = [B("a",5), B("b",1), B("c",2), B("d",3)]

def run(title, f):
    try:
        print(title, "->", f())
    except Exception as e:
        import traceback
        print(title, "-> EXC", type(e).__name__, e)

# C04: abandon then re-evaluate
def c04():
    with symbolic_mode():
        x = let(B, objs)
        q = an(entity(x, or_(x.size == 1, x.size == 2)))
    it = q.evaluate(); first = next(it); it.close()
    return first, list(q.evaluate()), list(q.evaluate())
run("C04 abandon ElseIf", c04)

def c04b():
    with symbolic_mode():
        x = let(B, objs); y = let(B, objs)
        q = an(set_of([x, y], or_(x.size == 1, y.size == 2)))
    it = q.evaluate(); first = next(it); it.close()
    a = len(list(q.evaluate())); b = len(list(q.evaluate()))
    with symbolic_mode():
        x = let(B, objs); y = let(B, objs)
        q2 = an(set_of([x, y], or_(x.size == 1, y.size == 2)))
    return a, b, len(list(q2.evaluate()))
run("C04 abandon Union", c04b)

# C08: mode leak through suspended iterator
def c08():
    with symbolic_mode():
        x = let(B, objs)
        q = an(entity(x, x.size > 1))
        it = q.evaluate()
        first = next(it)
        inside = in_symbolic_mode()
    outside = in_symbolic_mode()
    it.close()
    after_close = in_symbolic_mode()
    t = type(B("z"))
    _symbolic_mode.set(None)
    return inside, outside, after_close, t
run("C08 (inside after next, outside, after close, type)", c08)

def c08b():
    x = let(B, objs)
    with symbolic_mode():
        q = an(entity(x, x.size > 1))
    it = q.evaluate()
    next(it)
    with symbolic_mode():
        r1 = in_symbolic_mode()
        next(it)
        r2 = in_symbolic_mode()
    r3 = in_symbolic_mode()
    list(it)
    r4 = in_symbolic_mode()
    _symbolic_mode.set(None)
    return r1, r2, r3, r4
run("C08b", c08b)

# C07 laziness
def c07():
    log = []
    def gen():
        for o in objs:
            log.append(o.name); yield o
    with symbolic_mode():
        x = let(B, gen())
        q = an(entity(x, x.size > 1))
    pre = list(log)
    it = q.evaluate()
    pre2 = list(log)
    first = next(it); l1 = list(log)
    second = next(it); l2 = list(log)
    rest = list(it)
    again = list(q.evaluate())
    return pre, pre2, first, l1, second, l2, rest, log, again
run("C07", c07)
def c07b():
    log = []
    def gen():
        for o in objs:
            log.append(o.name); yield o
    x = let(B, gen())
    q = an(entity(x))
    it = q.evaluate()
    first = next(it); l1 = list(log)
    return first, l1
run("C07 no-cond", c07b)
