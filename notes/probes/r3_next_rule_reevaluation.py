from dataclasses import dataclass
from entity_query_language import symbol, let, an, entity, rule_mode, symbolic_mode, Add
from entity_query_language.rule import next_rule
@symbol
@dataclass(eq=False)
class Part:  name: str; size: int
@symbol
@dataclass(eq=False)
class View:  part: Part
@symbol
@dataclass(eq=False)
class Small(View): ...
@symbol
@dataclass(eq=False)
class Big(View): ...
parts = [Part("p1",1), Part("p2",5), Part("p3",9)]
part = let(type_=Part, domain=parts); other = let(type_=Part, domain=parts)
with symbolic_mode():
    query = an(entity(views := let(type_=View), part.size < 3))
with rule_mode(query):
    Add(views, Small(part=part))
    with next_rule(other.size > 3):
        Add(views, Big(part=other))
show = lambda it: sorted((type(v).__name__, v.part.name) for v in it)
print(show(query.evaluate()))
print(show(query.evaluate()))
