"""One-off differential probe for concatenate (not part of the machinery): random worlds against a Python oracle."""
import random, itertools
from dataclasses import dataclass, field
from typing import Any
from entity_query_language import *

@symbol
@dataclass(eq=False)
class Item:
    name: str
    n: int = 0
@symbol
@dataclass(eq=False)
class Box:
    name: str
    items: Any = field(default_factory=list)

def run(seed):
    rnd = random.Random(seed)
    names = ["a", "b", "c", "d", ""]
    items = [Item(rnd.choice(names), rnd.randint(0, 2)) for _ in range(rnd.randint(1, 4))]
    boxes = []
    for i in range(rnd.randint(0, 3)):
        k = rnd.random()
        if k < 0.2: content = rnd.choice(names)            # scalar
        elif k < 0.4: content = []
        else: content = [rnd.choice(names) for _ in range(rnd.randint(1, 3))]
        boxes.append(Box(f"B{i}", content))
    combined = []
    for b in boxes:
        combined.extend(b.items if isinstance(b.items, list) else [b.items])
    shape = rnd.randrange(6)
    with symbolic_mode():
        it = Item(From(items)) if items else None
        bx = Box(From(boxes if boxes else iter(())))
        conc = concatenate(bx.items)
        m = in_(it.name, conc)
        if shape == 0: cond, f = m, lambda x: x.name in combined
        elif shape == 1: cond, f = not_(m), lambda x: x.name not in combined
        elif shape == 2: cond, f = or_(it.n == 0, m), lambda x: x.n == 0 or x.name in combined
        elif shape == 3: cond, f = or_(m, it.n == 0), lambda x: x.n == 0 or x.name in combined
        elif shape == 4: cond, f = and_(it.n > 0, not_(m)), lambda x: x.n > 0 and x.name not in combined
        else: cond, f = not_(and_(it.n > 0, m)), lambda x: not (x.n > 0 and x.name in combined)
        q = an(entity(it, cond))
    want = [id(x) for x in items if f(x)]
    for rep in range(2):
        got = [id(x) for x in q.evaluate()]
        if sorted(set(got)) != sorted(set(want)) or any(not isinstance(x, Item) for x in q.evaluate()):
            return f"seed {seed} shape {shape} rep {rep}: got {len(got)} want {len(want)} boxes={[b.items for b in boxes]} items={[(x.name,x.n) for x in items]}"
    with symbolic_mode():
        bx = Box(From(boxes if boxes else iter(())))
        q2 = an(entity(concatenate(bx.items)))
    got = list(q2.evaluate())
    if got != [combined]:
        return f"seed {seed}: combined list {got} want {[combined]}"
    return None

bad = 0
for s in range(400):
    try:
        r = run(s)
    except Exception as e:
        r = f"seed {s}: raised {type(e).__name__}: {e}"
    if r:
        bad += 1
        if bad < 8: print(r)
print("bad", bad, "of 400")
