from dataclasses import dataclass
from entity_query_language import an, entity, let, symbolic_mode, symbol, and_, or_

@symbol
@dataclass(eq=False)
class It:
    name: str; a: int; flag: bool
