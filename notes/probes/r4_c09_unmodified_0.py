from dataclasses import dataclass
from entity_query_language import (entity, an, let, predicate, symbol, HasType, symbolic_mode, rule_mode, Add)

@symbol
@dataclass(eq=False)
class Body:
    name: str

@symbol
@dataclass(eq=False)
class Handle(Body):
    pass

@symbol
@dataclass(eq=False)
class Group:
    name: str
    members: list

@symbol
@dataclass(eq=False)
class Marked:
    group: Group

groups = [Group("g1", [Handle("h1"), Body("b1")]), Group("g2", [Body("b2")])]

@predicate
def has_handle(group: Group) -> bool:
    with symbolic_mode():   # the predicate is written as a sub-query
        sub_query = an(entity(member := let(Body, group.members), HasType(member, Handle)))
    return len(list(sub_query.evaluate())) > 0

with symbolic_mode():
    group = let(Group, groups)
    rule = an(entity(marked := let(Marked), has_handle(group)))
with rule_mode(rule):
    Add(marked, Marked(group=group))
    try:
        inside = [m.group.name for m in rule.evaluate()]
    except Exception as e:
        inside = f"{type(e).__name__}: {e}"
outside = [m.group.name for m in rule.evaluate()]
print("inside :", inside); print("outside:", outside)
assert inside == outside
