from dataclasses import dataclass, field
from typing import Any
from entity_query_language import symbolic_mode, let, concatenate, entity, an, set_of, and_, or_, flatten, symbol
@symbol
@dataclass(eq=False)
class Box:
    name: str
    kind: str
    items: Any = field(default_factory=list)
@symbol
@dataclass(eq=False)
class Tag:
    t: str
boxes=[Box("a","k",[1,2]),Box("b","k",[3]),Box("c","m",[4,5]),Box("d","k",[6])]
tags=[Tag("u"),Tag("v")]
with symbolic_mode():
    b=let(Box,boxes,name='b'); t=let(Tag,tags,name='t')
    p=an(set_of([b,t], and_(b.kind=="k", t.t != "z")))
    q=an(entity(flatten(p[b].items))) if False else None
with symbolic_mode():
    b=let(Box,boxes,name='b'); t=let(Tag,tags,name='t')
    p=an(entity(b, and_(b.kind=="k", or_(t.t=="u", t.t=="v"))))
    q=an(entity(flatten(p.items)))
full=[r for r in q.evaluate()]
print("full", full)
it=q.evaluate(); first=next(it); it.close()
print("after abandon", [r for r in q.evaluate()])
it=q.evaluate(); first=next(it); second=next(it); it.close()
print("after abandon2", [r for r in q.evaluate()])
print("--- fresh query abandoned first")
with symbolic_mode():
    b=let(Box,boxes,name='b'); t=let(Tag,tags,name='t')
    p=an(entity(b, and_(b.kind=="k", or_(t.t=="u", t.t=="v"))))
    q=an(entity(flatten(p.items)))
it=q.evaluate(); first=next(it); it.close()
print("after abandon (never completed before)", [r for r in q.evaluate()])
with symbolic_mode():
    b=let(Box,boxes,name='b'); t=let(Tag,tags,name='t')
    p=an(entity(b, and_(b.kind=="k", or_(t.t=="u", t.t=="v"))))
    q=an(entity(flatten(p.items)))
it=q.evaluate(); [next(it) for _ in range(3)]; it.close()
print("after abandon at 3", [r for r in q.evaluate()])
