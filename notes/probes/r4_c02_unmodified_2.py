with symbolic_mode():
    p=let(P,ps,name="p"); p2=let(P,domain=p,name="p2"); query=an(set_of([p,p2], p.k==p2.k))
print(sorted((r[p].name,r[p2].name) for r in query.evaluate()))  # [('a','a')]  expected [('a','a'),('b','b')]
