from dataclasses import dataclass, field
from typing import List
from entity_query_language import symbol, predicate, let, an, the, entity, flatten, symbolic_mode, MultipleSolutionFound
from entity_query_language.symbolic import in_symbolic_mode

@symbol
@dataclass(eq=False)
class Box:
    content: List[int] = field(default_factory=list)
    @property
    def items(self):
        with symbolic_mode():          # user code keeps a block open while it yields
            yield from self.content

@predicate
def boom(i):
    if i == 2: raise ValueError(i)
    return True

box = let(Box, [Box([1, 2, 3])])
with symbolic_mode():
    q_the = the(entity(i := flatten(box.items)))
    q_an = an(entity(j := flatten(box.items), boom(j)))

with symbolic_mode():
    try: q_the.evaluate()
    except MultipleSolutionFound: assert in_symbolic_mode()
    print("the:", in_symbolic_mode())      # expected True
with symbolic_mode():
    try: list(q_an.evaluate())
    except ValueError: assert in_symbolic_mode()
    print("an:", in_symbolic_mode())      # expected True
