"""Random rule trees over TWO variables (refinement / alternative), conclusions that mention both, against a per-assignment
oracle; evaluated twice (cache replay).  One-off sanity probe for the repo fixes of round 4, not part of the machinery."""
import random, sys, itertools
from dataclasses import dataclass
from entity_query_language import symbol, let, an, entity, Add, refinement, alternative, symbolic_mode, rule_mode, and_

@symbol
@dataclass(unsafe_hash=True)
class Item:
    name: str
    a: int
    b: int = 0
@symbol
@dataclass(unsafe_hash=True)
class Slot:
    name: str
    k: int
    m: int = 0
@symbol
@dataclass(unsafe_hash=True)
class Pair:
    item: Item
    slot: Slot
    tag: str

ATOMS = [
    ("x.a > y.k", lambda x, y: x.a > y.k, lambda X, Y: X.a > Y.k),
    ("x.a == y.k", lambda x, y: x.a == y.k, lambda X, Y: X.a == Y.k),
    ("y.m < 1", lambda x, y: y.m < 1, lambda X, Y: Y.m < 1),
    ("y.k >= 1", lambda x, y: y.k >= 1, lambda X, Y: Y.k >= 1),
    ("x.a > 0", lambda x, y: x.a > 0, lambda X, Y: X.a > 0),
    ("x.b != 1", lambda x, y: x.b != 1, lambda X, Y: X.b != 1),
    ("x.b <= y.m", lambda x, y: x.b <= y.m, lambda X, Y: X.b <= Y.m),
]

class Node:
    def __init__(self, atoms, tag):
        self.atoms, self.tag, self.ref = atoms, tag, None
    def holds(self, x, y): return all(a[1](x, y) for a in self.atoms)
    def expr(self, X, Y):
        es = [a[2](X, Y) for a in self.atoms]
        return es[0] if len(es) == 1 else and_(*es)
    def text(self): return " & ".join(a[0] for a in self.atoms)

def gen_chain(rnd, depth, prefix):
    n = rnd.choice([1, 2, 2, 3]) if depth < 2 else rnd.choice([1, 2])
    chain = []
    for i in range(n):
        nd = Node(rnd.sample(ATOMS, rnd.choice([1, 1, 2])), f"{prefix}{i}")
        if depth < 2 and rnd.random() < 0.4:
            nd.ref = gen_chain(rnd, depth + 1, nd.tag + "r")
        chain.append(nd)
    return chain

def oracle_chain(chain, x, y):
    for nd in chain:
        if nd.holds(x, y):
            if nd.ref:
                r = oracle_chain(nd.ref, x, y)
                if r is not None:
                    return r
            return nd.tag
    return None

def build(chain, v, X, Y, first_is_base=None, opener=None):
    # chain[0] is declared in the caller's context (the base, or the refinement block the caller opened); its alternatives
    # are declared as siblings in the same context
    head = chain[0]
    Add(v, Pair(X, Y, head.tag))
    if head.ref:
        with refinement(head.ref[0].expr(X, Y)):
            build(head.ref, v, X, Y)
    for alt in chain[1:]:
        with alternative(alt.expr(X, Y)):
            Add(v, Pair(X, Y, alt.tag))
            if alt.ref:
                with refinement(alt.ref[0].expr(X, Y)):
                    build(alt.ref, v, X, Y)


def describe(chain, ind=0):
    out = []
    for i, nd in enumerate(chain):
        out.append(" " * ind + ("base/ref " if i == 0 else "alt ") + nd.tag + ": " + nd.text())
        if nd.ref: out += describe(nd.ref, ind + 4)
    return out

def main(n=200, seed=1):
    rnd = random.Random(seed)
    bad = 0
    for t in range(n):
        items = [Item(f"i{j}", rnd.randint(0, 2), rnd.randint(0, 2)) for j in range(rnd.randint(1, 3))]
        slots = [Slot(f"s{j}", rnd.randint(0, 2), rnd.randint(0, 2)) for j in range(rnd.randint(1, 3))]
        chain = gen_chain(rnd, 0, "n")
        # the base binds both variables (a condition over both): what a refinement means for a variable the refined branch does
        # not bind (per assignment, or 'for some value') is not what this probe is about
        if not any(a[0] in ("x.a > y.k", "x.a == y.k", "x.b <= y.m") for a in chain[0].atoms):
            chain[0].atoms = [rnd.choice([a for a in ATOMS if a[0] in ("x.a > y.k", "x.a == y.k", "x.b <= y.m")])] + chain[0].atoms[:1]
        X, Y = let(type_=Item, domain=items), let(type_=Slot, domain=slots)
        with symbolic_mode():
            q = an(entity(v := let(type_=Pair), chain[0].expr(X, Y)))
        with rule_mode(q):
            build(chain, v, X, Y, True, None)
        exp = sorted((x.name, y.name, tg) for x in items for y in slots for tg in [oracle_chain(chain, x, y)] if tg is not None)
        for ev in (1, 2):
            try:
                got = sorted((p.item.name, p.slot.name, p.tag) for p in q.evaluate())
            except Exception as e:
                got = f"raised {type(e).__name__}: {e}"
            if got != exp:
                bad += 1
                if bad <= 4:
                    print(f"--- trial {t} evaluation {ev}")
                    print("\n".join(describe(chain)))
                    print("items", items, "slots", slots)
                    print("got", got); print("exp", exp)
                break
    print(f"bad {bad} of {n}")

main(int(sys.argv[1]) if len(sys.argv) > 1 else 200, int(sys.argv[2]) if len(sys.argv) > 2 else 1)
