"""Differential probe for C15 (not part of the checks): random enclosing conditions over one shared sub-query object used as a
condition and / or as an operand, against the inlined reading computed in plain Python."""
import random, sys, itertools
from dataclasses import dataclass
from entity_query_language import symbol, let, an, entity, set_of, symbolic_mode, and_, or_
@symbol
@dataclass(eq=False)
class P: name: str; x: int; y: int
@symbol
@dataclass(eq=False)
class Q: name: str; x: int; y: int

def gen_data(r):
    ps=[P(f"p{i}", r.randint(0,3), r.choice([0,10,20,30,40])) for i in range(r.randint(2,5))]
    qs=[Q(f"q{i}", r.randint(0,3), r.choice([0,10,20,30,40])) for i in range(r.randint(2,4))]
    return ps,qs
def atom_p(r):
    f=r.choice("xy"); k=r.choice([0,1,2,3] if f=="x" else [0,10,20,30,40]); op=r.choice([">=","==","<"])
    return ("p",f,op,k)
def atom_q(r):
    f=r.choice("xy"); k=r.choice([0,1,2,3] if f=="x" else [0,10,20,30,40]); op=r.choice([">=","==","<"])
    return ("q",f,op,k)
def tree_p(r,d=0):
    if d>=2 or r.random()<0.5: return atom_p(r)
    return (r.choice(["and","or"]), tree_p(r,d+1), tree_p(r,d+1))
def outer(r,d=0,left_of_or=False):
    c=r.random()
    if d>=2 or c<0.45:
        k=r.random()
        if k<0.3: return ("S",)                       # the sub-query as a condition
        if k<0.55 and not left_of_or: return ("OP", r.choice("xy"), r.choice("xy"))   # q.f == s.g
        if k<0.8: return atom_q(r)
        return atom_p(r)
    op=r.choice(["and","or"])
    return (op, outer(r,d+1,left_of_or or op=="or"), outer(r,d+1,left_of_or))
def ev(t,p,q,A):
    if t[0]=="S": return A(p)
    if t[0]=="OP": return A(p) and getattr(q,t[1])==getattr(p,t[2])
    if t[0] in ("and","or"):
        a=ev(t[1],p,q,A); b=ev(t[2],p,q,A); return (a and b) if t[0]=="and" else (a or b)
    o=p if t[0]=="p" else q; v=getattr(o,t[1])
    return v>=t[3] if t[2]==">=" else v==t[3] if t[2]=="==" else v<t[3]
def evp(t,p):
    if t[0] in ("and","or"):
        a=evp(t[1],p); b=evp(t[2],p); return (a and b) if t[0]=="and" else (a or b)
    v=getattr(p,t[1]); return v>=t[3] if t[2]==">=" else v==t[3] if t[2]=="==" else v<t[3]
def build(t,pv,qv,s):
    if t[0]=="S": return s
    if t[0]=="OP": return getattr(qv,t[1])==getattr(s,t[2])
    if t[0] in ("and","or"):
        a=build(t[1],pv,qv,s); b=build(t[2],pv,qv,s); return and_(a,b) if t[0]=="and" else or_(a,b)
    o=pv if t[0]=="p" else qv; e=getattr(o,t[1])
    return e>=t[3] if t[2]==">=" else e==t[3] if t[2]=="==" else e<t[3]
def uses(t,k): return t[0]==k or (t[0] in ("and","or") and (uses(t[1],k) or uses(t[2],k)))
def show(t):
    if t[0]=="S": return "s"
    if t[0]=="OP": return f"(q.{t[1]}==s.{t[2]})"
    if t[0] in ("and","or"): return f"{t[0]}_({show(t[1])}, {show(t[2])})"
    return f"{t[0]}.{t[1]}{t[2]}{t[3]}"
N=int(sys.argv[1]) if len(sys.argv)>1 else 300; seed=int(sys.argv[2]) if len(sys.argv)>2 else 0
bad=0; n=0
for i in range(N):
    r=random.Random(seed*100003+i)
    ps,qs=gen_data(r); tp=tree_p(r); to=outer(r)
    if not (uses(to,"S") or uses(to,"OP")): continue
    n+=1
    A=lambda p: evp(tp,p)
    want=sorted((p.name,q.name) for p in ps for q in qs if ev(to,p,q,A))
    try:
        with symbolic_mode():
            pv=let(P,ps); qv=let(Q,qs)
            def bp(t):
                if t[0] in ("and","or"):
                    a=bp(t[1]); b=bp(t[2]); return and_(a,b) if t[0]=="and" else or_(a,b)
                e=getattr(pv,t[1]); return e>=t[3] if t[2]==">=" else e==t[3] if t[2]=="==" else e<t[3]
            s=an(entity(pv,bp(tp)))
            qu=an(set_of((pv,qv),build(to,pv,qv,s)))
        for rep in range(2):
            got=sorted({(row[pv].name,row[qv].name) for row in qu.evaluate()})
            if got!=want:
                bad+=1
                print(f"MISMATCH #{i} eval {rep+1}: s=an(entity(p,{show(tp)})); cond={show(to)}\n   missing {sorted(set(want)-set(got))[:4]} extra {sorted(set(got)-set(want))[:4]}")
                break
    except Exception as e:
        bad+=1; print(f"EXC #{i}: {type(e).__name__}: {e}; s={show(tp)} cond={show(to)}")
print(f"{n} queries with the sub-query, {bad} mismatches")
