from dataclasses import dataclass
from entity_query_language import symbol, let, an, entity, Add, refinement, alternative, symbolic_mode, rule_mode
@symbol
@dataclass(unsafe_hash=True)
class Item:  name: str; a: int
@symbol
@dataclass(unsafe_hash=True)
class Slot:  name: str; k: int; m: int = 0
@symbol
@dataclass(unsafe_hash=True)
class Pair:  item: Item; slot: Slot; tag: str
def run(q): return sorted((p.item.name, p.slot.name, p.tag) for p in q.evaluate())
