from dataclasses import dataclass
from typing import Any
from entity_query_language import *
@symbol
@dataclass(eq=False)
class Item:
    name: str
    val: Any
@symbol
@dataclass(eq=False)
class Bag:
    owner: Any
    content: Any = ()
    def __len__(self): return len(self.content)
    def __repr__(self): return f"Bag({self.owner})"
items=[Item("i0",0),Item("i1",[]),Item("i2",1)]
with rule_mode():
    i=let(Item,items)
    q=infer(entity(Bag(owner=i.name), i.name != "zz"))
print(list(q.evaluate()), "expected 3 Bags")
