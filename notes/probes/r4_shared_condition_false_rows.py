from dataclasses import dataclass
from entity_query_language import symbol, let, an, set_of, and_, or_, not_, contains, in_, symbolic_mode
@symbol
@dataclass(eq=False)
class P:
    name: str
    a: int
    tags: tuple
@symbol
@dataclass(eq=False)
class Q:
    name: str
    k: int
ps=[P('p0',0,(0,)),P('p1',0,()),P('p2',5,())]
qs=[Q('q0',0)]
def run(build):
    with symbolic_mode():
        X=let(P,ps,name='x'); Y=let(Q,qs,name='y')
        q=an(set_of([X,Y],build(X,Y)))
    return sorted((r[X].name,r[Y].name) for r in q.evaluate())
def b1(X,Y):
    c1=contains(X.tags,Y.k); c2=X.a==Y.k
    return and_(c1, or_(or_(c1,c2),c2))
def b2(X,Y):
    c1=contains(X.tags,Y.k); c2=X.a==Y.k
    return and_(c1, or_(c1,c2))
def b3(X,Y):
    c1=contains(X.tags,Y.k); c2=X.a==Y.k
    return and_(c1, or_(c2,c1))
def b4(X,Y):
    c2=X.a==Y.k
    return and_(contains(X.tags,Y.k), or_(c2,c2))
def b5(X,Y):
    c2=X.a==Y.k
    return or_(or_(contains(X.tags,Y.k), c2),c2)
for b in (b1,b2,b3,b4,b5): print(b.__name__, run(b))
print("exp and-cases", [('p0','q0')], "b5 exp", [('p0','q0'),('p1','q0')])
