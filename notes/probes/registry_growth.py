from dataclasses import dataclass
from entity_query_language import *
from entity_query_language.symbolic import Variable
@symbol
@dataclass(eq=False)
class R:
    n: int
    def __repr__(self): return f"R({self.n})"
R(1); R(2)
with symbolic_mode():
    x = let(R)
    q = an(entity(x))
print(list(q.evaluate()))
R(3)
print("same query after constructing R(3):", list(q.evaluate()))
with symbolic_mode():
    y = let(R); q2 = an(entity(y))
print("new query:", list(q2.evaluate()))
with symbolic_mode():
    z = let(R); q3 = an(entity(z, z.n > 0))
R(4)
print("declared before R(4), first evaluated after:", list(q3.evaluate()))
