from dataclasses import dataclass, field
from typing import List
from entity_query_language import entity, let, contains, infer, symbolic_mode, rule_mode, symbol, Add, alternative
from entity_query_language.rule import next_rule
from entity_query_language.cache_data import enable_caching, disable_caching
@symbol
@dataclass(eq=False)
class Item: name: str; a: int; b: int
@symbol
@dataclass(eq=False)
class Box: name: str; c: int; items: List[Item] = field(default_factory=list)
@symbol
@dataclass(eq=False)
class Pair: first: object; second: object
def run(caching):
    (enable_caching if caching else disable_caching)()
    i0, i2, i3 = Item("i0", 1, 2), Item("i2", 2, 2), Item("i3", 3, 1)
    items, boxes = [i0, i2, i3], [Box("b0", 1, [i0]), Box("b1", 2, [i2, i3])]
    with symbolic_mode():
        x = let(Item, items); y = let(Item, items); z = let(Box, boxes)
    with rule_mode():
        rule = infer(entity(p := Pair(), y.a < x.b))
    with rule_mode(rule):
        Add(p, Pair(first=y, second=y))
        with next_rule(z.c >= y.b, contains(z.items, x)):
            Add(p, Pair(first=z, second=y))
        with alternative(contains(z.items, y)):
            Add(p, Pair(first=y, second=y))
    r = sorted({(p.first.name, p.second.name) for p in rule.evaluate()}); enable_caching(); return r
on, off = run(True), run(False)
print("only with caching:", sorted(set(on) - set(off)))   # [('b1', 'i3')]
assert on == off
