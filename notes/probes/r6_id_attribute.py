from dataclasses import dataclass
from entity_query_language import symbol, let, the, an, entity, symbolic_mode, From
from entity_query_language.failures import MultipleSolutionFound
@symbol
@dataclass(eq=False)
class W:
    _id_: int
    v: int
ws = [W(1,1), W(1,2), W(2,3)]
with symbolic_mode():
    w = let(W, ws); q = an(entity(w, w.v > 0))
print(len(list(q.evaluate())))
@symbol
class Rec:
    def __init__(self, name, size=0):
        self.name, self.size = name, size
    def __getattr__(self, item):
        return None
recs = [Rec("a", 1), Rec("b", 2), Rec("c", 1)]
with symbolic_mode():
    every = an(entity(Rec(From(recs))))
    term = Rec(From(recs), size=1)
print([r.name for r in every.evaluate()], [r.name for r in term.evaluate()])
