from dataclasses import dataclass, field
from typing import List
from entity_query_language import symbol, symbolic_mode, an, set_of, entity, let, flatten, or_
from entity_query_language.cache_data import enable_caching, disable_caching
@symbol
@dataclass(eq=False)
class Box:
    name: str
    items: List[int] = field(default_factory=list)
for switch in (disable_caching, enable_caching):
    switch()
    boxes = [Box("E", [2, 2, 5])]
    with symbolic_mode():
        b = let(Box, boxes); x = flatten(b.items)
        q = an(set_of([b, x], or_(x == 4, b.name == "E")))
    print(switch.__name__, [[(r[b].name, r[x]) for r in q.evaluate()] for _ in range(2)])
    with symbolic_mode():
        b = let(Box, boxes); x = flatten(b.items)
        q = an(set_of([b, x], or_(b.name == "E", x == 4)))
    print(switch.__name__, "swapped", [[(r[b].name, r[x]) for r in q.evaluate()] for _ in range(2)])
    with symbolic_mode():
        b = let(Box, boxes); x = flatten(b.items)
        q = an(entity(x, or_(x == 4, x < 3)))
    print([list(q.evaluate()) for _ in range(2)], "expected [2,2] each")
    with symbolic_mode():
        b = let(Box, boxes); x = flatten(b.items)
        q = an(entity(x, x < 3))
    print([list(q.evaluate()) for _ in range(2)], "plain expected [2,2] each")
