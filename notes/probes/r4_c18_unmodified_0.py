from dataclasses import dataclass
from entity_query_language import symbol, symbolic_mode, let, an, entity, and_, or_, in_
@symbol
@dataclass(eq=False)
class Item:
    name: str
    size: int
items = [Item(f"i{k}", k) for k in range(5)]
def run(build):
    with symbolic_mode():
        i = let(Item, items); q = an(entity(i, build(i)))
    return sorted(r.name for r in q.evaluate())
print(run(lambda i: and_(i.size > 1, in_("a", ["a", "b"]))))  # ['i2']  (wrong)
print(run(lambda i: and_(in_("a", ["a", "b"]), i.size > 1)))  # ['i2','i3','i4']
print(run(lambda i: or_(i.size > 3, in_("a", ["a", "b"]))))   # ['i0','i4'] (wrong)
print(run(lambda i: or_(in_("a", ["a", "b"]), i.size > 3)))   # all five
