dom = [It("x0",1,True), It("x1",2,False), It("x2",2,True)]
with symbolic_mode():
    v = let(type_=It, domain=dom); q = an(entity(v, and_(v.a > 0, v.flag == True)))
list(q.evaluate()); dom[0].flag = False; dom[1].flag = True
print([o.name for o in q.evaluate()])   # ['x0','x1','x2'], expected ['x1','x2']
