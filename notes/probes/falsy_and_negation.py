from dataclasses import dataclass, field
from typing import List
from entity_query_language import *
from entity_query_language.symbolic import in_symbolic_mode, Variable
from entity_query_language.cache_data import disable_caching, enable_caching

@symbol
@dataclass(eq=False)
class B:
    name: str
    size: int = 1
    flag: bool = True
    items: list = field(default_factory=list)
    def __repr__(self): return f"B({self.name},{self.size})"

objs = [B("a",0), B("b",1), B("c",2), B("",3, False)]

def run(title, f):
    try:
        print(title, "->", f())
    except Exception as e:
        print(title, "-> EXC", type(e).__name__, e)

# C19: falsy operand
def c19():
    with symbolic_mode():
        x = let(B, objs)
        q = an(entity(x, x.size == 0))
    return list(q.evaluate())
run("C19 size==0", c19)
def c19b():
    with symbolic_mode():
        x = let(B, objs)
        q = an(entity(x, x.name == ""))
    return list(q.evaluate())
run("C19 name==''", c19b)
def c19c():
    with symbolic_mode():
        x = let(B, objs)
        q = an(entity(x, x.size < 2))
    return list(q.evaluate())
run("C19 size<2", c19c)
def c19d():
    with symbolic_mode():
        x = let(B, objs)
        q = an(set_of([x, x.size]))
    return [(r[x], r[x.size]) if False else r for r in q.evaluate()]
run("C19 select x.size", c19d)

# C03 negations
def c03():
    with symbolic_mode():
        x = let(B, objs)
        q = an(entity(x, not_(x.size < 2)))
    return list(q.evaluate())
run("C03 not(size<2)", c03)
def c03b():
    with symbolic_mode():
        x = let(B, objs)
        q = an(entity(x, not_(not_(x.size >= 2))))
    return list(q.evaluate())
run("C03 not not(size>=2)", c03b)
