from dataclasses import dataclass
from entity_query_language import symbol, symbolic_mode, let, an, entity, set_of, and_, or_, not_, contains, for_all
@symbol
@dataclass(eq=False)
class Item:
    x: float
    tags: frozenset = frozenset()
ITEMS = [Item(0), Item(1), Item(2), Item(3)]
def run(build, items=ITEMS):
    with symbolic_mode():
        a = let(Item, domain=items, name='a'); q = an(entity(a, build(a)))
    return [i.x for i in q.evaluate()]
S = [Item(0, frozenset('ab')), Item(1, frozenset('bc')), Item(2, frozenset('abc'))]
print('V1', run(lambda a: not_(a.tags <= frozenset('ab')), S))   # got [2], expected [1, 2]
N = [Item(0), Item(float('nan')), Item(2)]
print('V2', run(lambda a: not_(a.x < 1), N))                      # got [2], expected [nan, 2]
with symbolic_mode():
    a = let(Item, domain=ITEMS); b = let(Item, domain=ITEMS)
    print('V3', [i.x for i in an(entity(a, not_(for_all(b, a.x <= b.x)))).evaluate()])  # got [0], expected [1, 2, 3]
def v4(a):
    c = a.x < 2
    return or_(c, not_(c))
print('V4', run(v4))                                              # got [2, 3], expected [0, 1, 2, 3]
print('V5', run(lambda a: and_(a.x < 3, not_(contains(['x'], 'y')))))   # got [0], expected [0, 1, 2]
print('V5b', run(lambda a: not_(or_(a.x < 2, contains(['x'], 'y')))))   # got [2], expected [2, 3]
with symbolic_mode():
    a = let(Item, domain=ITEMS, name='a'); b = let(Item, domain=ITEMS[:2], name='b')
    c = a.x < 2; q = an(set_of([a, b], and_(a.x != b.x, c)))
list(q.evaluate())
with symbolic_mode(): not_(c)
print('V6', sorted((r[a].x, r[b].x) for r in q.evaluate()))  # got the old rows (0,1),(1,0) plus the new ones; expected only (2,0),(2,1),(3,0),(3,1)
