from dataclasses import dataclass
from entity_query_language import *
@symbol
@dataclass(eq=False)
class P: name: str; x: int; y: int
@symbol
@dataclass(eq=False)
class Q: name: str; x: int; y: int
@predicate
def big(a): return a.y >= 30
ps=[P("p1",1,10),P("p2",2,20),P("p3",3,30),P("p4",1,40),P("p5",0,0)]
qs=[Q("q1",1,10),Q("q2",2,40),Q("q3",5,30),Q("q4",0,0)]
rows=lambda qu,*s: sorted({tuple(r[v].name for v in s) for r in qu.evaluate()})
with symbolic_mode():
    p=let(P,ps); q=let(Q,qs)
    s1=an(entity(p,(p.x==99)|(p.y>=q.y))); n5=an(set_of((p,q),big(s1))); i5=an(set_of((p,q),((p.x==99)|(p.y>=q.y))&big(p)))
before=rows(n5,p,q)
with symbolic_mode(): other=an(entity(p,(p.x>=0)&s1))          # merely building this query ...
after=rows(n5,p,q)
print(before==rows(i5,p,q), after==rows(i5,p,q), len(before), len(after))
