  with symbolic_mode():
      box = let(Box, boxes)
      item = flatten(the(entity(box.items, box.name == "b3")))
      q = a(set_of([box, item]))
  list(q.evaluate())  # NoSolutionFound
  