items = [Item("i0", 0, 2), Item("i1", 1, 5)]
boxes = [Box("b0", 2), Box("b1", 2)]
with symbolic_mode():
    x = let(Item, domain=items); z = let(Box, domain=boxes)
    q = the(entity(x, or_(for_all(z, x.b == z.b), x.a == 1)))
q.evaluate()   # returns i0; i0 and i1 both satisfy, so MultipleSolutionFound is expected
# or_(x.a == 1, for_all(...)) with the operands swapped does raise MultipleSolutionFound
