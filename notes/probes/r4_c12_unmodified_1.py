items, slots = [Item("i0",0), Item("i1",1)], [Slot("s0",0,1), Slot("s1",0,0)]
x, y = let(type_=Item, domain=items), let(type_=Slot, domain=slots)
with symbolic_mode(): q = an(entity(v := let(type_=Pair), y.m < 1, x.a > y.k))
with rule_mode(q):
    Add(v, Pair(x, y, "base"))
    with alternative(y.m != 2): Add(v, Pair(x, y, "alt"))
print(run(q))  # got [('i0','s0','alt'),('i0','s1','alt'),('i1','s1','base')]; ('i1','s0','alt') is missing
