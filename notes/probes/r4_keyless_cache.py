from dataclasses import dataclass
from entity_query_language import symbol, let, an, entity, symbolic_mode, and_, or_, contains, in_
@symbol
@dataclass(eq=False)
class P:
    name: str; k: int
ps = [P("a",1), P("b",2), P("c",3)]
with symbolic_mode():
    p = let(P, ps); query = an(entity(p, and_(p.k >= 1, contains([1, 2], 1))))
print([x.name for x in query.evaluate()], [x.name for x in query.evaluate()], "expected abc twice")
with symbolic_mode():
    p = let(P, ps); query = an(entity(p, contains([1, 2, 3], 2)))
print([x.name for x in query.evaluate()], [x.name for x in query.evaluate()], "expected abc twice")
with symbolic_mode():
    p = let(P, ps); query = an(entity(p, or_(p.k > 2, in_("a", ["a", "b"]))))
print([x.name for x in query.evaluate()], "expected abc")
from entity_query_language.cache_data import IndexedCache
c = IndexedCache([]); c.insert({}, 'Z'); print(c.check({}), list(c.retrieve({})) if c.check({}) else "not covered")
