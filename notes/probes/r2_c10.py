from dataclasses import dataclass
from entity_query_language import *
@symbol
@dataclass(eq=False)
class Item: name: str; size: int
@symbol
@dataclass(eq=False)
class Box:  name: str; cap: int
xs=[Item("a",0)]; ys=[Item("p",1),Item("q",5)]; boxes=[Box("B1",0),Box("B2",3)]
with symbolic_mode():
    x=let(Item,xs); y=let(Item,ys); u=let(Box,boxes)
    q=an(entity(x, for_all(u, or_(x.size > u.cap, y.size > u.cap))))
print("F1", [r.name for r in q.evaluate()], "expected ['a']")
with symbolic_mode():
    x=let(Item,xs); y=let(Item,ys); u=let(Box,boxes)
    q=an(set_of([x,y], for_all(u, or_(x.size > u.cap, y.size > u.cap))))
print("F1b", [(r[x].name,r[y].name) for r in q.evaluate()])

@symbol
@dataclass(unsafe_hash=True)
class Body:
    name: str
    size: int = 1
@predicate
def size_if_positive(b):
    return b.size if b.size > 0 else 0
bodies = [Body("H1", 1), Body("H2", 2), Body("B1", 3)]
with symbolic_mode():
    b = let(type_=Body, domain=bodies)
    c = let(type_=Body, domain=bodies)
    q = an(entity(b, for_all(c, size_if_positive(b=c))))
print("P1", [x.name for x in q.evaluate()], "expected all three")
@predicate
def is_big(b):
    return b.size >= 3
with symbolic_mode():
    b = let(type_=Body, domain=bodies)
    c = let(type_=Body, domain=bodies)
    q = an(entity(b, for_all(c, or_(is_big(b=c), c.size <= b.size))))
print("P2", [x.name for x in q.evaluate()], "expected H2,B1 (b.size>=2)")
with symbolic_mode():
    b = let(type_=Body, domain=bodies)
    c = let(type_=Body, domain=bodies)
    q = an(entity(b, for_all(c, not_(is_big(b=c)))))
print("P3", [x.name for x in q.evaluate()], "expected []")
with symbolic_mode():
    b = let(type_=Body, domain=bodies)
    c = let(type_=Body, domain=bodies)
    q = an(entity(b, for_all(c, HasType(c, Body))))
print("P4", [x.name for x in q.evaluate()], "expected all")
