# NOTE: expects a scratch copy of /repo (src + test) at /tmp/mutx/base; create it, run, then delete /tmp/mutx.
import os, shutil, subprocess, sys, json
from concurrent.futures import ThreadPoolExecutor
S="src/entity_query_language/"
M = {
 "M1_lt_to_le": (S+"symbolic.py", "return Comparator(self, other, operator.lt)", "return Comparator(self, other, operator.le)"),
 "M2_gt_swap": (S+"symbolic.py", "return Comparator(self, other, operator.gt)", "return Comparator(other, self, operator.gt)"),
 "M3_inv_lt_gt": (S+"symbolic.py", "self.operation = operator.ge if self._invert_ else self.operation\n            case operator.gt", "self.operation = operator.gt if self._invert_ else self.operation\n            case operator.gt"),
 "M4_inv_eq_noop": (S+"symbolic.py", "self.operation = operator.ne if self._invert_ else self.operation", "self.operation = operator.eq if self._invert_ else self.operation"),
 "M4b_inv_ne_noop": (S+"symbolic.py", "self.operation = operator.eq if self._invert_ else self.operation", "self.operation = operator.ne if self._invert_ else self.operation"),
 "M5_not_and_no_demorgan": (S+"symbolic.py", "operand = ElseIf(Not(operand.left), Not(operand.right))", "operand = AND(Not(operand.left), Not(operand.right))"),
 "M6_not_or_no_demorgan": (S+"symbolic.py", "operand = AND(Not(operand.left), Not(operand.right))", "operand = ElseIf(Not(operand.left), Not(operand.right))"),
 "M6b_not_and_drops_right_neg": (S+"symbolic.py", "operand = ElseIf(Not(operand.left), Not(operand.right))", "operand = ElseIf(Not(operand.left), operand.right)"),
 "M8_pred_ignore_invert": (S+"symbolic.py", "self._is_false_ = result_truthy if self._invert_ else not result_truthy", "self._is_false_ = not result_truthy"),
 "M10_an_no_mode_off": (S+"symbolic.py", "        with symbolic_mode(mode=None):\n            results = self._evaluate__()\n            assert not in_symbolic_mode()\n            yield from map(self._process_result_, results)", "        if True:\n            results = self._evaluate__()\n            yield from map(self._process_result_, results)"),
 "M11_mode_restore_none": (S+"symbolic.py", "        _set_symbolic_mode(prev_mode)", "        _set_symbolic_mode(None)"),
 "M12_mode_restore_not_finally": (S+"symbolic.py", "    finally:\n        if query is not None:\n            query.__exit__()\n        _set_symbolic_mode(prev_mode)", "    finally:\n        if query is not None:\n            query.__exit__()\n    _set_symbolic_mode(prev_mode)"),
 "M13_exit_no_pop": (S+"symbolic.py", "        SymbolicExpression._symbolic_expression_stack_.pop()", "        pass"),
 "M14_the_no_nosolution": (S+"symbolic.py", "                raise NoSolutionFound(self._child_)", "                result = sources"),
 "M15_the_multi_on_third": (S+"symbolic.py", "            else:\n                raise MultipleSolutionFound(result, sol)", "            elif sol is not result and False:\n                raise MultipleSolutionFound(result, sol)"),
 "M16_set_iterable_eager": (S+"hashed_data.py", "            self.iterable = (HashedValue(v) if not isinstance(v, HashedValue) else v for v in iterable)", "            self.iterable = [HashedValue(v) if not isinstance(v, HashedValue) else v for v in iterable]"),
 "M17_filter_eager": (S+"predicate.py", "domain.domain = filter(lambda v: isinstance(v, symbolic_cls), domain.domain)", "domain.domain = list(filter(lambda v: isinstance(v, symbolic_cls), domain.domain))"),
 "M18_an_eager": (S+"symbolic.py", "            results = self._evaluate__()\n            assert", "            results = list(self._evaluate__())\n            assert"),
 "M19_forall_no_fail_on_empty": (S+"symbolic.py", "            if not current:\n                self.solution_set = []\n                break", "            if not current:\n                continue"),
 "M20_forall_union": (S+"symbolic.py", "self.solution_set = [d for d in self.solution_set if tuple(sorted(d.items())) in current_set]", "self.solution_set = self.solution_set + [d for d in current if d not in self.solution_set]"),
 "M22_rule_no_relink": (S+"rule.py", "    if isinstance(prev_parent, BinaryOperator):\n        prev_parent.right = new_conditions_root", "    pass"),
 "M23_filter_exact_type": (S+"predicate.py", "filter(lambda v: isinstance(v, symbolic_cls), domain.domain)", "filter(lambda v: type(v) is symbolic_cls, domain.domain)"),
 "M23b_no_filter": (S+"predicate.py", "            domain.domain = filter(lambda v: isinstance(v, symbolic_cls), domain.domain)", "            pass"),
 "M24_cache_keys_exact": (S+"cache_data.py", "isinstance(t, type) and issubclass(t, clazz)]", "isinstance(t, type) and t is clazz]"),
 "M25_register_in_symbolic": (S+"predicate.py", "            return symbolic_new(symbolic_cls, *args, **kwargs)", "            instantiate_class_and_update_cache(symbolic_cls, original_new) if False else None\n            return symbolic_new(symbolic_cls, *args, **kwargs)"),
 "M28_or_always_elseif": (S+"symbolic.py", "    if left_vars == right_vars:\n        return ElseIf(left, right)", "    if True:\n        return ElseIf(left, right)"),
 "M28b_or_always_union": (S+"symbolic.py", "    if left_vars == right_vars:\n        return ElseIf(left, right)", "    if False:\n        return ElseIf(left, right)"),
 "M29_keys_nosort": (S+"cache_data.py", "self._keys = list(sorted(keys))", "self._keys = list(keys)"),
 "M30_seen_any": (S+"cache_data.py", "if all(assignment[k] == v if k in assignment else False for k, v in constraint.items()):", "if any(assignment[k] == v if k in assignment else False for k, v in constraint.items()):"),
 "M31_retrieve_no_wildcard": (S+"cache_data.py", "                wildcard = cache.get(All)\n                if wildcard is not None:\n                    yield from self._yield_result(assignment, wildcard, key_idx, result)\n                else:\n                    self.search_count += 1\n                return", "                self.search_count += 1\n                return"),
 "M35_an_no_reset": (S+"symbolic.py", "            yield from map(self._process_result_, results)\n        self._reset_cache_()", "            yield from map(self._process_result_, results)"),
 "M36_the_no_reset": (S+"symbolic.py", "        result = self._process_result_(result)\n        self._reset_cache_()", "        result = self._process_result_(result)"),
 "M37_and_no_finally": (S+"symbolic.py", "                finally:\n                    self.right._eval_parent_ = right_prev\n        finally:\n            self.left._eval_parent_ = left_prev\n\n\n@dataclass(eq=False)\nclass OR", "                finally:\n                    pass\n        finally:\n            pass\n\n\n@dataclass(eq=False)\nclass OR"),
 "M38_product_to_zip": (S+"symbolic.py", "                for sol in generate_combinations(var_val_gen):", "                for sol in lazy_iterate_dicts(var_val_gen):"),
 "M39_flatten_nocorr": (S+"symbolic.py", "                values = copy(child_v)\n                if (not self._invert_", "                values = copy(child_v) if not isinstance(self, Flatten) else {self._child_._id_: child_v[self._child_._id_]}\n                if (not self._invert_"),
 "M40_concat_dedupe": (S+"symbolic.py", "                    all_values[self._id_].extend(child_v_unwrapped)", "                    all_values[self._id_].extend(x for x in child_v_unwrapped if x not in all_values[self._id_])"),
 "M41_infer_reuse_cache": (S+"symbolic.py", "        if (not retrieved) and (self._is_inferred_ or self._predicate_type_):", "        if (not retrieved) and (self._predicate_type_):"),
 "M42_exceptif_left_always": (S+"conclusion_selector.py", "                self._conclusion_.update(self.right._conclusion_)\n                output = left_value.copy()", "                self._conclusion_.update(self.right._conclusion_ | self.left._conclusion_)\n                output = left_value.copy()"),
 "M43_symnew_runs_init": (S+"predicate.py", "    cls.__new__ = hybrid_new\n    return cls", "    cls.__new__ = hybrid_new\n    return cls  # noop"),
 "M44_update_cache_ignores_switch": (S+"symbolic.py", "        if not is_caching_enabled():\n            return\n        cache = self._cache_ if cache is None else cache", "        cache = self._cache_ if cache is None else cache"),
 "M45_comparator_cache_always": (S+"symbolic.py", "        if is_caching_enabled():\n            if self._cache_.check(sources):", "        if True:\n            if self._cache_.check(sources):"),
 "M46_in_swapped": (S+"entity.py", "    return Comparator(container, item, operator.contains)", "    return Comparator(item, container, operator.contains)"),
 "M47_literal_falsy": (S+"symbolic.py", "            if self._yield_when_false_ or not self._is_false_:\n                    values[self._id_] = v", "            if True:\n                    values[self._id_] = v"),
}
def run(name):
    f, old, new = M[name]
    d = f"/tmp/mutx/{name}"
    shutil.rmtree(d, ignore_errors=True)
    shutil.copytree("/tmp/mutx/base", d)
    p = os.path.join(d, f)
    s = open(p).read()
    if s.count(old) < 1:
        shutil.rmtree(d); return name, "NOMATCH", ""
    s = s.replace(old, new, 1)
    open(p, "w").write(s)
    env = dict(os.environ, PYTHONPATH=d+"/src", PYTHONDONTWRITEBYTECODE="1")
    r = subprocess.run(["/venv/bin/python","-m","pytest","-q","-x","-p","no:cacheprovider","--timeout=120","--deselect","test/test_rendering.py","test"], cwd=d, env=env, capture_output=True, text=True)
    tail = r.stdout.strip().splitlines()[-1] if r.stdout.strip() else r.stderr[-200:]
    fails = [l for l in r.stdout.splitlines() if l.startswith("FAILED")][:2]
    shutil.rmtree(d)
    return name, ("SURVIVES" if r.returncode==0 else "killed"), tail + " " + " ".join(fails)
names = sys.argv[1:] or list(M)
with ThreadPoolExecutor(16) as ex:
    for n, st, tail in ex.map(run, names):
        print(f"{n:32s} {st:9s} {tail[:150]}")
