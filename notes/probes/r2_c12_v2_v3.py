from dataclasses import dataclass
from entity_query_language import symbol, let, an, entity, infer, symbolic_mode, rule_mode, refinement, alternative, Add
@symbol
@dataclass(unsafe_hash=True)
class Item:  name: str; a: int = 0
@symbol
@dataclass(unsafe_hash=True)
class Link:  name: str; src: Item; k: int = 0
@symbol
@dataclass(unsafe_hash=True)
class Label: item: Item; tag: str
@symbol
@dataclass(unsafe_hash=True)
class Pair:  item: Item; link: object; tag: str

x,y=Item("x"),Item("y"); links=[Link("L1",x,1),Link("L2",x,2),Link("L3",y,2),Link("L4",y,1)]
item=let(type_=Item,domain=[x,y]); link=let(type_=Link,domain=links)
with symbolic_mode(): q=infer(labels:=let(type_=Label), link.src==item, link.k==1)
with rule_mode(q):
    Add(labels, Label(item,"K1"))
    with alternative(link.src==item, link.k==2): Add(labels, Label(item,"K2"))
print("V2", sorted((l.item.name,l.tag) for l in q.evaluate()), "expected x:K1,K2 y:K1,K2")

x,w=Item("x"),Item("w",a=1); links=[Link("L1",x),Link("L2",x),Link("L3",x)]
item=let(type_=Item,domain=[x,w]); link=let(type_=Link,domain=links)
with symbolic_mode(): q=infer(pairs:=let(type_=Pair), link.src==item, link.k>=0)
with rule_mode(q):
    Add(pairs, Pair(item,link,"src"))
    with alternative(item.a==1): Add(pairs, Pair(item,link,"flag"))
print("V3", sorted((p.item.name,p.link.name,p.tag) for p in q.evaluate()), "expected 3 src rows + (w,L1..L3,flag)")
