items, slots = [Item("i0",0), Item("i1",1), Item("i2",2)], [Slot("s0",0), Slot("s1",1)]
x, y = let(type_=Item, domain=items), let(type_=Slot, domain=slots)
with symbolic_mode(): q = an(entity(v := let(type_=Pair), x.a == y.k))
with rule_mode(q):
    Add(v, Pair(x, y, "base"))
    with refinement(y.k > 5): Add(v, Pair(x, y, "never"))
    with alternative(y.k >= 0):
        Add(v, Pair(x, y, "alt"))
        with refinement(y.k > 5): Add(v, Pair(x, y, "never2"))
print(run(q))  # ('i2','s0','alt') and ('i2','s1','alt') are missing (4 rows instead of 6)
