"""Known finding (C04): an exception from user code inside a sub-query that is used as a domain truncates later results."""
from dataclasses import dataclass
from entity_query_language import an, entity, let, symbolic_mode, symbol, predicate
@symbol
@dataclass(eq=False)
class Person: name: str; age: int
people = [Person("ann", 31), Person("bob", 42), Person("cid", 53), Person("dan", 64)]
ctl = {'n': 0, 'at': 3}
@predicate
def ok(x):
    ctl['n'] += 1
    if ctl['at'] == ctl['n']: raise RuntimeError('boom')
    return True
with symbolic_mode():
    p = let(Person, people)
    p2 = let(Person, domain=an(entity(p, ok(p))))
    q = an(entity(p2, p2.age > 40))
try: list(q.evaluate())
except RuntimeError: pass
ctl['at'] = None
got = sorted(r.name for r in q.evaluate())
print(got, "expected ['bob', 'cid', 'dan']")
