from dataclasses import dataclass
from entity_query_language import symbol, let, an, entity, set_of, symbolic_mode, rule_mode, refinement, alternative, Add
@symbol
@dataclass(unsafe_hash=True)
class Item: name: str; a: int = 0; b: int = 0
@symbol
@dataclass(unsafe_hash=True)
class Label: item: Item; tag: str
handmade = Label(item=Item("handmade",0,0), tag="handmade")
item = let(type_=Item, domain=[Item("p",1,1), Item("q",1,0)])
with symbolic_mode():
    query = an(entity(labels := let(type_=Label), item.a > 0))
with rule_mode(query):
    Add(labels, Label(item=item, tag="base"))
    with refinement(item.b > 0):   # stopping rule
        pass
print([(l.item.name, l.tag) for l in query.evaluate()], "prescribed [('q','base')]")
print([(l.item.name, l.tag) for l in query.evaluate()], "again")
