from dataclasses import dataclass
from typing import Any
from entity_query_language import *
@symbol
@dataclass(eq=False)
class P:
    name: str
    age: int
@symbol
@dataclass(eq=False)
class Pair:
    first: Any
    second: Any
ps=[P("a",1),P("b",2),P("c",3)]
p=let(P,ps)
with symbolic_mode():
    q=an(entity(p, p.age>=1))
x=let(P,q,name="x")
y=let(P,q,name="y")
with rule_mode():
    r=infer(entity(Pair(first=x,second=y), x.age<=y.age))
print(sorted((o.first.name,o.second.name) for o in r.evaluate()), "expected 6 pairs")
@symbol
@dataclass(eq=False)
class It:
    name: str; a: int
dom = [It("x0",1), It("x1",2), It("x2",2), It("x3",2)]
with symbolic_mode():
    v = let(type_=It, domain=iter(dom)); q1 = an(entity(v, v.a > 0))
i1 = iter(q1.evaluate()); i2 = iter(q1.evaluate())
r1 = [next(i1)]; r2 = [next(i2), next(i2)]; r1 += list(i1); r2 += list(i2)
print([o.name for o in r1], [o.name for o in r2], "each should list all four")
