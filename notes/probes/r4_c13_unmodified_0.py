from dataclasses import dataclass
from entity_query_language import symbol, From, symbolic_mode
@symbol
@dataclass(eq=False)
class Body:
    name: str
bodies = [Body("a"), Body("b")]
with symbolic_mode():
    q1 = Body(From(bodies), name="a"); q0 = Body(From(bodies))
print([b.name for b in q1.evaluate()])   # ['a']
print([b.name for b in q0.evaluate()])   # AttributeError: Variable object has no attribute evaluate
