from entity_query_language import *
@symbol
class R:
    def __init__(self, x):
        if x < 0: raise ValueError("negative")
        self.x = x
    def __repr__(self): return f"R({getattr(self,'x','?')})"
R(1)
try: R(-1)
except ValueError: pass
with symbolic_mode():
    q=an(entity(let(R)))
print(list(q.evaluate()), "expected [R(1)]")
