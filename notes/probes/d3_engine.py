from dataclasses import dataclass
from typing import Any
from entity_query_language import *
from entity_query_language.cache_data import enable_caching, disable_caching
@symbol
@dataclass(eq=False)
class N:
    name: str
    v: int
@symbol
@dataclass(eq=False)
class T3:
    a: Any
    b: Any
    c: Any
    def __repr__(self): return f"({self.a.name},{self.b.name},{self.c.name})"
for caching in (True, False):
    (enable_caching if caching else disable_caching)()
    ps=[N("p1",1)]; qs=[N("q1",1),N("q2",2)]; ss=[N("s1",0),N("s2",0)]
    with rule_mode():
        p=let(N,ps); q=let(N,qs); s=let(N,ss)
        r=infer(entity(T3(a=p,b=q,c=s), and_(s.v >= 0, or_(q.v > 1, p.v == q.v))))
    print("caching" if caching else "no caching", sorted(map(repr, r.evaluate())))
