from dataclasses import dataclass
from entity_query_language import *

@symbol
@dataclass(eq=False)
class Item:
    name: str; a: int = 0; b: int = 0

@symbol
@dataclass(eq=False)
class Box:
    name: str; b: int = 0
