from dataclasses import dataclass
from entity_query_language import symbol, let, an, entity, set_of, symbolic_mode, rule_mode, infer
@symbol
@dataclass(eq=False)
class P:
    name: str
    age: int
    def older_than(self, other):
        return self.age > (other.age if isinstance(other, P) else other)
    def gap(self, other):
        return (self.name, other if not isinstance(other, P) else other.name)
ps = [P("a", 1), P("b", 2), P("c", 3)]
with symbolic_mode():
    x = let(P, ps); y = let(P, ps)
    q = an(set_of([x, y], x.older_than(y)))
try:
    print(sorted((r[x].name, r[y].name) for r in q.evaluate()))
except Exception as e:
    print("raises", type(e).__name__, e)
with symbolic_mode():
    x = let(P, ps)
    q = an(entity(x, x.older_than(x.age - 1)))
try:
    print(sorted(r.name for r in q.evaluate()))
except Exception as e:
    print("raises", type(e).__name__, e)
