from entity_query_language.cache_data import IndexedCache
c = IndexedCache([1]); c.insert({1:'a'},'x'); c.insert({},'y')
print(list(c.retrieve({1:'a'})), "expected both 'x' and 'y'")
print(list(c.retrieve({})), "expected both")
c = IndexedCache([1,2]); c.insert({1:'a',2:'b'},'full'); c.insert({1:'a'},'partial')
print(list(c.retrieve({1:'a'})), "expected both 'full' and 'partial'")
print(list(c.retrieve({1:'a',2:'b'})), "expected both")
