from entity_query_language.hashed_data import HashedIterable, HashedValue
h = HashedIterable(iter([1,2,3,4]))
it = iter(h)
a = next(it)
v = h[HashedValue(3).id_]
rest = [x.value for x in it]
print(a.value, v.value, rest)
assert [a.value]+rest == [1,2,3,4], rest
