from entity_query_language import predicate, set_of
@symbol
@dataclass(eq=False)
class Q:
    k: int
@predicate
def diff(a, b): return a.k - b.k
ps=[P("a",1),P("b",2)]; qs=[Q(1),Q(2),Q(3)]
with symbolic_mode():
    p=let(P,ps); q=let(Q,qs); query=an(set_of([p,q], diff(p,q)==0))
print(sorted((r[p].name,r[q].k) for r in query.evaluate()))  # []  expected [('a',1),('b',2)]  (diff(p,q)==-1 works)
