from dataclasses import dataclass
from entity_query_language import *
@symbol
@dataclass(eq=False)
class H: name: str = "h"
@symbol
@dataclass(eq=False)
class V: pass
@symbol
@dataclass(eq=False)
class Dr(V): handle: H = None
H("z"); Dr(H("q")); V()
views = let(V); hh = let(H)
with rule_mode():
    r2 = infer(entity(views, hh.name == "z"))
    with r2: Add(views, Dr(handle=hh))
print("rule     ", [type(o).__name__ for o in r2.evaluate()])
with symbolic_mode(): plain = an(entity(views))
print("plain    ", len(list(plain.evaluate())), "fresh", len(list(an(entity(let(V))).evaluate())))
print("rule     ", [type(o).__name__ for o in r2.evaluate()])
@symbol
@dataclass(eq=False)
class P: name: str; age: int
@symbol
@dataclass(eq=False)
class Pair: a: object; b: object
ps=[P("x",3),P("z",7)]
with rule_mode():
    p = let(P, ps, name="p"); q = let(P, ps, name="q")
    r = infer(entity(Pair(a=p, b=q)))
print("no-cond infer", sorted((x.a.name, x.b.name) for x in r.evaluate()))
