from dataclasses import dataclass, field
from entity_query_language import *
from entity_query_language.rule import refinement, alternative, next_rule
from entity_query_language.symbolic import in_symbolic_mode, Variable, _symbolic_mode, SymbolicExpression
from entity_query_language.cache_data import disable_caching, enable_caching
import sys
@symbol
@dataclass(eq=False)
class B:
    name: str
    size: int = 1
    items: list = field(default_factory=list)
    def __repr__(self): return f"B({self.name},{self.size})"
@symbol
@dataclass(eq=False)
class V:
    pass
@symbol
@dataclass(eq=False)
class V1(V):
    b: B
    def __repr__(self): return f"V1({self.b.name})"
@symbol
@dataclass(eq=False)
class V2(V):
    b: B
    def __repr__(self): return f"V2({self.b.name})"
@symbol
@dataclass(eq=False)
class V3(V):
    b: B
    def __repr__(self): return f"V3({self.b.name})"
objs = [B("a",5,[1,2]), B("b",1,[]), B("c",2,[2,3]), B("d",3,[0])]
def run(title, f):
    try:
        print(title, "->", f())
    except Exception as e:
        import traceback; 
        print(title, "-> EXC", type(e).__name__, str(e)[:300])
    _symbolic_mode.set(None)

def tree1():
    x = let(B, objs)
    with symbolic_mode():
        q = an(entity(v := let(V), x.size >= 2))
    with rule_mode(q):
        Add(v, V1(b=x))
        with alternative(x.size < 2):
            Add(v, V2(b=x))
    return q
def r1():
    q = tree1()
    return list(q.evaluate()), list(q.evaluate())
run("C04 rule-tree re-eval", r1)

def r2():
    x = let(B, objs)
    with symbolic_mode():
        q = an(entity(v := let(V), x.size >= 3))
    with rule_mode(q):
        Add(v, V1(b=x))
        with alternative(x.size < 3):
            Add(v, V2(b=x))
            with refinement(x.size < 2):
                Add(v, V3(b=x))
    return list(q.evaluate())
run("C12 refinement under alternative (expect V1 a, V1 d, V3 b, V2 c)", r2)
def r3():
    x = let(B, objs)
    with symbolic_mode():
        q = an(entity(v := let(V), x.size >= 2))
    with rule_mode(q):
        Add(v, V1(b=x))
        with refinement(x.size >= 3):
            Add(v, V2(b=x))
            with refinement(x.size >= 5):
                Add(v, V3(b=x))
    return list(q.evaluate())
run("C12 refinement under refinement (expect V3 a, V1 c, V2 d)", r3)

def cc():
    with symbolic_mode():
        x = let(B, objs)
        c = concatenate(x.items)
        q = an(set_of([c]))
    return [r[c] for r in q.evaluate()]
run("C17 set_of([concatenate])", cc)
def cc2():
    with symbolic_mode():
        x = let(B, objs)
        q = an(entity(concatenate(x.items)))
    return list(q.evaluate())
run("C17 entity(concatenate)", cc2)
def fl():
    with symbolic_mode():
        x = let(B, objs)
        f = flatten(x.items)
        q = an(set_of([x, f]))
    return [(r[x], r[f]) for r in q.evaluate()]
run("C16 flatten with parent", fl)
