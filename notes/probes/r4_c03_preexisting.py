from dataclasses import dataclass
from entity_query_language import symbol, symbolic_mode, let, an, entity, set_of, and_, or_, not_, contains, for_all

@symbol
@dataclass(eq=False)
class Item:
    x: float
    tags: frozenset = frozenset()

ITEMS = [Item(0), Item(1), Item(2), Item(3)]
def run(build, items=ITEMS):
    with symbolic_mode():
        a = let(Item, domain=items, name='a')
        q = an(entity(a, build(a)))
    return [i.x for i in q.evaluate()]

# V1: partial orders: not (s <= t) is not (s > t)
S = [Item(0, frozenset('ab')), Item(1, frozenset('bc')), Item(2, frozenset('abc'))]
print('V1 got', run(lambda a: not_(a.tags <= frozenset('ab')), S), 'expected', [i.x for i in S if not (i.tags <= frozenset('ab'))])
# V2: NaN
N = [Item(0), Item(float('nan')), Item(2)]
print('V2 got', run(lambda a: not_(a.x < 1), N), 'expected', [i.x for i in N if not (i.x < 1)])
# V3: not_(for_all(...)) is a no-op
try:
    with symbolic_mode():
        a = let(Item, domain=ITEMS, name='a'); b = let(Item, domain=ITEMS, name='b')
        pos = [i.x for i in an(entity(a, for_all(b, a.x <= b.x))).evaluate()]
        a = let(Item, domain=ITEMS, name='a'); b = let(Item, domain=ITEMS, name='b')
        neg = [i.x for i in an(entity(a, not_(for_all(b, a.x <= b.x)))).evaluate()]
    print('V3 for_all', pos, 'not_(for_all)', neg, 'expected', [i.x for i in ITEMS if not all(i.x <= j.x for j in ITEMS)])
except NotImplementedError as e:
    print("V3 refused:", e)
# V4: not_ negates its operand in place, so a condition that is used twice is negated in both places
def v4(a):
    c = a.x < 2
    return or_(c, not_(c))
print('V4 got', run(v4), 'expected', [i.x for i in ITEMS])
# V5: a comparison between constants as the second operand loses rows (also un-negated)
print('V5 got', run(lambda a: and_(a.x < 3, not_(contains(['x'], 'y')))), 'expected', [i.x for i in ITEMS if i.x < 3 and not ('y' in ['x'])])
print('V5b got', run(lambda a: not_(or_(a.x < 2, contains(['x'], 'y')))), 'expected', [i.x for i in ITEMS if not (i.x < 2 or 'y' in ['x'])])
# V6: negating in place after an evaluation leaves stale truth values in the result caches
with symbolic_mode():
    a = let(Item, domain=ITEMS, name='a'); b = let(Item, domain=ITEMS[:2], name='b')
    c = a.x < 2
    q = an(set_of([a, b], and_(a.x != b.x, c)))
first = sorted((r[a].x, r[b].x) for r in q.evaluate())
with symbolic_mode():
    not_(c)
second = sorted((r[a].x, r[b].x) for r in q.evaluate())
print('V6 first', first, 'after not_(c)', second, 'expected', sorted((i.x, j.x) for i in ITEMS for j in ITEMS[:2] if i.x != j.x and not i.x < 2))
