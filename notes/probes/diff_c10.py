import random, operator, sys
from dataclasses import dataclass
from entity_query_language import *
from entity_query_language.cache_data import enable_caching, disable_caching
@symbol
@dataclass(eq=False)
class U:
    n: int
    m: int
    def __repr__(self): return f"U({self.n},{self.m})"
@symbol
@dataclass(eq=False)
class X:
    n: int
    m: int
    def __repr__(self): return f"X({self.n},{self.m})"
OPS=[operator.lt, operator.le, operator.gt, operator.ge, operator.eq, operator.ne]
def leaf(x,u,rnd):
    k=rnd.choice(['xu','xu','xc','uc'])
    op=rnd.choice(OPS)
    if k=='xu':
        a,b=rnd.choice('nm'),rnd.choice('nm')
        return op(getattr(x,a),getattr(u,b)), (lambda X_,U_: op(getattr(X_,a),getattr(U_,b)))
    if k=='xc':
        a,c=rnd.choice('nm'),rnd.choice([0,1,2])
        return op(getattr(x,a),c), (lambda X_,U_: op(getattr(X_,a),c))
    a,c=rnd.choice('nm'),rnd.choice([0,1,2])
    return op(getattr(u,a),c), (lambda X_,U_: op(getattr(U_,a),c))
def cond(x,u,d,rnd):
    if d==0 or rnd.random()<0.4: return leaf(x,u,rnd)
    k=rnd.choice(['and','or','not'])
    if k=='not':
        e,f=cond(x,u,d-1,rnd); return not_(e),(lambda X_,U_: not f(X_,U_))
    e1,f1=cond(x,u,d-1,rnd); e2,f2=cond(x,u,d-1,rnd)
    if k=='and': return and_(e1,e2),(lambda X_,U_: f1(X_,U_) and f2(X_,U_))
    return or_(e1,e2),(lambda X_,U_: f1(X_,U_) or f2(X_,U_))
bad=0; N=int(sys.argv[1]) if len(sys.argv)>1 else 300
for seed in range(N):
    rnd=random.Random(seed)
    (disable_caching if seed%2 else enable_caching)()
    us=[U(rnd.choice([0,1,2]),rnd.choice([0,1,2])) for _ in range(rnd.choice([1,2,3]))]
    xs=[X(rnd.choice([0,1,2]),rnd.choice([0,1,2])) for _ in range(rnd.choice([1,3,4]))]
    with symbolic_mode():
        u=let(U,us); x=let(X,xs)
        e,f=cond(x,u,rnd.choice([0,1,2]),rnd)
        if rnd.random()<0.4:
            e2,f2=leaf(x,u,rnd)  # extra condition on x only? keep generic but only x-leaf
            q=an(entity(x, for_all(u,e)))
        else:
            q=an(entity(x, for_all(u,e)))
    try:
        got=list(q.evaluate()); got2=list(q.evaluate())
    except Exception as ex:
        print(seed,"EXC",type(ex).__name__,str(ex)[:80]); bad+=1; continue
    want=[o for o in xs if all(f(o,uu) for uu in us)]
    key=lambda o:id(o)
    if sorted(got,key=key)!=sorted(want,key=key) or sorted(got2,key=key)!=sorted(want,key=key):
        bad+=1
        if bad<6: print(seed,"MISMATCH got",got,got2,"want",want,"us",us)
print("bad",bad,"of",N)
