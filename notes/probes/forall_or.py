from dataclasses import dataclass
from entity_query_language import *
from entity_query_language.cache_data import enable_caching, disable_caching
import sys, itertools
@symbol
@dataclass(eq=False)
class U:
    n: int
    def __repr__(self): return f"U({self.n})"
@symbol
@dataclass(eq=False)
class X:
    n: int
    def __repr__(self): return f"X({self.n})"
def run(cache, us_n, xs_n, build):
    (enable_caching if cache else disable_caching)()
    us=[U(i) for i in us_n]; xs=[X(i) for i in xs_n]
    with symbolic_mode():
        u=let(U,us); x=let(X,xs)
        q=an(entity(x, for_all(u, build(x,u))))
    r1=[o.n for o in q.evaluate()]; r2=[o.n for o in q.evaluate()]; r3=[o.n for o in q.evaluate()]
    want=[xn for xn in xs_n if all(build_py(xn,un) for un in us_n)]
    return r1,r2,r3,want
build=lambda x,u: or_(x.n > u.n, x.n == 0)
build_py=lambda xn,un: xn>un or xn==0
for cache in (True, False):
    print("cache" if cache else "nocache", run(cache,[1,2,3],[0,2,4,5,7],build))
