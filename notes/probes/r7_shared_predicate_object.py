from dataclasses import dataclass, field
from typing import List
from entity_query_language import symbol, symbolic_mode, let, an, entity, set_of, and_, or_, predicate
@symbol
@dataclass(eq=False)
class P:
    name: str
    x: int
    y: int = 0
@predicate
def greater(a, b):
    return a > b
def v4(swap):
    ps = [P("p0", 0), P("p1", 1), P("p2", 2), P("p3", 9)]; qs = [P("q0", 0, 9), P("q1", 9, 0), P("q2", 9, 9)]
    with symbolic_mode():
        p, q = let(P, domain=ps, name="p"), let(P, domain=qs, name="q")
        c, d, e = greater(p.x, 5), q.y > 5, q.x > 5
        a_, b_ = or_(c, d), or_(e, c)
        query = an(set_of([p, q], and_(b_, a_) if swap else and_(a_, b_)))
    return sorted({(r[p].name, r[q].name) for r in query.evaluate()})
ps = [P("p0", 0), P("p1", 1), P("p2", 2), P("p3", 9)]; qs = [P("q0", 0, 9), P("q1", 9, 0), P("q2", 9, 9)]
want = sorted((p.name,q.name) for p in ps for q in qs if ((p.x>5) or (q.y>5)) and ((q.x>5) or (p.x>5)))
print(len(v4(False)), len(v4(True)), len(want), v4(False)==want, v4(True)==want)
