from dataclasses import dataclass, field
from entity_query_language import *
from entity_query_language.symbolic import Variable
from entity_query_language.cache_data import disable_caching
import sys
if len(sys.argv)>1: disable_caching()

@symbol
@dataclass(eq=False)
class Body:
    name: str
    size: int
    def __repr__(self): return f"Body({self.name})"
@symbol
@dataclass(eq=False)
class V1:
    b: Body
    def __repr__(self): return f"V1({self.b.name})"
@symbol
@dataclass(eq=False)
class V2:
    b: Body
    def __repr__(self): return f"V2({self.b.name})"

bodies=[Body("a",1),Body("b",5),Body("c",1),Body("d",5)]
with rule_mode():
    x = let(Body, bodies)
    views = let(object, None) if False else None
with symbolic_mode():
    pass

def build():
    with symbolic_mode():
        b = let(Body, bodies)
    with rule_mode():
        v = let(V1, None) if False else None
    return b

from entity_query_language import infer
with rule_mode():
    b = let(Body, domain=bodies)
    view = Variable("view", object) if False else None
import entity_query_language as eql
with eql.rule_mode():
    b = eql.let(Body, domain=bodies)
    views = eql.let(V1, domain=None)
    q = eql.infer(eql.entity(views, b.size >= 1))
with eql.rule_mode(q):
    eql.Add(views, V1(b=b))
    with eql.refinement(b.size > 3):
        eql.Add(views, V2(b=b))
print("full:", list(q.evaluate()))
it = q.evaluate()
print(next(it), next(it)); it.close()
print("after abandon at refinement row:", list(q.evaluate()))
print("again:", list(q.evaluate()))
it = q.evaluate()
print(next(it), next(it)); it.close()
root = q._child_._child_
print(type(root).__name__, root._conclusion_)
import entity_query_language.conclusion as C
orig = C.Add._evaluate__
def traced(self, sources=None, yield_when_false=False):
    r = orig(self, sources, yield_when_false)
    print("   applied", self._name_, "->", sources[self.var._var_._id_].value)
    return r
C.Add._evaluate__ = traced
print("traced:", list(q.evaluate()))
