dom = [It("x0",0,False), It("x1",5,False), It("x2",5,True), It("x3",0,True)]
with symbolic_mode():
    v = let(type_=It, domain=dom); f = v.flag
    q = an(entity(v, or_(f, and_(f, v.a > 1))))
print([o.name for o in q.evaluate()])   # ['x1','x2','x3'], expected ['x2','x3']
with symbolic_mode():
    v = let(type_=It, domain=dom); c = v.a > 1
    q = an(entity(v, or_(c, and_(c, v.flag == False))))
print([o.name for o in q.evaluate()])   # ['x0','x1','x2'], expected ['x1','x2']
