from dataclasses import dataclass
from entity_query_language import symbol, an, set_of, From, symbolic_mode
@symbol
@dataclass(eq=False)
class Body:
    name: str
    size: int = 0
@symbol
@dataclass(eq=False)
class Handle(Body): pass
@symbol
@dataclass(eq=False)
class Container(Body): pass
m = [Handle("h1",1), Container("c1",1), Handle("h2",0), Container("c2",0)]
def run(dom):
    with symbolic_mode():
        d = From(dom)
        q = an(set_of([h := Handle(d), c := Container(d)], h.size == c.size))
    return sorted((r[h].name, r[c].name) for r in q.evaluate())
print(run(m))                 # [('h1','c1'), ('h2','c2')]
print(run(x for x in m))      # [('h1','c1')]  -- members lost
