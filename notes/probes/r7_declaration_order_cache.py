from dataclasses import dataclass, field
from typing import List
from entity_query_language import symbol, symbolic_mode, let, an, set_of, and_, or_
from entity_query_language.cache_data import enable_caching, disable_caching
@symbol
@dataclass(eq=False)
class P:
    name: str
    x: int
    y: int = 0
def v3(order):
    doms = {"v1": [P("A", 0, 1), P("A2", 1, 0)], "v2": [P("C", 0, 1), P("B", 1, 0)], "v3": [P("a", 0, 1), P("b", 1, 0)]}
    with symbolic_mode():
        v = {n: let(P, domain=doms[n], name=n) for n in order}
        a, b, c = v["v1"], v["v2"], v["v3"]
        q = an(set_of([a, b, c], and_(or_(c.x < c.y, a.x <= b.x), or_(b.x < b.y, a.x < a.y))))
    return sorted({(r[a].name, r[b].name, r[c].name) for r in q.evaluate()})
doms = {"v1": [P("A", 0, 1), P("A2", 1, 0)], "v2": [P("C", 0, 1), P("B", 1, 0)], "v3": [P("a", 0, 1), P("b", 1, 0)]}
want = sorted((a.name,b.name,c.name) for a in doms["v1"] for b in doms["v2"] for c in doms["v3"] if ((c.x<c.y) or (a.x<=b.x)) and ((b.x<b.y) or (a.x<a.y)))
for caching in (True, False):
    (enable_caching if caching else disable_caching)()
    r1, r2 = v3(["v1","v2","v3"]), v3(["v2","v1","v3"])
    print("caching", caching, len(r1), len(r2), len(want), r1==want, r2==want, sorted(set(want)-set(r1)))
