from dataclasses import dataclass
from typing import Any
from entity_query_language import symbolic_mode, symbol, an, entity, set_of, From, predicate

@symbol
@dataclass(eq=False)
class Item:
    name: str
    val: Any

items = [Item("a", 0), Item("b", ''), Item("c", None), Item("d", 5)]

@predicate
def value_of(item):
    return item.val

with symbolic_mode():
    x = Item(From(items))
    q = an(entity(x, value_of(x) == 0))
print([i.name for i in q.evaluate()])            # expected ['a'], got []
with symbolic_mode():
    x = Item(From(items)); v = value_of(x)
    q = an(set_of([x, v]))
print([(d[x].name, d[v]) for d in q.evaluate()])  # expected 4 rows, got [('d', 5)]
with symbolic_mode():
    x = Item(From(items))
    q = an(set_of([x, x.val]))                  # the same through an attribute: 4 rows
print(len(list(q.evaluate())))                    # 4
