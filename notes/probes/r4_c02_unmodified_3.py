from entity_query_language import and_
@symbol
@dataclass(eq=False)
class Q2:
    k: int; w: int
ps=[P("a",1),P("b",2)]; qs=[Q2(1,1),Q2(2,5)]
with symbolic_mode():
    p=let(P,ps); q=let(Q2,qs); query=an(set_of([p,q], and_(p.k==q.k, q.w==p.k)))
print(sorted((r[p].name,r[q].k) for r in query.evaluate()))  # [('a',1)]
qs[0].w=7; qs[1].w=2
print(sorted((r[p].name,r[q].k) for r in query.evaluate()))  # [('a',1),('b',2)]  expected [('b',2)]
