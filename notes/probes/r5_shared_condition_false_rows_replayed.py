"""A condition object shared by two queries: its false rows, cached while it was the left side of an or_, are replayed when it is
evaluated again inside a conjunction that did not ask for false rows (round-5 reports C05-1, C04-B, C10-2, C02-F2)."""
from dataclasses import dataclass
from entity_query_language import an, set_of, let, or_, symbolic_mode, symbol
from entity_query_language.cache_data import enable_caching, disable_caching
@symbol
@dataclass(eq=False)
class N:
    name: str
@symbol
@dataclass(eq=False)
class E:
    a: N
    b: N
    w: int
def run():
    ns = [N("n1"), N("n2"), N("n3")]
    es = [E(ns[0], ns[1], 1), E(ns[1], ns[2], 2), E(ns[2], ns[0], 3)]
    with symbolic_mode():
        x = let(N, ns, name="x"); l = let(E, es, name="l"); m = let(E, es, name="m")
        c = l.a == x
        q1 = an(set_of([x, l], or_(c, l.b == x)))
        q2 = an(set_of([x, l, m], m.b == x, l.w > 0, c, m.w > 0))
    r1 = sorted((r[x].name, r[l].w) for r in q1.evaluate())
    r2 = sorted((r[x].name, r[l].w, r[m].w) for r in q2.evaluate())
    return r1, r2
enable_caching(); on = run()
disable_caching(); off = run()
enable_caching()
print("caching on :", len(on[0]), len(on[1])); print("caching off:", len(off[0]), len(off[1]))
assert on == off
print("PASS")
