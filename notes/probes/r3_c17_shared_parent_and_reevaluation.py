from dataclasses import dataclass
from entity_query_language import symbolic_mode, let, concatenate, in_, and_, or_, entity, an, predicate, set_of
from entity_query_language.predicate import symbol
@symbol
@dataclass(eq=False)
class Item:
    name: str
    def __repr__(self): return self.name
@symbol
@dataclass(eq=False)
class Box:
    name: str
    items: object = None
    extra: object = None
    kind: str = "k"
    def __repr__(self): return self.name
a, b, c, d, e = [Item(n) for n in "abcde"]
boxes = [Box("B1", [a, b], [a]), Box("B2", [d], [c]), Box("B3", [b, c, b], [e], "q"), Box("B4", [e], [], "q")]
with symbolic_mode():
    bx = let(Box, boxes); it = let(Item, [a, b, c, d, e])
    q = an(entity(it, and_(in_(it, concatenate(bx.items)), in_(it, concatenate(bx.extra)))))
try: print("F1", list(q.evaluate()), "expected [a, c, e]")
except Exception as ex: print("F1 raised", type(ex).__name__, ex)
with symbolic_mode():
    bx = let(Box, boxes); it = let(Item, [a, b, c, d, e])
    q = an(entity(it, and_(in_(it, concatenate(bx.items)), bx.name == "B1")))
try: print("F1b", list(q.evaluate()), "expected [a, b, c, d, e] (each once per... as set)")
except Exception as ex: print("F1b raised", type(ex).__name__, ex)
with symbolic_mode():
    x = let(Box, boxes)
    p = an(entity(x, or_(x.name == "B1", x.kind == "q")))
    q = an(entity(concatenate(p.items)))
print("F2", list(q.evaluate()))
print("F2", list(q.evaluate()), "expected same")
