from dataclasses import dataclass
from entity_query_language import symbol, let, an, entity, symbolic_mode, and_, contains
@symbol
@dataclass(eq=False)
class P:
    name: str; k: int
ps = [P("a",1), P("b",2), P("c",3)]
with symbolic_mode():
    p = let(P, ps); query = an(entity(p, and_(p.k >= 1, contains([1, 2], 1))))
print([x.name for x in query.evaluate()])   # ['a']   expected ['a','b','c']
print([x.name for x in query.evaluate()])   # []      expected ['a','b','c']
