import random, operator, sys, itertools
from dataclasses import dataclass, field
from entity_query_language import *
from entity_query_language.cache_data import enable_caching, disable_caching
@symbol
@dataclass(eq=False)
class Box:
    name: str
    k: int
    items: list = field(default_factory=list)
    def __repr__(self): return self.name
OPS=[operator.lt, operator.le, operator.gt, operator.ge, operator.eq, operator.ne]
def leaf(b,x,rnd):
    op=rnd.choice(OPS); kind=rnd.choice(['x','x','b','bx'])
    if kind=='x':
        c=rnd.choice([0,1,2,3]); return op(x,c),(lambda B,X: op(X,c))
    if kind=='b':
        c=rnd.choice([0,1,2]); return op(b.k,c),(lambda B,X: op(B.k,c))
    return op(x,b.k),(lambda B,X: op(X,B.k))
def cond(b,x,d,rnd):
    if d==0 or rnd.random()<0.35: return leaf(b,x,rnd)
    k=rnd.choice(['and','or','not'])
    if k=='not':
        e,f=cond(b,x,d-1,rnd); return not_(e),(lambda B,X: not f(B,X))
    e1,f1=cond(b,x,d-1,rnd); e2,f2=cond(b,x,d-1,rnd)
    if k=='and': return and_(e1,e2),(lambda B,X: f1(B,X) and f2(B,X))
    return or_(e1,e2),(lambda B,X: f1(B,X) or f2(B,X))
bad=0; N=int(sys.argv[1]) if len(sys.argv)>1 else 300
for seed in range(N):
    rnd=random.Random(seed)
    (disable_caching if seed%2 else enable_caching)()
    # distinct element objects per box (ints are shared objects: use small ints but distinct values inside one box)
    boxes=[Box(f"b{i}",rnd.choice([0,1,2]),rnd.sample([0,1,2,3],rnd.choice([0,1,2,3]))) for i in range(rnd.choice([1,2,4]))]
    with symbolic_mode():
        b=let(Box,boxes); x=flatten(b.items)
        mode=rnd.choice([0,1,2])
        if mode==0:
            q=an(set_of([b,x])); f=lambda B,X: True
        else:
            e,f=cond(b,x,rnd.choice([0,1,2]),rnd)
            q=an(set_of([b,x],e)) if mode==1 else an(set_of([x,b],e))
    try:
        got=[(r[b].name,r[x]) for r in q.evaluate()]; got2=[(r[b].name,r[x]) for r in q.evaluate()]
    except Exception as ex:
        print(seed,"EXC",type(ex).__name__,str(ex)[:100]); bad+=1; continue
    want=[(B.name,X) for B in boxes for X in B.items if f(B,X)]
    if sorted(got)!=sorted(want) or sorted(got2)!=sorted(want):
        bad+=1
        if bad<6: print(seed,"cache" if seed%2==0 else "nocache","mode",mode,"got",sorted(got),sorted(got2),"want",sorted(want))
print("bad",bad,"of",N)
