items, slots = [Item("i1",1)], [Slot("s0",2), Slot("s1",1)]
x, y = let(type_=Item, domain=items), let(type_=Slot, domain=slots)
with symbolic_mode(): q = an(entity(v := let(type_=Pair), x.a > y.k))
with rule_mode(q):
    Add(v, Pair(x, y, "base"))
    with alternative(x.a > y.k): Add(v, Pair(x, y, "alt1"))
    with alternative(x.a > 0):
        Add(v, Pair(x, y, "alt2"))
        with refinement(x.a != 7): Add(v, Pair(x, y, "alt2_ref"))
print(run(q))  # [('i1','s0','alt2_ref'), ('i1','s1','alt2_ref')]
print(run(q))  # [('i1','s0','alt2_ref')] -- ('i1','s1','alt2_ref') is missing
