from dataclasses import dataclass
from entity_query_language import *
@symbol
@dataclass(eq=False)
class Item:
    name: str
    size: int
    def __repr__(self): return f"Item({self.name})"
items=[Item("a", 1), Item("b", 3)]
with symbolic_mode():
    it = let(Item, domain=items)
    q = the(set_of([it], it.size > 2))
    q2 = an(set_of([it], it.size > 2))
print("an:", [r[it] for r in q2.evaluate()])
try:
    r = q.evaluate(); print("the:", r[it])
except Exception as e:
    print("the: EXC", type(e).__name__, e)
with symbolic_mode():
    t = the(Item(From(items), name="b"))
print("the(term) type:", type(t).__name__, "evaluate ->", t.evaluate())
