from dataclasses import dataclass
from entity_query_language import *
@symbol
@dataclass(eq=False)
class A:
    n: int
    def __repr__(self): return f"A({self.n})"
@symbol
@dataclass(eq=False)
class B:
    n: int
    def __repr__(self): return f"B({self.n})"
objs=[A(1),B(2),A(3),B(4)]
src=From(objs)
with symbolic_mode():
    a=A(src); b=B(src)
    qa=an(entity(a)); qb=an(entity(b))
print("A:",list(qa.evaluate())," B:",list(qb.evaluate()), " src.domain is", type(src.domain).__name__)
src2=From(objs)
with symbolic_mode():
    a1=A(src2); a2=A(src2)
    q=an(set_of([a1,a2], a1.n < a2.n))
print("self-join pairs:", [(r[a1],r[a2]) for r in q.evaluate()])
