from dataclasses import dataclass
from entity_query_language import symbol, let, an, entity, rule_mode, symbolic_mode, Add, refinement
@symbol
@dataclass(eq=False)
class Part:  name: str; size: int
@symbol
@dataclass(eq=False)
class View:  part: Part
parts = [Part("small",1), Part("big",5)]
def build():
    part = let(type_=Part, domain=parts)
    with symbolic_mode():
        query = an(entity(views := let(type_=View), part.size > 0))
    with rule_mode(query):
        with refinement(part.size > 3):      # the base rule concludes nothing
            Add(views, View(part=part))
    return query
show = lambda it: sorted(v.part.name for v in it)
q1, q2 = build(), build()
print(show(q1.evaluate()), show(q1.evaluate()), show(q2.evaluate()), "expected ['big'] x3")
