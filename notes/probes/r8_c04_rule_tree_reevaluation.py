"""Round-8 report (C04 B): a rule tree (next_rule + alternative over an or_ whose second operand has no literal) evaluated three times."""
from dataclasses import dataclass
from entity_query_language import symbol, symbolic_mode, rule_mode, let, an, entity, alternative, Add, or_
from entity_query_language.rule import next_rule
from entity_query_language.cache_data import enable_caching, disable_caching
import sys

@symbol
@dataclass(eq=False)
class Item:
    name: str
    w: int
    flag: bool

@symbol
@dataclass(eq=False)
class View: pass

@symbol
@dataclass(eq=False)
class V0(View):
    item: Item

@symbol
@dataclass(eq=False)
class V1(View):
    item: Item

if len(sys.argv) > 1: disable_caching()
items = [Item("i0", 1, True), Item("i1", 0, False), Item("i2", 1, False)]
x = let(Item, items, name="x")
with symbolic_mode():
    q = an(entity(views := let(View), or_(x.w > 1, x.flag)))
with rule_mode(q):
    Add(views, V0(item=x))
    with next_rule(or_(x.w > 1, x.flag)):
        Add(views, V0(item=x))
    with alternative(x.w > 1):
        Add(views, V1(item=x))
for _ in range(3):
    print(sorted((type(r).__name__, r.item.name) for r in q.evaluate()))
