from dataclasses import dataclass
from entity_query_language import symbol, symbolic_mode, let, an, entity, and_, or_
@symbol
@dataclass(eq=False)
class Item:
    name: str; size: int; w: int
@symbol
@dataclass(eq=False)
class Box:
    name: str; cap: int
item = Item('i3', 3, 1)
b0, b1 = Box('b0', 2), Box('b1', 3)
def run(boxes):
    with symbolic_mode():
        b = let(Box, boxes, name='b'); i = let(Item, [item], name='i')
        q = an(entity(i, or_(and_(or_(i.w != 1, b.cap > 0), i.w <= 0), i.size != b.cap)))
    return [x.name for x in q.evaluate()]
print(run([b0, b1]), run([b1, b0]), "expected ['i3'] both")
