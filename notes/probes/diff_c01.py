import random, itertools, operator, sys
from dataclasses import dataclass, field
from entity_query_language import *
from entity_query_language.cache_data import disable_caching, enable_caching

@symbol
@dataclass(eq=False)
class O:
    name: str
    a: int
    b: int
    f: bool
    items: list = field(default_factory=list)
    def __repr__(self): return f"O({self.name})"
    def big(self): return self.a > 1

def rand_cond(x, depth, rnd):
    if depth == 0 or rnd.random() < 0.3:
        k = rnd.choice(['cmp','cmp','flag','call','in'])
        if k == 'cmp':
            attr = rnd.choice(['a','b'])
            op = rnd.choice([operator.lt, operator.le, operator.gt, operator.ge, operator.eq, operator.ne])
            c = rnd.choice([0,1,2])
            return op(getattr(x, attr), c), (lambda o, attr=attr, op=op, c=c: op(getattr(o, attr), c))
        if k == 'flag':
            return x.f, (lambda o: bool(o.f))
        if k == 'call':
            return x.big(), (lambda o: o.big())
        if k == 'in':
            c = rnd.choice([0,1,2])
            return contains(x.items, c), (lambda o, c=c: c in o.items)
    k = rnd.choice(['and','or','not'])
    if k == 'not':
        e, f = rand_cond(x, depth-1, rnd)
        return not_(e), (lambda o, f=f: not f(o))
    e1, f1 = rand_cond(x, depth-1, rnd); e2, f2 = rand_cond(x, depth-1, rnd)
    if k == 'and':
        return and_(e1, e2), (lambda o: f1(o) and f2(o))
    return or_(e1, e2), (lambda o: f1(o) or f2(o))

bad = 0
N = int(sys.argv[1]) if len(sys.argv) > 1 else 300
for seed in range(N):
    rnd = random.Random(seed)
    if seed % 2: disable_caching()
    else: enable_caching()
    objs = [O(f"o{i}", rnd.choice([0,1,2]), rnd.choice([0,1,2]), rnd.choice([True, False]), [rnd.choice([0,1,2]) for _ in range(rnd.choice([0,1,2]))]) for i in range(rnd.choice([1,3,5]))]
    with symbolic_mode():
        x = let(O, objs)
        e, f = rand_cond(x, rnd.choice([1,2,3]), rnd)
        q = an(entity(x, e))
    try:
        got = list(q.evaluate())
        got2 = list(q.evaluate())
    except Exception as ex:
        print(seed, "EXC", type(ex).__name__, ex); bad += 1; continue
    want = [o for o in objs if f(o)]
    if got != want or got2 != want:
        bad += 1
        if bad < 8: print(seed, "MISMATCH got", got, got2, "want", want)
print("bad", bad, "of", N)
