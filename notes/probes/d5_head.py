from dataclasses import dataclass, field
from typing import Any
from entity_query_language import *
@symbol
@dataclass(eq=False)
class P:
    name: str
    age: int
    tags: list = field(default_factory=list)
@symbol
@dataclass(eq=False)
class Rec:
    who: Any
    name: Any
    age: Any
    def __repr__(self): return f"Rec({self.who.name},{self.name},{self.age})"
ps=[P("c",3)]; qs=[P("x",10),P("y",20)]
with rule_mode():
    p=let(P,ps); q=let(P,qs)
    r=infer(entity(Rec(who=p, name=q.name, age=q.age), p.age > 2))
print(list(r.evaluate()), "expected [Rec(c,x,10), Rec(c,y,20)]")
@symbol
@dataclass(eq=False)
class Pair:
    owner: Any
    element: Any
    def __repr__(self): return f"({self.owner},{self.element})"
boxes=[P("A",1,[1,2,3]),P("B",1,[]),P("C",1,[2,3,4,0])]
with rule_mode():
    b=let(P,boxes); x=flatten(b.tags)
    r2=infer(entity(Pair(owner=b.name, element=x)))
print(list(r2.evaluate()))
