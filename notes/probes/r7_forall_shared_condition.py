from dataclasses import dataclass
from entity_query_language import entity, an, let, or_, and_, for_all, symbolic_mode, symbol
@symbol
@dataclass(eq=False)
class Part: name: str; x: int; y: int
@symbol
@dataclass(eq=False)
class Probe: name: str; x: int; y: int
PARTS = [Part("p1", 1, 7), Part("p2", 5, 7), Part("p3", 9, 9)]
PROBES = [Probe("u1", 1, 7), Probe("u2", 2, 7), Probe("u3", 3, 7)]
def pool(q1_last):
    with symbolic_mode():
        part = let(Part, PARTS); probe = let(Probe, PROBES)
        cond = or_(part.x == probe.x, part.y == probe.y)
        if not q1_last:
            q1 = an(entity(part, cond))
        q2 = an(entity(part, for_all(probe, cond)))
        if q1_last:
            q1 = an(entity(part, cond))
    return q2
print("q1 built first:", sorted(p.name for p in pool(False).evaluate()))
print("q1 built last: ", sorted(p.name for p in pool(True).evaluate()))
