with symbolic_mode():
    x = let(Item, domain=items); z = let(Box, domain=boxes)
    q = the(entity(x, not_(for_all(z, x.b == z.b))))
q.evaluate()   # returns i0, which satisfies the for_all; only i1 satisfies the negation
