@symbol
@dataclass(eq=False)
class Q:
    name: str
    age: int
    w: int

ps=[Q("a",1,1),Q("b",2,1),Q("c",3,1)]
p=let(Q,ps,name="p")
p2=let(Q,ps,name="p2")
with rule_mode():
    r=infer(entity(Pair(first=p,second=p2), and_(p.age<p2.age, p.w==p2.w)))
list(r.evaluate())
ps[1].w=7
print(sorted((o.first.name,o.second.name) for o in r.evaluate()))
# prints [('a','b'),('a','c'),('b','c')]; only [('a','c')] is expected
