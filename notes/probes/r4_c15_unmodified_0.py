from dataclasses import dataclass
from entity_query_language import symbol, an, entity, From, symbolic_mode

@symbol
@dataclass(eq=False)
class City:
    name: str
    pop: int

@symbol
@dataclass(eq=False)
class Person:
    name: str
    age: int
    city: City

A, B, C = City("A", 10), City("B", 0), City("C", 5)
cities = [A, B, C]
people = [Person("ann", 30, A), Person("bob", 0, B), Person("cat", 30, C)]
names = lambda q: sorted({r.name for r in q.evaluate()})

# V1: sub-queries over the SAME variable c as comparison operands in both branches of |
with symbolic_mode():
    p = Person(From(people)); c = City(From(cities))
    inlined = an(entity(p, ((p.city == c) & (c.pop == 5)) | ((p.city == c) & (c.pop == 0))))
    nested = an(entity(p, (p.city == an(entity(c, c.pop == 5))) | (p.city == an(entity(c, c.pop == 0)))))
print(names(inlined), names(nested))   # ['bob', 'cat'] vs ['cat']

# V2: a correlated sub-query operand with no solution for some rows, in the LEFT branch of |
with symbolic_mode():
    p = Person(From(people)); c = City(From(cities))
    inlined = an(entity(p, ((p.city == c) & (c.pop == 10) & (c.name == p.city.name)) | (p.age == 0)))
    nested = an(entity(p, (p.city == an(entity(c, (c.pop == 10) & (c.name == p.city.name)))) | (p.age == 0)))
    swapped = an(entity(p, (p.age == 0) | (p.city == an(entity(c, (c.pop == 10) & (c.name == p.city.name))))))
print(names(inlined), names(nested), names(swapped))   # ['ann','bob'] vs ['ann'] vs ['ann','bob']
