from dataclasses import dataclass
from entity_query_language import *
from entity_query_language.cache_data import enable_caching, disable_caching
import sys
(disable_caching if len(sys.argv)>1 else enable_caching)()
@symbol
@dataclass(eq=False)
class Item:
    name: str
    a: int = 0
    b: int = 0
    c: int = 0
    d: int = 0
@symbol
@dataclass(eq=False)
class Label:
    item: Item
    tag: str
    def __repr__(self): return f"{self.item.name}:{self.tag}"
items=[Item("A",a=1),Item("B",b=1),Item("C",c=1),Item("D",d=1),Item("CD",c=1,d=1)]
with rule_mode():
    item=let(Item, items); labels=let(Label)
    q=infer(entity(labels, item.a + item.b + item.c + item.d > 0)) if False else None
with rule_mode():
    item=let(type_=Item, domain=items); labels=let(type_=Label)
    query=infer(entity(labels, item.a > 0))
with rule_mode(query):
    Add(labels, Label(item, "base"))
    with alternative(item.b > 0): Add(labels, Label(item, "alt-b"))
    with alternative(item.c > 0): Add(labels, Label(item, "alt-c"))
    with alternative(item.d > 0): Add(labels, Label(item, "alt-d"))
for i in range(4):
    print(i, list(query.evaluate()))
