"""Random histories of concrete construction, declaration of no-domain queries, evaluation and registry clearing against
the live list of instances.  One-off sanity probe for the repo fixes, not part of the machinery."""
import random, sys
from dataclasses import dataclass
from entity_query_language import an, entity, let, symbol, symbolic_mode
from entity_query_language.symbolic import Variable

@symbol
@dataclass(eq=False)
class Body:
    name: str
    size: int = 0
@dataclass(eq=False)
class Handle(Body):          # undecorated subclass
    pass
@symbol
@dataclass(eq=False)
class Door(Body):
    pass
@symbol
@dataclass(eq=False)
class Other:
    name: str
CLASSES = [Body, Handle, Door, Other]

def main(n, seed):
    rnd = random.Random(seed); bad = 0
    for trial in range(n):
        for c in Variable._cache_.values(): c.clear()
        Variable._cache_.clear()
        live = []; queries = []; log = []
        for step in range(rnd.randint(4, 14)):
            r = rnd.random()
            if r < 0.45:
                c = rnd.choice(CLASSES); o = c(f"o{len(live)}_{step}") if c is Other else c(f"o{len(live)}_{step}", rnd.randint(0, 3)); live.append(o); log.append(f"new {c.__name__}")
            elif r < 0.65:
                c = rnd.choice([Body, Door, Other, Handle])
                with symbolic_mode():
                    v = let(c)
                    q = an(entity(v, v.size >= 0)) if (c is not Other and rnd.random() < 0.5) else an(entity(v))
                queries.append((c, q)); log.append(f"declare {c.__name__} #{len(queries)-1}")
            elif r < 0.93 and queries:
                i = rnd.randrange(len(queries)); c, q = queries[i]
                exp = sorted(o.name for o in live if isinstance(o, c))
                try: got = sorted(o.name for o in q.evaluate())
                except Exception as e: got = f"raised {type(e).__name__}: {e}"
                log.append(f"evaluate #{i}")
                if got != exp:
                    bad += 1
                    if bad <= 4: print(f"trial {trial}: {log}\n   got {got}\n   exp {exp}")
                    break
            elif r >= 0.93:
                for c in Variable._cache_.values(): c.clear()
                Variable._cache_.clear(); live = []; log.append("clear")
    print(f"bad {bad} of {n}")
main(int(sys.argv[1]) if len(sys.argv) > 1 else 300, int(sys.argv[2]) if len(sys.argv) > 2 else 1)
