from dataclasses import dataclass, field
from entity_query_language import *
from entity_query_language.rule import refinement, alternative, next_rule
from entity_query_language.symbolic import in_symbolic_mode, Variable, _symbolic_mode, SymbolicExpression
from entity_query_language.cache_data import disable_caching, enable_caching
import sys
disable_caching()
@symbol
@dataclass(eq=False)
class B:
    name: str
    size: int = 1
    def __repr__(self): return f"B({self.name},{self.size})"
@symbol
@dataclass(eq=False)
class V:
    pass
@symbol
@dataclass(eq=False)
class V1(V):
    b: B
    def __repr__(self): return f"V1({self.b.name})"
@symbol
@dataclass(eq=False)
class V2(V):
    b: B
    def __repr__(self): return f"V2({self.b.name})"
objs = [B("a",5), B("b",1), B("c",2), B("d",2)]
def run(title, f):
    try:
        print(title, "->", f())
    except Exception as e:
        print(title, "-> EXC", type(e).__name__, str(e)[:300])
    _symbolic_mode.set(None)

def a():
    with symbolic_mode():
        q = an(entity(B(size=2)))      # no domain: registry + kwargs expression
    fresh = list(q.evaluate())
    with symbolic_mode():
        q = an(entity(B(size=2)))
    it = q.evaluate(); first = next(it); it.close()
    return fresh, first, list(q.evaluate()), list(q.evaluate())
run("C04 kwargs-flag stuck after abandon", a)

def clear_registry(*classes):
    for c in classes:
        if c in Variable._cache_:
            Variable._cache_[c].clear()
def b():
    x = let(B, objs)
    with symbolic_mode():
        q = an(entity(v := let(V), x.size >= 2))
    with rule_mode(q):
        Add(v, V1(b=x))
        with alternative(x.size < 2):
            Add(v, V2(b=x))
    r1 = list(q.evaluate())
    clear_registry(V, V1, V2)
    r2 = list(q.evaluate())
    return r1, r2
run("C04 rule tree re-eval with registry cleared", b)
