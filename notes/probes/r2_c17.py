from dataclasses import dataclass, field
from typing import Any
from entity_query_language import *
@symbol
@dataclass(eq=False)
class Item:
    name: str
@symbol
@dataclass(eq=False)
class Box:
    name: str
    items: Any = field(default_factory=list)
a, b, c = Item("a"), Item("b"), Item("c")
boxes = [Box("B1", [a]), Box("B2", [b])]
with symbolic_mode():
    bx = Box(From(boxes))
    none = an(entity(bx, bx.name == "nope"))
    q = an(entity(concatenate(none.items)))
try: print("F1", list(q.evaluate()), "expected [[]]")
except Exception as e: print("F1 raised", type(e).__name__, e)
with symbolic_mode():
    it = Item(From([a, b, c]))
    bx = Box(From(boxes))
    none = an(entity(bx, bx.name == "nope"))
    q = an(entity(it, not_(in_(it, concatenate(none.items)))))
try: print("F1b", [x.name for x in q.evaluate()], "expected a b c")
except Exception as e: print("F1b raised", type(e).__name__, e)
boxes = [Box("B1", ["a"]), Box("B2", ["b"])]
with symbolic_mode():
    it = Item(From([a, b, c]))
    bx = Box(From(boxes))
    allv = concatenate(bx.items)
    q = an(set_of([it, allv], it.name != "c"))
print("F2", [(r[it], r[allv]) for r in q.evaluate()])
with symbolic_mode():
    it = Item(From([a, b, c]))
    bx = Box(From(boxes))
    q = an(entity(it, or_(it.name == "c", in_(it.name, concatenate(bx.items)))))
print("F2b", list(q.evaluate()), "expected a b c")
with symbolic_mode():
    it = Item(From([a, b, c]))
    bx = Box(From(boxes))
    q = an(entity(it, not_(and_(it.name != "a", in_(it.name, concatenate(bx.items))))))
print("F2c", list(q.evaluate()), "expected a c")
