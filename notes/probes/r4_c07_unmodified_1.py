from dataclasses import dataclass
from entity_query_language import an, entity, let, symbol, symbolic_mode
@symbol
@dataclass(eq=False)
class Item:
    n: int
class Flaky:
    def __init__(self, items): self._it = iter(list(items)); self.pulled = []; self.failed = False
    def __iter__(self): return self
    def __next__(self):
        if len(self.pulled) == 3 and not self.failed:
            self.failed = True; raise TimeoutError("try again")
        v = next(self._it); self.pulled.append(v.n); return v
src = Flaky(Item(i) for i in range(6))
with symbolic_mode():
    x = let(Item, domain=src); q = an(entity(x, x.n >= 0))
try:
    list(q.evaluate())
except TimeoutError:
    pass
again = [v.n for v in q.evaluate()]
assert again == [0, 1, 2, 3, 4, 5], again   # fails: [0, 1, 2], iterator never asked again
