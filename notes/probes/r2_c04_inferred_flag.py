from dataclasses import dataclass
from entity_query_language import an, entity, let, and_, or_, symbolic_mode, rule_mode, symbol, predicate, infer, Add
@symbol
@dataclass(eq=False)
class Person: name: str; age: int
@symbol
@dataclass(eq=False)
class Senior: who: Person
people = [Person("ann", 31), Person("bob", 42), Person("cid", 53)]
with symbolic_mode():
    p = let(Person, people); plain = an(entity(p, p.age > 40))
with rule_mode():
    ruleq = an(entity(p, p.age > 40))
print(sorted(r.name for r in plain.evaluate()))
print(sorted(r.name for r in ruleq.evaluate()))
print(sorted(r.name for r in plain.evaluate()), "expected bob cid")
# a proper rule still works, repeatedly
with symbolic_mode():
    q = an(entity(s := let(Senior), p.age > 40))
with rule_mode(q):
    Add(s, Senior(p))
for i in range(2):
    print(sorted(x.who.name for x in q.evaluate()))
print(sorted(r.name for r in plain.evaluate()), "expected bob cid")
