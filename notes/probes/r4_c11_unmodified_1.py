ps=[P("a",1),P("b",2),P("c",3)]
p=let(P,ps)
with symbolic_mode():
    q=an(entity(p, p.age>=1))
x=let(P,q,name="x")
y=let(P,q,name="y")
with rule_mode():
    r=infer(entity(Pair(first=x,second=y), x.age<=y.age))
print(sorted((o.first.name,o.second.name) for o in r.evaluate()))
# prints [('a','a'),('a','b'),('a','c')] on every evaluation; 6 pairs expected
