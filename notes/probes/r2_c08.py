from dataclasses import dataclass
from entity_query_language import symbol, let, symbolic_mode, an, entity
from entity_query_language.symbolic import in_symbolic_mode
@symbol
@dataclass(unsafe_hash=True)
class Item: name: str
v = let(Item, [Item("a"), Item("b")])
with symbolic_mode():
    cond = v.name == "a"; q = an(entity(v, cond))
print([i.name for i in q.evaluate()])
assert not in_symbolic_mode()
for op in ("v & v", "cond | cond", "~cond"):
    try:
        r = eval(op); print(op, "->", type(r).__name__, "NOT rejected")
    except Exception as e:
        print(op, "rejected:", type(e).__name__)
