import sys
from dataclasses import dataclass, field
from typing import Any
from entity_query_language import symbolic_mode, let, concatenate, not_, in_, entity, an, From, set_of, and_, or_, flatten
from entity_query_language.predicate import symbol
from entity_query_language.cache_data import disable_caching
if "nocache" in sys.argv: disable_caching()

@symbol
@dataclass(eq=False)
class Box:
    name: str
    kind: str
    items: Any = field(default_factory=list)

@symbol
@dataclass(eq=False)
class Item:
    n: int

i = [Item(k) for k in range(6)]
boxes = [Box("a","k",[i[0],i[1]]), Box("b","k",[]), Box("c","m",[i[1],i[2],i[2]]), Box("d","z",i[3])]

# A: concatenation of a sub-query whose condition is an or_ over one variable (ElseIf), evaluated once per row of another variable
with symbolic_mode():
    b = let(Box, boxes); y = let(Item, i)
    allv = concatenate(an(entity(b, or_(b.kind == "k", b.name == "c"))).items)
    q = an(set_of([y, allv], y.n < 3))
print("A", [(r[y].n, [k.n for k in r[allv]]) for r in q.evaluate()])
# -> [(0,[0,1,1,2,2]), (1,[0,1]), (2,[0,1])]   expected [0,1,1,2,2] in every row

# B: outer variable whose domain is an expression over the same parent variable, bound before the membership test
with symbolic_mode():
    b = let(Box, boxes)
    x = Item(From(flatten(b.items)))
    q = an(entity(x, and_(x.n >= 0, in_(x, concatenate(b.items)))))
print("B", [r.n for r in q.evaluate()])            # -> [0, 1]   expected [0, 1, 2, 3]

# C: a membership test evaluated once (x bound before it), then negated and used in a second query
with symbolic_mode():
    b = let(Box, boxes); x = let(Item, i)
    test = in_(x, concatenate(b.items))
    q1 = an(entity(x, and_(x.n >= 0, test)))
print("C q1", [r.n for r in q1.evaluate()])        # [0, 1, 2, 3]  ok
with symbolic_mode():
    q2 = an(entity(x, and_(x.n >= 0, not_(test))))
print("C q2", [r.n for r in q2.evaluate()])        # -> [0,1,2,3,4,5]   expected [4, 5]

# D: two queries sharing one concatenation of a sub-query; evaluating the first breaks the second
with symbolic_mode():
    b = let(Box, boxes); x = let(Item, i)
    allv = concatenate(an(entity(b.items, or_(b.kind == "k", b.name == "c"))))
    qa = an(entity(allv)); qb = an(entity(x, in_(x, allv)))
print("D qa", [[k.n for k in r] for r in qa.evaluate()])   # [[0,1,1,2,2]] ok
print("D qb", [r.n for r in qb.evaluate()])                # -> [0, 1]   expected [0, 1, 2]
