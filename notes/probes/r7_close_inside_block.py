from dataclasses import dataclass
from entity_query_language import symbolic_mode, symbol, let, an, entity, flatten
from entity_query_language.symbolic import in_symbolic_mode
@symbol
@dataclass(eq=False)
class Box:
    name: str
    @property
    def parts(self):
        def produce():
            with symbolic_mode():
                for i in range(3):
                    yield f"{self.name}-{i}"
        return produce()
boxes = [Box("a"), Box("b")]
with symbolic_mode():
    q = an(entity(flatten(let(Box, boxes).parts)))
with symbolic_mode():
    it = q.evaluate(); next(it)
    it.close()
    print("mode still on inside the block after closing the iterator:", in_symbolic_mode())
print("mode off outside:", not in_symbolic_mode())
