items = [Item("i0", 1, 2), Item("i1", 0, 2)]
with symbolic_mode():
    x = let(Item, domain=items)
    c = (x.a == 1)
    qa = an(entity(x, c | (x.b == 5)))
    qb = the(entity(x, (x.b == 2) & (c & (x.name != "zzz"))))
list(qa.evaluate())   # [i0]
qb.evaluate()         # evaluation #1 raises MultipleSolutionFound although only i0 satisfies
qb.evaluate()         # evaluations #2 and #3 return i0, so the outcome also differs on re-evaluation
