from dataclasses import dataclass
from entity_query_language import entity, an, let, and_, or_, not_, symbol, symbolic_mode

@symbol
@dataclass(eq=False)
class Item:
    a: int
    b: int
    flag: bool = False

def q(dom, build):
    with symbolic_mode():
        x = let(Item, domain=dom)
        return x, an(entity(x, build(x)))

# F1: and_(s, s), s a disjunction that holds through its second operand
dom = [Item(0, 9), Item(9, 0)]
def b1(x):
    s = or_(x.a > 5, x.b > 5)
    return and_(s, s)
print("F1 expected [0, 1] got", [dom.index(o) for o in q(dom, b1)[1].evaluate()])

# F2: shared comparison, 2nd evaluation with caching (default)
dom = [Item(3, 0, True)]
def b2(x):
    c = x.a == 1
    return or_(and_(x.flag, c), and_(c, x.flag))
_, query = q(dom, b2)
print("F2 expected [] [] got", [dom.index(o) for o in query.evaluate()], [dom.index(o) for o in query.evaluate()])

# F3: shared conjunction, or_(s, and_(s, t))
dom = [Item(3, 0, False)]
def b3(x):
    s = and_(x.a > 0, x.flag)
    return or_(s, and_(s, x.a > 0))
print("F3 expected [] got", [dom.index(o) for o in q(dom, b3)[1].evaluate()])

# F4: or_(or_(s, s), t), s a shared conjunction
dom = [Item(0, 2), Item(1, 1)]
def b4(x):
    s = and_(x.a >= x.b, x.a >= x.b)
    return or_(or_(s, s), x.b > 1)
print("F4 expected [0, 1] got", [dom.index(o) for o in q(dom, b4)[1].evaluate()])

# F5: same query, two result iterators advanced alternately
dom = [Item(i, 0) for i in range(6)]
_, query = q(dom, lambda x: or_(x.a > 100, x.b == 0))
i1, i2 = query.evaluate(), query.evaluate()
r1, r2 = [], []
for _ in dom:
    for it, r in ((i1, r1), (i2, r2)):
        o = next(it, None)
        if o is not None: r.append(dom.index(o))
print("F5 expected [0..5] twice got", r1, r2)

# F6: comparison evaluated, then negated in place for another query: stale cached truth
dom = [Item(1, 0), Item(5, 0)]
with symbolic_mode():
    x = let(Item, domain=dom)
    c = x.a > 3
    q1 = an(entity(x, and_(x.b == 0, c)))
print("F6 first", [dom.index(o) for o in q1.evaluate()])
with symbolic_mode():
    q2 = an(entity(x, and_(x.b == 0, not_(c))))
print("F6 expected [0] got", [dom.index(o) for o in q2.evaluate()])

# F7: attribute values changed between two evaluations
dom = [Item(1, 0), Item(5, 0)]
_, query = q(dom, lambda x: and_(x.b == 0, x.a > 3))
print("F7 first", [dom.index(o) for o in query.evaluate()])
dom[0].a, dom[1].a = 9, 0
print("F7 expected [0] got", [dom.index(o) for o in query.evaluate()])

# F8: distinct domain objects that carry an attribute named _id_ with equal values
@symbol
@dataclass(eq=False)
class WithId:
    _id_: int
    a: int
dom = [WithId(1, 1), WithId(1, 2), WithId(2, 3)]
with symbolic_mode():
    x = let(WithId, domain=dom)
    query = an(entity(x, x.a > 0))
print("F8 expected [0, 1, 2] got", [dom.index(o) for o in query.evaluate()])
