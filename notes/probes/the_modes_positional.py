from dataclasses import dataclass, field
from entity_query_language import *
from entity_query_language.symbolic import in_symbolic_mode, Variable, _symbolic_mode, SymbolicExpression
from entity_query_language.cache_data import disable_caching, enable_caching
import sys
@symbol
@dataclass(eq=False)
class B:
    name: str
    size: int = 1
    def __repr__(self): return f"B({self.name},{self.size})"
@symbol
@dataclass(eq=False)
class P:
    a: B
    b: B
    def __repr__(self): return f"P({self.a},{self.b})"
objs = [B("a",5), B("b",1), B("c",2), B("d",3)]
def run(title, f):
    try:
        print(title, "->", f())
    except Exception as e:
        print(title, "-> EXC", type(e).__name__, str(e)[:200])
    _symbolic_mode.set(None)

@predicate
def big(x): return x.size > 2
@dataclass(eq=False)
class Big(Predicate):
    x: B
    def __call__(self): return self.x.size > 2

# C09
def c09(mode):
    def f():
        with symbolic_mode():
            x = let(B, objs)
            q = the(entity(x, big(x), x.size < 5))
            if mode == "in": return q.evaluate()
        return q.evaluate()
    return f
run("C09 the+predicate outside", c09("out")); run("C09 the+predicate inside", c09("in"))
def c09b(mode):
    def f():
        with symbolic_mode():
            x = let(B, objs)
            q = the(entity(x, Big(x), x.size < 5))
            if mode == "in": return q.evaluate()
        return q.evaluate()
    return f
run("C09 the+Predicate outside", c09b("out")); run("C09 the+Predicate inside", c09b("in"))
def c09c(mode):
    def f():
        with symbolic_mode():
            x = let(B, objs)
            q = an(entity(x, Big(x), x.size < 5))
            if mode == "in": return list(q.evaluate())
        return list(q.evaluate())
    return f
run("C09 an+Predicate outside", c09c("out")); run("C09 an+Predicate inside", c09c("in"))

# C06
def c06():
    with symbolic_mode():
        x = let(B, objs)
        q = the(entity(x, x.size > 100))
    return q.evaluate()
run("C06 none", c06)
def c06b():
    with symbolic_mode():
        x = let(B, objs)
        q = the(entity(x, or_(x.size == 1, x.size == 2)))
    out = []
    for i in range(3):
        try: out.append(q.evaluate())
        except Exception as e: out.append(type(e).__name__)
    return out
run("C06 multi re-eval", c06b)

# C13 positional
ps = [P(objs[0], objs[1]), P(objs[1], objs[2]), P(objs[2], objs[0])]
def c13():
    with symbolic_mode():
        q = an(entity(P(From(ps), objs[1])))
    return list(q.evaluate())
run("C13 P(From, b) positional a=b?", c13)
def c13b():
    with symbolic_mode():
        q = an(entity(P(From(ps), a=objs[1])))
    return list(q.evaluate())
run("C13 P(From, a=b)", c13b)
