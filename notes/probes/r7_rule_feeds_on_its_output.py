from dataclasses import dataclass
from entity_query_language import symbol, let, entity, infer, rule_mode
@symbol
@dataclass(eq=False)
class Ticket:
    name: str
    level: int
    @property
    def lower(self): return self.level - 1
@symbol
@dataclass(eq=False)
class FollowUp(Ticket):
    origin: Ticket = None
tickets = [Ticket("a", 3), Ticket("b", 1), Ticket("c", 2)]
FollowUp("z", 0)                      # the subclass already has a registry entry
u = let(Ticket)
with rule_mode():
    rule = infer(entity(FollowUp(name=u.name, level=u.lower, origin=u), u.level > 1))
res = list(rule.evaluate())
print(len(res), sorted((r.name, r.level) for r in res))
