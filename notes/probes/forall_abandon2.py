from dataclasses import dataclass
from entity_query_language import *
from entity_query_language.cache_data import enable_caching, disable_caching
import sys
(disable_caching if len(sys.argv)>1 else enable_caching)()
@symbol
@dataclass(eq=False)
class U:
    n: int
    def __repr__(self): return f"U({self.n})"
@symbol
@dataclass(eq=False)
class X:
    n: int
    def __repr__(self): return f"X({self.n})"
us=[U(1),U(9),U(3)]
xs=[X(0),X(2),X(5)]
with symbolic_mode():
    u=let(U,us); x=let(X,xs)
    uq = an(entity(u, u.n >= 1))
    q=an(entity(x, for_all(uq, x.n > u.n)))
print("q:", list(q.evaluate()))
print("uq afterwards:", list(uq.evaluate()), "expected [U(1), U(9), U(3)]")
