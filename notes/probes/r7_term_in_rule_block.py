from dataclasses import dataclass
from entity_query_language import symbol, let, a, an, entity, rule_mode, symbolic_mode, infer
@symbol
@dataclass(eq=False)
class A:
    x: int = 0
A(1); A(2)
import traceback
for mode in (symbolic_mode, rule_mode):
    try:
        with mode():
            q = a(A(x=1))
        print(mode.__name__, [v.x for v in q.evaluate()])
    except Exception as e:
        print(mode.__name__, "raises", type(e).__name__, e)
        traceback.print_exc(limit=-4)
