from dataclasses import dataclass
from entity_query_language import symbol, let, an, entity, symbolic_mode, rule_mode, refinement, alternative, Add
import entity_query_language as e
next_rule = getattr(e, 'next_rule', None) or __import__('entity_query_language.rule', fromlist=['next_rule']).next_rule

@symbol
@dataclass(unsafe_hash=True)
class Order:
    name: str
    priority: int
@symbol
@dataclass(unsafe_hash=True)
class Line:
    order: str
    product: str
    quantity: int
@symbol
@dataclass(unsafe_hash=True)
class Label:
    order: Order
    tag: str
orders = [Order("o0", 1), Order("o1", 1), Order("o2", 0)]
lines = [Line("o0", "nuts", 1), Line("o0", "ice", 2), Line("o0", "bolts", 7), Line("o1", "nuts", 3),
         Line("o2", "ice", 9), Line("o2", "nuts", 1)]
def prescribed(o, l):
    out=set()
    if l.order == o.name and l.quantity > 5: out.add("bulk")
    if o.priority == 1: out.add("priority-cold" if l.product == "ice" else "priority")
    if o.name == "nobody": out.add("never")
    return out
def build(n):
    order = let(type_=Order, domain=orders)
    line = let(type_=Line, domain=lines)
    with symbolic_mode():
        query = an(entity(labels := let(type_=Label), line.order == order.name, line.quantity > 5))
    with rule_mode(query):
        Add(labels, Label(order, "bulk"))
        with next_rule(order.priority == 1):
            Add(labels, Label(order, "priority"))
            with refinement(line.product == "ice"):
                Add(labels, Label(order, "priority-cold"))
        if n > 1:
            with next_rule(order.name == "nobody"):
                Add(labels, Label(order, "never"))
    return query

from entity_query_language import and_
def build2(ref, n=1):
    order = let(type_=Order, domain=orders)
    line = let(type_=Line, domain=lines)
    with symbolic_mode():
        query = an(entity(labels := let(type_=Label), line.order == order.name, line.quantity > 5))
    with rule_mode(query):
        Add(labels, Label(order, "bulk"))
        with next_rule(order.priority == 1, line.quantity >= 0):
            Add(labels, Label(order, "priority"))
            if ref:
                with refinement(line.product == "ice"):
                    Add(labels, Label(order, "priority-cold"))
        if n > 1:
            with next_rule(order.name == "nobody"):
                Add(labels, Label(order, "never"))
    return query
expected = {(o.name, t) for o in orders for l in lines for t in prescribed(o, l)}
for n in (1,2):
  for ref in (False, True):
    q = build2(ref, n)
    got = sorted((label.order.name, label.tag) for label in q.evaluate())
    exp = expected if ref else {(a, 'priority' if b=='priority-cold' else b) for a,b in expected}
    print(n, ref, got, "missing", sorted(exp-set(got)))
