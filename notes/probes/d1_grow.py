from dataclasses import dataclass
from entity_query_language import *
@symbol
@dataclass(eq=False)
class A:
    x: int = 0
A(1); A(2)
with symbolic_mode():
    v=let(A); qq=an(entity(v))
try:
    for r in qq.evaluate(): A(9)
    print("ok")
except Exception as e: print("EXC", type(e).__name__, e)
