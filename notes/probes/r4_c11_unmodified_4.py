@symbol
@dataclass(eq=False)
class Tag:
    name: str

ps=[P("a",1),P("d",0)]
tags=[Tag("a")]
p=let(P,ps)
with rule_mode():
    r=infer(entity(Pair(first=p, second=Tag(name=p.name)), p.age>=0))
list(r.evaluate())
tags.append(Tag("d"))
print(sorted((o.first.name,o.second.name) for o in r.evaluate()))
# prints [('a','a')]; ('d','d') is missing, though a freshly built identical rule finds it
