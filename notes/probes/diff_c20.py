"""IndexedCache against a list model (C20 statement)."""
import random, sys, itertools
from entity_query_language.cache_data import IndexedCache
from entity_query_language.hashed_data import HashedValue
N=int(sys.argv[1]) if len(sys.argv)>1 else 300
bad=0
vals={k:[HashedValue(f"{k}{i}") for i in range(2)] for k in (1,2,3)}
for seed in range(N):
    rnd=random.Random(seed)
    nk=rnd.choice([1,2,3]); keys=list(range(1,nk+1))
    c=IndexedCache(list(keys)); model={}   # frozenset(items) -> output
    order=[]
    for step in range(rnd.choice([1,2,4,6])):
        b={k: rnd.choice(vals[k]) for k in keys if rnd.random()<0.7}
        out=f"o{step}"
        c.insert(dict(b), out)
        fk=frozenset((k,v.id_) for k,v in b.items())
        model[fk]=(b,out)
    for _ in range(6):
        L={k: rnd.choice(vals[k]) for k in keys if rnd.random()<0.6}
        want=[]
        for fk,(b,out) in model.items():
            if all(L[k].id_==b[k].id_ for k in b if k in L):
                merged=dict(L); merged.update(b)
                want.append((frozenset((k,v.id_) for k,v in merged.items()), out))
        try:
            got=[(frozenset((k,v.id_) for k,v in r.items()), o) for r,o in c.retrieve(dict(L))]
        except Exception as e:
            got=f"EXC {type(e).__name__} {e}"
        if got=="" or sorted(got,key=str)!=sorted(want,key=str):
            bad+=1
            if bad<5: print(seed,"keys",keys,"stored",[ (sorted((k,v.value) for k,v in b.items()),o) for b,o in model.values()],"lookup",sorted((k,v.value) for k,v in L.items()),"got",got if isinstance(got,str) else sorted((sorted(a),o) for a,o in got),"want",sorted((sorted(a),o) for a,o in want))
            break
        if L:
            cov_want=any(all(k in L and L[k].id_==b[k].id_ for k in b) for b,_ in model.values())
            # coverage is only specified for lookups binding at least one key
            cov=c.check(dict(L))
            if cov!=cov_want:
                bad+=1
                if bad<5: print(seed,"COVERAGE",cov,cov_want,"stored",[sorted((k,v.value) for k,v in b.items()) for b,_ in model.values()],"lookup",sorted((k,v.value) for k,v in L.items()))
                break
print("bad",bad,"of",N)
