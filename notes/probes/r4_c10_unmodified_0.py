from dataclasses import dataclass
from entity_query_language import symbolic_mode, let, an, entity, for_all, symbol
@symbol
@dataclass(eq=False)
class Item: size: int
@symbol
@dataclass(eq=False)
class Box: cap: int
items = [Item(1), Item(2)]; boxes = [Box(0), Box(5)]
with symbolic_mode():
    b = let(Box, boxes); i = let(Item, items)
    q_false = an(entity(b, for_all(i, False)))
    b2 = let(Box, boxes); i2 = let(Item, items); j2 = let(Item, items)
    q_nested = an(entity(b2, for_all(i2, for_all(j2, b2.cap >= i2.size))))
print([x.cap for x in q_false.evaluate()])   # [0, 5]  expected []
print([x.cap for x in q_nested.evaluate()])  # [5, 5]  expected [5]
