from dataclasses import dataclass
from entity_query_language import an, set_of, let, not_, symbolic_mode, symbol
from entity_query_language.cache_data import enable_caching, disable_caching
@symbol
@dataclass(eq=False)
class Item: name: str; a: int; b: int
def run(caching):
    (enable_caching if caching else disable_caching)()
    items = [Item("i0", 1, 2), Item("i1", 1, 3)]
    with symbolic_mode():
        x = let(Item, items); y = let(Item, items)
        same_b = x.b == y.b
        q1 = an(set_of([x, y], x.a == y.a, same_b))
    list(q1.evaluate())
    with symbolic_mode():
        q2 = an(set_of([x, y], x.a == y.a, not_(same_b)))
    r = sorted((row[x].name, row[y].name) for row in q2.evaluate()); enable_caching(); return r
assert run(True) == run(False)
