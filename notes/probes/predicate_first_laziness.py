from dataclasses import dataclass, field
from entity_query_language import *
from entity_query_language.symbolic import _symbolic_mode
@symbol
@dataclass(eq=False)
class B:
    name: str
    size: int = 1
    def __repr__(self): return f"B({self.name},{self.size})"
objs = [B("a",5), B("b",1), B("c",2), B("d",3)]
@predicate
def big(x): return x.size > 1
log=[]
def gen():
    for o in objs:
        log.append(o.name); yield o
with symbolic_mode():
    x = let(B, gen())
    q = an(entity(x, big(x)))
it = q.evaluate()
print(next(it), log)
log.clear()
with symbolic_mode():
    x = let(B, gen())
    q = an(entity(x, x.size > 1, big(x)))
it = q.evaluate()
print(next(it), log)
