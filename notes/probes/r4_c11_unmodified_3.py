ps=[P("a",1),P("b",2),P("c",3)]
p=let(P,ps)
with rule_mode():
    c = p.age > 1
    r1=infer(entity(Pair(first=p,second=p.age), c))
    r2=infer(entity(Pair(first=p,second="neg"), not_(c)))
print(sorted(o.first.name for o in r1.evaluate()))
# prints ['a']; ['b','c'] is expected
