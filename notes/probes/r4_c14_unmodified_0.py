from dataclasses import dataclass
from entity_query_language import an, entity, let, symbol, symbolic_mode
from entity_query_language.symbolic import Variable

@symbol
@dataclass(eq=False)
class Body:
    name: str

@dataclass(eq=False)
class Handle(Body):
    pass

def names(q): return sorted(x.name for x in q.evaluate())

with symbolic_mode():
    q_empty = an(entity(let(Body)))      # declared on an empty registry
Body("b1")
with symbolic_mode():
    q_b1 = an(entity(let(Body)))         # declared when only Body has a store
Handle("h1"); Body("b2")
print(names(q_empty))   # ['b1','b2','h1']
print(names(q_b1))      # ['b1','b2']   F1: h1 missing
Body("b3")
print(names(q_empty))   # F2: still ['b1','b2','h1'], b3 missing
for c in Variable._cache_.values(): c.clear()
Variable._cache_.clear()
print(names(q_empty))   # F2: still ['b1','b2','h1'] although the registry is empty

@symbol
class Strict:
    def __init__(self, x):
        if x < 0: raise ValueError("negative")
        self.x = x
try: Strict(-1)
except ValueError: pass
with symbolic_mode():
    print([getattr(s, "x", "<never initialised>") for s in an(entity(let(Strict))).evaluate()])  # F3

@symbol
class Wrapper:
    def __init__(self, data): self._data = data
    def __getattr__(self, name): return getattr(self._data, name)
Wrapper({})   # F4: RecursionError
