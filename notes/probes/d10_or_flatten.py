from dataclasses import dataclass, field
from typing import List
from entity_query_language import symbol, symbolic_mode, an, entity, let, or_, flatten
@symbol
@dataclass(eq=False)
class Item:
    name: str
    size: int
    tags: List[str] = field(default_factory=list)
items = [Item("a", 1, ["x", "y"]), Item("b", 2, ["y"]), Item("c", 3, ["x"]), Item("d", 0, []), Item("e", 2, ["z", "x"])]
def ev(build):
    with symbolic_mode():
        x = let(Item, domain=items, name="x")
        q = an(entity(x, build(x)))
    return sorted({i.name for i in q.evaluate()})
print(ev(lambda x: or_(flatten(x.tags) == "x", x.size == 0)), "expected ['a','c','d','e']")
print(ev(lambda x: or_(x.size == 0, flatten(x.tags) == "x")))
