from dataclasses import dataclass, field
from typing import List
from entity_query_language import symbol, symbolic_mode, let, an, entity, and_, in_
from entity_query_language.entity import concatenate
@symbol
@dataclass(eq=False)
class Item:
    name: str
@symbol
@dataclass(eq=False)
class Box:
    name: str
    cap: int
    best: Item
    items: List[Item] = field(default_factory=list)
it = [Item(f"i{k}") for k in range(4)]
boxes = [Box("b0", 1, it[1], [it[0]]), Box("b1", 1, it[0], [it[1]]), Box("b2", 0, it[3], [it[2]])]
def run(build):
    with symbolic_mode():
        b = let(Box, boxes); q = an(entity(b, build(b)))
    return sorted(r.name for r in q.evaluate())
print(run(lambda b: and_(b.cap > 0, in_(b.best, concatenate(b.items)))))  # []
print(run(lambda b: and_(in_(b.best, concatenate(b.items)), b.cap > 0)))  # ['b0', 'b1']
