from dataclasses import dataclass
from entity_query_language import *
@symbol
@dataclass(eq=False)
class Body:
    name: str
    def __repr__(self): return f"{type(self).__name__}({self.name})"
@symbol
@dataclass(eq=False)
class Handle(Body): ...
@symbol
@dataclass(eq=False)
class Container(Body): ...
h, c = Handle("H"), Container("C")
with symbolic_mode():
    print(list(an(entity(let(Handle, c))).evaluate()), "expected []")
    print(list(an(entity(let(Handle, h))).evaluate()), "expected [Handle(H)]")
    print(list(an(entity(Handle(From(c)))).evaluate()), "expected []")
    print(list(an(entity(let(Body, [h, c]))).evaluate()), "expected both")
