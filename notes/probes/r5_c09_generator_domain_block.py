"""A user generator used as a domain that keeps a block open while it yields (the pattern of
test_generate_with_using_attribute_and_callables), consumed over several steps of the outer evaluation."""
from dataclasses import dataclass
from entity_query_language import an, entity, let, symbol, Predicate, symbolic_mode, From

@symbol
@dataclass(eq=False)
class Body:
    name: str
    size: int = 1

@dataclass(eq=False)
class IsBig(Predicate):
    body: Body
    def __call__(self): return self.body.size > 5

bodies = [Body("h1", 1), Body("b1", 9), Body("h2", 7), Body("b2", 2)]

def all_bodies_plain_block():
    with symbolic_mode():
        yield from an(entity(b := Body(From(bodies)), b.size > 0)).evaluate()

def all_bodies_block_on_query():
    with symbolic_mode():
        inner = an(entity(b := Body(From(bodies)), b.size > 0))
    with symbolic_mode(inner):
        yield from inner.evaluate()

with symbolic_mode():
    x = let(Body, domain=bodies);                    q_list = an(entity(x, IsBig(x)))
    y = let(Body, domain=all_bodies_plain_block());  q_gen = an(entity(y, IsBig(y)))
    z = let(Body, domain=all_bodies_block_on_query()); q_gen2 = an(entity(z, IsBig(z)))
print("list      ", [r.name for r in q_list.evaluate()])
print("generator ", [r.name for r in q_gen.evaluate()])
try:
    print("generator2", [r.name for r in q_gen2.evaluate()])
except Exception as e:
    print("generator2 raised", type(e).__name__, e)
