from dataclasses import dataclass
from entity_query_language import an, entity, let, symbol, symbolic_mode
@symbol
@dataclass(eq=False)
class Item:
    n: int
class Counting:
    def __init__(self, items): self._it = iter(list(items)); self.pulled = []
    def __iter__(self): return self
    def __next__(self):
        v = next(self._it); self.pulled.append(v.n); return v
src = Counting(Item(i) for i in range(10))
with symbolic_mode():
    x = let(Item, domain=src); q = an(entity(x, x.n > 2))
first = q.evaluate()
assert next(first).n == 3 and src.pulled == [0, 1, 2, 3]
second = q.evaluate()                       # second evaluation while the first is suspended
assert [v.n for v in second] == [3, 4, 5, 6, 7, 8, 9]
rest = [v.n for v in first]
assert rest == [4, 5, 6, 7, 8, 9], rest     # fails: rest == []
