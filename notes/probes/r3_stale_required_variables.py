from dataclasses import dataclass
from entity_query_language import *
@symbol
@dataclass(eq=False)
class Item:
    name: str; group: int; size: int
items = [Item("a",1,10), Item("c",2,10), Item("f",3,10)]
with symbolic_mode():
    x = let(type_=Item, domain=items, name="x"); y = let(type_=Item, domain=items, name="y")
    sub = an(entity(x, or_(x.group == y.group, x.size == y.size)))
list(sub.evaluate())
with symbolic_mode():
    nested  = an(entity(x, sub & (y.name == "f")))
    inlined = an(entity(x, or_(x.group == y.group, x.size == y.size) & (y.name == "f")))
print("C15-V1", sorted(v.name for v in nested.evaluate()), sorted(v.name for v in inlined.evaluate()))

@symbol
@dataclass(unsafe_hash=True)
class It:  name: str; a: int = 0
@symbol
@dataclass(unsafe_hash=True)
class Link:  name: str; src: It; k: int = 0
@symbol
@dataclass(unsafe_hash=True)
class Pair:  item: It; link: object; tag: str
x_,y_,z_=It("x"),It("y"),It("z"); links=[Link("L1",y_,1),Link("L2",y_,2),Link("L3",z_,2)]
item=let(type_=It,domain=[x_,y_,z_]); link=let(type_=Link,domain=links)
with symbolic_mode(): q=infer(pairs:=let(type_=Pair), link.src==item, link.k>=0)
with rule_mode(q):
    Add(pairs, Pair(item,link,"src"))
    with alternative(item.a==1): Add(pairs, Pair(item,None,"flag"))
list(q.evaluate())
with rule_mode(q):
    with alternative(link.k==2, item.name=="x"): Add(pairs, Pair(item,link,"k2"))
print("C12-V4", sorted((p.item.name,p.link.name if p.link else None,p.tag) for p in q.evaluate()))
