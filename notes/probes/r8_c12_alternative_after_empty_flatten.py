"""Round-8 report (C12): a middle alternative whose condition yields no row at all for an assignment (flatten over an empty
collection) - the alternatives after it are never tried for that assignment.  Same construct as the recorded OR-LEFT-TOTAL finding."""
from dataclasses import dataclass
from entity_query_language import an, entity, let, symbolic_mode, rule_mode, alternative, Add, symbol, flatten

@symbol
@dataclass(unsafe_hash=True)
class Item:
    name: str
    a: int = 0
    tags: tuple = ()

@symbol
@dataclass(unsafe_hash=True)
class Out:
    item: Item
    label: str

items = [Item("i0", 0, ("t",)), Item("i1", 0, ()), Item("i2", 1, ())]
x = let(type_=Item, domain=items)
with symbolic_mode():
    query = an(entity(out := let(type_=Out), x.a > 0))
with rule_mode(query):
    Add(out, Out(item=x, label="L1"))
    with alternative(flatten(x.tags) == "t"):
        Add(out, Out(item=x, label="L2"))
    with alternative(x.a == 0):
        Add(out, Out(item=x, label="L3"))
got = sorted((o.item.name, o.label) for o in query.evaluate())
print(got, "expected [('i0','L2'), ('i1','L3'), ('i2','L1')]")
