from dataclasses import dataclass
from typing import Any
from entity_query_language import *

@symbol
@dataclass(eq=False)
class P:
    name: str
    age: int

@symbol
@dataclass(eq=False)
class Pair:
    first: Any
    second: Any
