from dataclasses import dataclass
from entity_query_language import an, entity, let, and_, or_, symbolic_mode, rule_mode, symbol, predicate
from entity_query_language.cache_data import enable_caching, disable_caching
@symbol
@dataclass(eq=False)
class P: name: str; age: int
@symbol
@dataclass(eq=False)
class Q: owner: P; w: int
ps = [P("a", 1), P("b", 2)]; qs = [Q(ps[0], 1), Q(ps[1], 3)]
with symbolic_mode():
    p = let(P, ps); qq = let(Q, qs)
    q = an(entity(p, or_(and_(qq.owner == p, qq.w > 2), p.age == 1)))
for i in range(4): print(sorted(r.name for r in q.evaluate()))
