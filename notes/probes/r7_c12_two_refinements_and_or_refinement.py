from dataclasses import dataclass
from entity_query_language import an, entity, let, symbol, or_
from entity_query_language.conclusion import Add
from entity_query_language.rule import alternative, refinement
from entity_query_language.symbolic import rule_mode, symbolic_mode
@symbol
@dataclass(unsafe_hash=True)
class X: name: str; c: int = 0
@symbol
@dataclass(unsafe_hash=True)
class Y: name: str; a: int = 0; c: int = 0
@symbol
@dataclass(unsafe_hash=True)
class Tag: x: X; text: str
def A():
    x = let(type_=X, domain=[X("x0", c=1)]); y = let(type_=Y, domain=[Y("y0", 2), Y("y1", 0)])
    with symbolic_mode():
        q = an(entity(t := let(type_=Tag), x.c >= 0, y.a >= 0))
    with rule_mode(q):
        Add(t, Tag(x, "base"))
        with refinement(y.a > 0):
            Add(t, Tag(x, "R1"))
        with refinement(x.c == 6):
            Add(t, Tag(x, "R2"))
            with alternative(y.a >= 0):
                Add(t, Tag(x, "A2"))
    return sorted((r.x.name, r.text) for r in q.evaluate())
def B():
    x = let(type_=X, domain=[X("x0", c=0)]); y = let(type_=Y, domain=[Y("y0", c=1), Y("y1", c=1)])
    with symbolic_mode():
        q = an(entity(t := let(type_=Tag), x.c >= 0, y.c >= 0))
    with rule_mode(q):
        Add(t, Tag(x, "base"))
        with refinement(or_(x.c == 2, y.c > 0)):
            Add(t, Tag(x, "refined"))
    return sorted((r.x.name, r.text) for r in q.evaluate())
print("A", A(), "expected R1 and A2")
print("B", B(), "expected refined only")
