from dataclasses import dataclass
from entity_query_language import symbol, let, an, entity, or_, symbolic_mode, predicate, contains

@symbol
@dataclass(eq=False)
class Item:
    name: str
    a: int

items = [Item("i%d" % i, i % 4) for i in range(6)]
names = lambda it: [r.name for r in it]

# V1: a condition on two literals is true only on the first evaluation
with symbolic_mode():
    x = let(Item, items)
    q = an(entity(x, contains([1, 2, 3], 2)))
print("V1", names(q.evaluate()), names(q.evaluate()))   # -> [i0..i5] []   (expected equal)

# V2: user exception while a variable pulls its domain from a query truncates the domain for good
class Boom(Exception): pass
arm = {"n": 3, "c": 0}
@predicate
def ok(v):
    arm["c"] += 1
    if arm["c"] == arm["n"]: raise Boom()
    return True
with symbolic_mode():
    y = let(Item, items)
    z = let(Item, an(entity(y, ok(y.a))))
    q = an(entity(z, z.a >= 0))
try: names(q.evaluate())
except Boom: pass
print("V2", names(q.evaluate()))                         # -> ['i0','i1']  (expected i0..i5)

# V3: two live iterators over queries sharing a variable steal domain elements from each other
with symbolic_mode():
    x = let(Item, items)
    q1 = an(entity(x, x.a >= 0)); q2 = an(entity(x, x.a < 9))
it1 = q1.evaluate(); it2 = q2.evaluate()
a = [next(it1).name]; b = [next(it2).name, next(it2).name]
a += names(it1); b += names(it2)
print("V3", a, b)                                        # -> [i0,i2,i3,i4,i5] [i0,i1]  (expected both i0..i5)

# V4: a query used as a domain, abandoned by the outer query, then evaluated on its own
with symbolic_mode():
    y = let(Item, items)
    sub = an(entity(y, or_(y.a > 1, y.a == 1)))
    z = let(Item, sub)
    q = an(entity(z, z.a >= 0))
it = q.evaluate(); next(it); it.close()
print("V4", names(sub.evaluate()), names(q.evaluate()))  # -> [i2,i3,i5] [i1]  (expected [i1,i2,i3,i5] twice)
