from entity_query_language.cache_data import IndexedCache
c = IndexedCache([1, 2])
c.insert({1: 'a', 2: 'b'}, 'X')
c.insert({2: 'b'}, 'Y')
print(list(c.retrieve({1: 'a', 2: 'b'})))  # [({1:'a',2:'b'},'X')]  -- Y ({2:'b'} agrees) missing
print(list(c.retrieve({2: 'b'})))          # [({2:'b'},'Y')]        -- X missing
print(list(c.retrieve({})))                # [({2:'b'},'Y')]        -- X missing

c = IndexedCache([1, 3])
c.insert({1: 'a'}, 'o0'); c.insert({3: 'a'}, 'o1')
print(list(c.retrieve({3: 'b'})))          # []  -- o0 (shares no key with the lookup) missing

c = IndexedCache([])                       # empty key list
c.insert({}, 'Z')
print(c.check({}), list(c.retrieve({})))   # True []  -- the stored output is lost, insert's loop never runs
