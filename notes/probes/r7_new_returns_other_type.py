from entity_query_language import symbol, let, an, entity, symbolic_mode
class Other: pass
@symbol
class Shape:
    def __new__(cls, kind=None):
        return Other() if kind == 'other' else super().__new__(cls)
    def __init__(self, kind=None): self.kind = kind
Shape('x'); Shape('other')
with symbolic_mode(): q = an(entity(let(Shape)))
print([type(o).__name__ for o in q.evaluate()])
