from dataclasses import dataclass, field
from entity_query_language import *
from entity_query_language.symbolic import in_symbolic_mode, Variable, _symbolic_mode, SymbolicExpression
from entity_query_language.cache_data import disable_caching, enable_caching
import sys
@symbol
@dataclass(eq=False)
class B:
    name: str
    size: int = 1
    def __repr__(self): return f"B({self.name},{self.size})"
objs = [B("a",5), B("b",1), B("c",2), B("d",3)]
if len(sys.argv)>1: disable_caching()
def mk():
    with symbolic_mode():
        x = let(B, objs)
        q = an(entity(x, or_(x.size == 1, x.size == 2)))
    return q
q = mk()
print("fresh", list(q.evaluate()), list(q.evaluate()))
q = mk()
it = q.evaluate(); print(next(it)); it.close()
print("after abandon", list(q.evaluate()), list(q.evaluate()))
def mk2():
    with symbolic_mode():
        x = let(B, objs); y = let(B, objs)
        q = an(set_of([x, y], or_(x.size == 1, y.size == 2)))
    return q,x,y
q,x,y = mk2()
print("fresh union", [(r[x],r[y]) for r in q.evaluate()])
print("fresh union 2nd", [(r[x],r[y]) for r in q.evaluate()])
q,x,y = mk2()
it = q.evaluate(); print(next(it)); it.close()
print("after abandon union", [(r[x],r[y]) for r in q.evaluate()])
