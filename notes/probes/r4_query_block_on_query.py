from dataclasses import dataclass
from entity_query_language import *
@symbol
@dataclass(eq=False)
class Body:
    name: str
bodies=[Body("a"),Body("b")]
with symbolic_mode():
    b = let(Body, bodies)
    q = an(entity(b, b.name != ""))
print([x.name for x in q.evaluate()])
with symbolic_mode(q):
    pass
print([x.name for x in q.evaluate()], "expected ['a','b'] (a plain query on which a query-mode block was opened)")
with symbolic_mode():
    b2 = let(Body, bodies)
    q2 = an(entity(b2, b2.name != ""))
with q2:
    pass
print([x.name for x in q2.evaluate()], "expected ['a','b'] (with q:)")
