from dataclasses import dataclass
from entity_query_language import *
@symbol
@dataclass(eq=False)
class Item:
    name: str
    a: int = 0
    b: int = 0
@symbol
@dataclass(eq=False)
class Label:
    item: Item
    tag: str
    def __repr__(self): return f"{self.item.name}:{self.tag}"
items=[Item("w",a=1),Item("x",b=1),Item("y"),Item("z",b=1)]
with rule_mode():
    item=let(type_=Item, domain=items); labels=let(type_=Label)
    query=infer(entity(labels, item.a > 0))
with rule_mode(query):
    Add(labels, Label(item, "base"))
    with alternative(item.b > 0): Add(labels, Label(item, "ALT"))
for i in range(4):
    print(i, list(query.evaluate()))
