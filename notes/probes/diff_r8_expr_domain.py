"""Differential probe (not part of the checks): variables whose domain is an expression (another variable, a sub-query, a flattened
attribute), evaluated repeatedly, partially, and with the underlying data growing in between; compared with plain Python."""
import random, itertools, sys
from dataclasses import dataclass, field
from typing import List
from entity_query_language import symbol, let, an, the, entity, set_of, symbolic_mode, flatten, and_, or_, not_

@symbol
@dataclass(eq=False)
class Item:
    n: int
    tags: List[int] = field(default_factory=list)

@dataclass(eq=False)
class Special(Item):
    pass

def run(seed):
    rnd = random.Random(seed)
    pool = [ (Special if rnd.random() < 0.4 else Item)(rnd.randint(0, 4), [rnd.randint(0, 3) for _ in range(rnd.randint(0, 3))]) for _ in range(rnd.randint(2, 6))]
    data = list(pool)
    kind = rnd.choice(["var", "sub", "novar"])
    thr = rnd.randint(0, 3)
    with symbolic_mode():
        if kind == "var":
            base = let(Item, data)
            x = let(Special, domain=base)
            truth = lambda: [i for i in data if isinstance(i, Special) and i.n >= thr]
        elif kind == "sub":
            b = let(Item, data)
            base = an(entity(b, b.n <= 3))
            x = let(Special, domain=base)
            truth = lambda: [i for i in data if i.n <= 3 and isinstance(i, Special) and i.n >= thr]
        else:
            base = let(Item)          # the registry
            x = let(Special, domain=base)
            mine = set(map(id, data))
            truth = lambda: [i for i in data if isinstance(i, Special) and i.n >= thr]
        q = an(entity(x, x.n >= thr))
    bad = None
    for step in range(rnd.randint(1, 4)):
        act = rnd.choice(["full", "partial", "grow", "full"])
        if act == "grow" and kind != "sub":
            new = (Special if rnd.random() < 0.6 else Item)(rnd.randint(0, 4))
            data.append(new)
            continue
        if act == "partial":
            it = iter(q.evaluate())
            for _ in range(rnd.randint(0, 2)):
                next(it, None)
            it.close()
            continue
        got = [r for r in q.evaluate()]
        if kind == "novar":
            got = [g for g in got if id(g) in set(map(id, data))]
        want = truth()
        if kind == "var":
            # a list domain is read lazily once: elements appended later are seen only if the list iterator had not finished
            want_ids = {id(w) for w in want}
            if not ({id(g) for g in got} <= want_ids) or len(got) != len(set(map(id, got))):
                bad = (kind, step, [g.n for g in got], [w.n for w in want])
            if {id(w) for w in want if w in pool} - {id(g) for g in got}:
                bad = (kind, step, [g.n for g in got], [w.n for w in want])
        else:
            if sorted(map(id, got)) != sorted(map(id, want)):
                bad = (kind, step, [g.n for g in got], [w.n for w in want])
    return bad

N = int(sys.argv[1]) if len(sys.argv) > 1 else 400
nbad = 0
for s in range(N):
    b = run(s)
    if b:
        nbad += 1
        if nbad <= 5: print("   ", s, b)
print(f"bad {nbad} of {N}")
