"""Variables / flattened expressions that only a conclusion mentions (C14 F1, C16 F3/F4 of the round-5 reports)."""
from dataclasses import dataclass, field
from typing import Any
from entity_query_language import *
from entity_query_language.symbolic import Variable

@symbol
@dataclass(eq=False)
class H: name: str = "h"
@symbol
@dataclass(eq=False)
class V: pass
@symbol
@dataclass(eq=False)
class Dr(V): handle: H = None
@symbol
@dataclass(eq=False)
class K: n: int = 0
K(1); H("a"); H("b")
with rule_mode():
    k = let(K); h = let(H)
    rule = infer(entity(v := let(V), k.n > 0))
    with rule:
        Add(v, Dr(handle=h))
print("F1 first ", sorted(o.handle.name for o in rule.evaluate()), "expected ['a', 'b']")
Variable._cache_[H].clear(); H("z")
print("F1 second", sorted(o.handle.name for o in rule.evaluate()), "expected ['z']")

@symbol
@dataclass(eq=False)
class Item:
    name: str
    w: int = 0
@symbol
@dataclass(eq=False)
class Box:
    name: str
    items: Any = field(default_factory=list)
@symbol
@dataclass(eq=False)
class Tag:
    box: Box
    item: Item
i1, i2, i3, i4, i5 = Item("i1", 1), Item("i2", 2), Item("i3", 3), Item("i4", 4), Item("i5", 2)
c1, c2 = Box("c1", [i1, i2, i5]), Box("c2", [i4, i3])
with symbolic_mode():
    b = let(Box, [c1, c2]); it = flatten(b.items)
    q = an(entity(t := let(Tag), b.name != "zzz"))
with rule_mode(q):
    Add(t, Tag(box=b, item=it))
print("F3", sorted((x.box.name, x.item.name) for x in q.evaluate()), "expected five pairs")
with symbolic_mode():
    b = let(Box, [c1, c2]); it = flatten(b.items)
    q = an(set_of([t := let(Tag), b, it], it.w >= 3))
with rule_mode(q):
    Add(t, Tag(box=b, item=it))
try:
    print("F4", sorted((r[t].box.name, r[t].item.name) for r in q.evaluate()), "expected [('c2','i3'),('c2','i4')]")
except Exception as e:
    print("F4 raised", type(e).__name__, e)
