import random, sys, itertools
from dataclasses import dataclass
from entity_query_language import *
from entity_query_language.cache_data import enable_caching, disable_caching
from entity_query_language.symbolic import Variable

@symbol
@dataclass(eq=False)
class Item:
    name: str
    f0: int = 0
    f1: int = 0
    f2: int = 0
    f3: int = 0
    f4: int = 0
    f5: int = 0
    f6: int = 0
@symbol
@dataclass(eq=False)
class Label:
    item: Item
    tag: str

class Node:
    def __init__(self, field, tag):
        self.field, self.tag = field, tag
        self.refinement = None      # chain: list of Nodes (first = refinement, rest = its alternatives)
    def cond(self, item): return getattr(item, self.field) > 0

def gen_chain(rnd, fields, depth, prefix):
    n = rnd.choice([1, 1, 2, 3]) if depth < 2 else 1
    chain = []
    for i in range(n):
        if not fields: break
        nd = Node(fields.pop(), f"{prefix}{i}")
        if depth < 2 and fields and rnd.random() < 0.5:
            nd.refinement = gen_chain(rnd, fields, depth + 1, nd.tag + "r")
        chain.append(nd)
    return chain

def oracle(chain, item):
    for nd in chain:
        if nd.cond(item):
            res = nd.tag
            if nd.refinement:
                r = oracle(nd.refinement, item)
                if r is not None: res = r
            return res
    return None

def declare(chain, item, labels, first_is_base):
    # chain[0] is declared by the caller's context (base or refinement block); its alternatives are declared as siblings
    head = chain[0]
    Add(labels, Label(item, head.tag))
    if head.refinement:
        with refinement(getattr(item, head.refinement[0].field) > 0):
            declare(head.refinement, item, labels, False)
    for alt in chain[1:]:
        with alternative(getattr(item, alt.field) > 0):
            Add(labels, Label(item, alt.tag))
            if alt.refinement:
                with refinement(getattr(item, alt.refinement[0].field) > 0):
                    declare(alt.refinement, item, labels, False)

bad = 0
N = int(sys.argv[1]) if len(sys.argv) > 1 else 200
for seed in range(N):
    rnd = random.Random(seed)
    (disable_caching if seed % 2 else enable_caching)()
    Variable._cache_.clear()
    fields = [f"f{i}" for i in range(7)]; rnd.shuffle(fields)
    chain = gen_chain(rnd, fields, 0, "t")
    items = [Item(f"i{k}", *[rnd.choice([0, 1]) for _ in range(7)]) for k in range(rnd.choice([3, 6]))]
    with rule_mode():
        item = let(type_=Item, domain=items); labels = let(type_=Label)
        query = infer(entity(labels, getattr(item, chain[0].field) > 0))
    with rule_mode(query):
        declare(chain, item, labels, True)
    want = sorted((it.name, oracle(chain, it)) for it in items if oracle(chain, it) is not None)
    ok = True
    for rep in range(3):
        try:
            got = sorted((l.item.name, l.tag) for l in query.evaluate())
        except Exception as ex:
            got = f"EXC {type(ex).__name__} {ex}"
        if got != want:
            ok = False
            if bad < 6: print(seed, "rep", rep, "MISMATCH got", got, "want", want)
            break
    bad += (not ok)
print("bad", bad, "of", N)
