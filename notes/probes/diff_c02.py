import random, itertools, operator, sys
from dataclasses import dataclass, field
from entity_query_language import *
from entity_query_language.cache_data import disable_caching, enable_caching

@symbol
@dataclass(eq=False)
class P:
    name: str
    a: int
    b: int
    items: list = field(default_factory=list)
    def __repr__(self): return f"P({self.name})"
@symbol
@dataclass(eq=False)
class Q:
    name: str
    a: int
    b: int
    def __repr__(self): return f"Q({self.name})"

OPS=[operator.lt, operator.le, operator.gt, operator.ge, operator.eq, operator.ne]
def leaf(x, y, rnd):
    k = rnd.choice(['xy','xc','yc','xy'])
    op = rnd.choice(OPS)
    if k == 'xy':
        ax, ay = rnd.choice('ab'), rnd.choice('ab')
        return op(getattr(x, ax), getattr(y, ay)), (lambda p, q: op(getattr(p, ax), getattr(q, ay)))
    if k == 'xc':
        ax, c = rnd.choice('ab'), rnd.choice([0,1,2])
        return op(getattr(x, ax), c), (lambda p, q: op(getattr(p, ax), c))
    ay, c = rnd.choice('ab'), rnd.choice([0,1,2])
    return op(getattr(y, ay), c), (lambda p, q: op(getattr(q, ay), c))
def cond(x, y, d, rnd):
    if d == 0 or rnd.random() < 0.35: return leaf(x, y, rnd)
    k = rnd.choice(['and','or','not','and'])
    if k == 'not':
        e, f = cond(x, y, d-1, rnd); return not_(e), (lambda p, q: not f(p, q))
    e1, f1 = cond(x, y, d-1, rnd); e2, f2 = cond(x, y, d-1, rnd)
    if k == 'and': return and_(e1, e2), (lambda p, q: f1(p, q) and f2(p, q))
    return or_(e1, e2), (lambda p, q: f1(p, q) or f2(p, q))

bad = 0
N = int(sys.argv[1]) if len(sys.argv) > 1 else 300
for seed in range(N):
    rnd = random.Random(seed)
    (disable_caching if seed % 2 else enable_caching)()
    ps = [P(f"p{i}", rnd.choice([0,1,2]), rnd.choice([0,1,2])) for i in range(rnd.choice([1,2,4]))]
    qs = [Q(f"q{i}", rnd.choice([0,1,2]), rnd.choice([0,1,2])) for i in range(rnd.choice([1,2,3]))]
    with symbolic_mode():
        x = let(P, ps); y = let(Q, qs)
        e, f = cond(x, y, rnd.choice([1,2,3]), rnd)
        sel = rnd.choice([[x, y], [y, x]])
        q = an(set_of(sel, e))
    try:
        got = [(r[x], r[y]) for r in q.evaluate()]
        got2 = [(r[x], r[y]) for r in q.evaluate()]
    except Exception as ex:
        print(seed, "EXC", type(ex).__name__, str(ex)[:100]); bad += 1; continue
    want = [(p, q_) for p in ps for q_ in qs if f(p, q_)]
    key = lambda t: (t[0].name, t[1].name)
    if sorted(got, key=key) != sorted(want, key=key) or sorted(got2, key=key) != sorted(want, key=key):
        bad += 1
        if bad < 6: print(seed, "MISMATCH got", sorted(got, key=key), "want", sorted(want, key=key))
print("bad", bad, "of", N)
