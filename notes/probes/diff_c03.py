"""Random condition trees with not_ at any depth (shared condition objects included) against Python's own evaluation.
One-off sanity probe for the repo fixes, not part of the machinery."""
import random, sys
from dataclasses import dataclass
from entity_query_language import symbol, let, an, set_of, and_, or_, not_, contains, in_, symbolic_mode

@symbol
@dataclass(eq=False)
class P:
    name: str
    a: int
    flag: bool
    tags: tuple
    def even(self): return self.a % 2 == 0
@symbol
@dataclass(eq=False)
class Q:
    name: str
    k: int
    ok: bool

LEAVES = [
    ("x.a < y.k", lambda X, Y: X.a < Y.k, lambda x, y: x.a < y.k),
    ("x.a >= y.k", lambda X, Y: X.a >= Y.k, lambda x, y: x.a >= y.k),
    ("x.a == y.k", lambda X, Y: X.a == Y.k, lambda x, y: x.a == y.k),
    ("x.a != 1", lambda X, Y: X.a != 1, lambda x, y: x.a != 1),
    ("y.k <= 1", lambda X, Y: Y.k <= 1, lambda x, y: y.k <= 1),
    ("y.k > 0", lambda X, Y: Y.k > 0, lambda x, y: y.k > 0),
    ("x.flag", lambda X, Y: X.flag, lambda x, y: bool(x.flag)),
    ("y.ok", lambda X, Y: Y.ok, lambda x, y: bool(y.ok)),
    ("x.even()", lambda X, Y: X.even(), lambda x, y: x.even()),
    ("contains(x.tags, y.k)", lambda X, Y: contains(X.tags, Y.k), lambda x, y: y.k in x.tags),
    ("in_(y.k, x.tags)", lambda X, Y: in_(Y.k, X.tags), lambda x, y: y.k in x.tags),
]

def gen(rnd, depth):
    if depth == 0 or rnd.random() < 0.3:
        return ("leaf", rnd.choice(LEAVES))
    r = rnd.random()
    if r < 0.3:
        return ("not", gen(rnd, depth - 1))
    return (rnd.choice(["and", "or"]), gen(rnd, depth - 1), gen(rnd, depth - 1))

def text(t):
    return t[1][0] if t[0] == "leaf" else (f"not_({text(t[1])})" if t[0] == "not" else f"{t[0]}_({text(t[1])}, {text(t[2])})")
def ev(t, x, y):
    if t[0] == "leaf": return t[1][2](x, y)
    if t[0] == "not": return not ev(t[1], x, y)
    return (ev(t[1], x, y) and ev(t[2], x, y)) if t[0] == "and" else (ev(t[1], x, y) or ev(t[2], x, y))
def build(t, X, Y, shared, rnd):
    if t[0] == "leaf":
        key = t[1][0]
        if key in shared and rnd.random() < 0.5:
            return shared[key]            # the same condition object a second time
        e = t[1][1](X, Y); shared[key] = e
        return e
    if t[0] == "not": return not_(build(t[1], X, Y, shared, rnd))
    return (and_ if t[0] == "and" else or_)(build(t[1], X, Y, shared, rnd), build(t[2], X, Y, shared, rnd))

def main(n, seed, share):
    rnd = random.Random(seed); bad = 0
    for trial in range(n):
        ps = [P(f"p{i}", rnd.randint(0, 3), rnd.random() < .5, tuple(rnd.sample(range(4), rnd.randint(0, 3)))) for i in range(rnd.randint(1, 4))]
        qs = [Q(f"q{i}", rnd.randint(0, 3), rnd.random() < .5) for i in range(rnd.randint(1, 3))]
        t = gen(rnd, 3)
        with symbolic_mode():
            X = let(P, ps, name="x"); Y = let(Q, qs, name="y")
            q = an(set_of([X, Y], build(t, X, Y, {} if share else None.__class__() if False else ({} if share else _NoShare()), rnd)))
        exp = sorted((x.name, y.name) for x in ps for y in qs if ev(t, x, y))
        for rep in (1, 2):
            try: got = sorted((r[X].name, r[Y].name) for r in q.evaluate())
            except Exception as e: got = f"raised {type(e).__name__}: {e}"
            if got != exp:
                bad += 1
                if bad <= 4: print(f"trial {trial} rep {rep}: {text(t)}\n   got {got}\n   exp {exp}")
                break
    print(f"bad {bad} of {n} (shared objects: {share})")

class _NoShare(dict):
    def __contains__(self, k): return False

main(int(sys.argv[1]) if len(sys.argv) > 1 else 300, int(sys.argv[2]) if len(sys.argv) > 2 else 1, (sys.argv[3] if len(sys.argv) > 3 else "share") == "share")
