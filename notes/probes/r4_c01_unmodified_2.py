dom = [It("x0",1,True), It("x1",2,True), It("x2",2,True), It("x3",2,True)]
with symbolic_mode():
    v = let(type_=It, domain=dom); q1 = an(entity(v, v.a > 0))
i1 = iter(q1.evaluate()); i2 = iter(q1.evaluate())
r1 = [next(i1)]; r2 = [next(i2), next(i2)]; r1 += list(i1); r2 += list(i2)
print([o.name for o in r1], [o.name for o in r2])   # ['x0','x2','x3'] ['x0','x1'], each should list all four
