import random, operator, sys, itertools
from dataclasses import dataclass
from entity_query_language import *
from entity_query_language.cache_data import enable_caching, disable_caching
@symbol
@dataclass(eq=False)
class N:
    name: str
    v: int
    w: int
    def __repr__(self): return self.name
OPS=[operator.lt, operator.le, operator.gt, operator.ge, operator.eq, operator.ne]
def leaf(vs, rnd):
    op=rnd.choice(OPS)
    if rnd.random()<0.6:
        i,j=rnd.sample(range(3),2); a,b=rnd.choice('vw'),rnd.choice('vw')
        return op(getattr(vs[i],a),getattr(vs[j],b)), (lambda t: op(getattr(t[i],a),getattr(t[j],b)))
    i=rnd.randrange(3); a=rnd.choice('vw'); c=rnd.choice([0,1,2])
    return op(getattr(vs[i],a),c), (lambda t: op(getattr(t[i],a),c))
def cond(vs,d,rnd):
    if d==0 or rnd.random()<0.3: return leaf(vs,rnd)
    k=rnd.choice(['and','or','and','or','not'])
    if k=='not':
        e,f=cond(vs,d-1,rnd); return not_(e),(lambda t: not f(t))
    e1,f1=cond(vs,d-1,rnd); e2,f2=cond(vs,d-1,rnd)
    if k=='and': return and_(e1,e2),(lambda t: f1(t) and f2(t))
    return or_(e1,e2),(lambda t: f1(t) or f2(t))
bad=0; N_=int(sys.argv[1]) if len(sys.argv)>1 else 300
for seed in range(N_):
    rnd=random.Random(seed)
    (disable_caching if seed%2 else enable_caching)()
    doms=[[N(f"{p}{i}",rnd.choice([0,1,2]),rnd.choice([0,1,2])) for i in range(rnd.choice([1,2,3]))] for p in 'pqs']
    with symbolic_mode():
        vs=[let(N,d) for d in doms]
        e,f=cond(vs,rnd.choice([1,2,3]),rnd)
        q=an(set_of(vs,e))
    try:
        got=[tuple(r[v] for v in vs) for r in q.evaluate()]; got2=[tuple(r[v] for v in vs) for r in q.evaluate()]
    except Exception as ex:
        print(seed,"EXC",type(ex).__name__,str(ex)[:80]); bad+=1; continue
    want=[t for t in itertools.product(*doms) if f(t)]
    key=lambda t: tuple(o.name for o in t)
    if sorted(got,key=key)!=sorted(want,key=key) or sorted(got2,key=key)!=sorted(want,key=key):
        bad+=1
        if bad<5: print(seed,"cache" if seed%2==0 else "nocache","MISMATCH got",len(got),len(got2),"want",len(want), sorted(set(map(key,want))-set(map(key,got)))[:3], sorted(set(map(key,got))-set(map(key,want)))[:3])
print("bad",bad,"of",N_)
