"""Whole-package call graph over resolved callees."""
from __future__ import annotations

import ast
from typing import Dict, List, Optional, Set, Tuple

from .db import ProgramDB, FuncInfo, ClassInfo, own_nodes, dotted
from .facts import resolve_call_target

BUILTIN_METHOD_NAMES = {"append", "add", "update", "clear", "pop", "remove", "insert", "extend", "get", "items", "keys",
                        "values", "copy", "setdefault", "sort", "reverse", "join", "split", "replace", "format",
                        "startswith", "endswith", "set", "discard", "union", "intersection", "difference", "filter",
                        "map", "close", "warning", "info", "debug", "error", "index", "count", "check", "retrieve"}


class CallGraph:
    """
    precise edges : self.m() (virtual over the class and its subclasses), super().m(), bare names (functions,
                    nested defs, classes -> __init__/__post_init__ along the MRO), property reads on self,
                    Cls.m / cls.m
    name edges    : obj.m() for any other receiver -> every method of the package called m (receiver type unknown).
                    Names that are also methods of builtin containers are resolved only against classes that define
                    them (still by name).
    """

    def __init__(self, db: ProgramDB):
        self.db = db
        self.by_name: Dict[str, List[FuncInfo]] = {}
        for f in db.all_functions():
            if f.cls is not None:
                self.by_name.setdefault(f.name, []).append(f)
        self.precise: Dict[str, Set[str]] = {}
        self.named: Dict[str, Set[str]] = {}
        self.ctor: Dict[str, Set[str]] = {}     # class instantiation -> __init__/__post_init__/__new__ (fresh receiver)
        self.sites: Dict[Tuple[str, str], List[ast.AST]] = {}
        for f in db.all_functions():
            self._scan(f)

    def _add(self, table, src: FuncInfo, dst: FuncInfo, site):
        table.setdefault(src.qualname, set()).add(dst.qualname)
        self.sites.setdefault((src.qualname, dst.qualname), []).append(site)

    def _virtual(self, cls: ClassInfo, name: str) -> List[FuncInfo]:
        out = []
        for c in cls.all_subclasses():
            m = c.lookup(name)
            if m is not None and m not in out:
                out.append(m)
            s = c.lookup_setter(name)
        return out

    def _class_ctor(self, cls: ClassInfo) -> List[FuncInfo]:
        out = []
        for nm in ("__init__", "__post_init__", "__new__"):
            m = cls.lookup(nm)
            if m is not None:
                out.append(m)
        return out

    def _scan(self, fn: FuncInfo):
        owner = fn
        while owner.cls is None and owner.parent is not None:
            owner = owner.parent
        cls = owner.cls
        self_name = fn.positional_params[0] if (fn.cls is not None and fn.positional_params) else "self"
        for n in own_nodes(fn.node):
            if isinstance(n, ast.Call):
                f = n.func
                if isinstance(f, ast.Attribute):
                    recv = f.value
                    if isinstance(recv, ast.Name) and recv.id in (self_name, "self") and cls is not None:
                        for m in self._virtual(cls, f.attr):
                            self._add(self.precise, fn, m, n)
                        continue
                    if isinstance(recv, ast.Call) and isinstance(recv.func, ast.Name) and recv.func.id == "super" and cls:
                        for c in cls.mro[1:]:
                            if f.attr in c.methods:
                                self._add(self.precise, fn, c.methods[f.attr], n)
                                break
                        continue
                    r = self.db.resolve_dotted(fn.module, f)
                    if isinstance(r, FuncInfo):
                        self._add(self.precise, fn, r, n)
                        continue
                    if isinstance(r, ClassInfo):
                        for m in self._class_ctor(r):
                            self._add(self.ctor, fn, m, n)
                        continue
                    for m in self.by_name.get(f.attr, []):
                        self._add(self.named, fn, m, n)
                else:
                    r = resolve_call_target(self.db, fn, n)
                    if isinstance(r, FuncInfo):
                        self._add(self.precise, fn, r, n)
                    elif isinstance(r, ClassInfo):
                        for m in self._class_ctor(r):
                            self._add(self.ctor, fn, m, n)
            elif isinstance(n, ast.Attribute) and isinstance(n.ctx, ast.Load) and isinstance(n.value, ast.Name) \
                    and n.value.id in (self_name, "self") and cls is not None:
                for c in cls.all_subclasses():
                    m = c.lookup(n.attr)
                    if m is not None and m.is_property:
                        self._add(self.precise, fn, m, n)
            elif isinstance(n, (ast.Assign, ast.AugAssign)) and cls is not None:
                targets = n.targets if isinstance(n, ast.Assign) else [n.target]
                for t in targets:
                    if isinstance(t, ast.Attribute) and isinstance(t.value, ast.Name) and t.value.id in (self_name, "self"):
                        for c in cls.all_subclasses():
                            s = c.lookup_setter(t.attr)
                            if s is not None:
                                self._add(self.precise, fn, s, n)
            elif isinstance(n, (ast.For, ast.comprehension)):
                # iterating `self` / an expression object calls __iter__
                it = n.iter
                if isinstance(it, ast.Name) and it.id in (self_name, "self") and cls is not None:
                    for m in self._virtual(cls, "__iter__"):
                        self._add(self.precise, fn, m, n)
            elif isinstance(n, ast.YieldFrom):
                it = n.value
                if isinstance(it, ast.Name) and it.id in (self_name, "self") and cls is not None:
                    for m in self._virtual(cls, "__iter__"):
                        self._add(self.precise, fn, m, n)
        # nested defs are "called" by their definer (closures used as callbacks / returned)
        for nd in fn.nested.values():
            self._add(self.precise, fn, nd, nd.node)

    def callees(self, q: str, named=True, ctor=True) -> Set[str]:
        out = set(self.precise.get(q, ()))
        if named:
            out |= self.named.get(q, set())
        if ctor:
            out |= self.ctor.get(q, set())
        return out

    def reach(self, roots: List[str], named=True, stop=None, ctor=True) -> Set[str]:
        seen: Set[str] = set()
        work = list(roots)
        while work:
            q = work.pop()
            if q in seen:
                continue
            seen.add(q)
            if stop is not None and stop(q) and q not in roots:
                continue
            work.extend(self.callees(q, named, ctor))
        return seen

    def callers(self, q: str, named=True) -> Set[str]:
        out = set()
        for src, dsts in self.precise.items():
            if q in dsts:
                out.add(src)
        if named:
            for src, dsts in self.named.items():
                if q in dsts:
                    out.add(src)
        return out

    def path(self, root: str, target: str, named=True) -> Optional[List[str]]:
        from collections import deque
        prev = {root: None}
        dq = deque([root])
        while dq:
            q = dq.popleft()
            if q == target:
                out = []
                while q is not None:
                    out.append(q)
                    q = prev[q]
                return list(reversed(out))
            for d in sorted(self.callees(q, named)):
                if d not in prev:
                    prev[d] = q
                    dq.append(d)
        return None
