"""
Program database for the static checks.

Parses every module of the package under analysis (never imports or runs it) and records
modules, import tables, classes (resolved bases, C3 MRO, dataclass fields in ``__init__``
order), functions / methods / nested functions, properties and setters, decorators.

Everything here is computed from the source as it is on disk when the check starts.
"""
from __future__ import annotations

import ast
import hashlib
import os
from dataclasses import dataclass, field
from typing import Dict, List, Optional, Tuple, Iterable, Set, Union

REPO = os.environ.get("EQL_VERIF_REPO", "/repo")
PKG_REL = "src/entity_query_language"
PKG_NAME = "entity_query_language"


class AnalysisError(Exception):
    """The analysis cannot decide (anchor vanished, idiom not in the accepted table...)."""


def unparse(node) -> str:
    if node is None:
        return ""
    if isinstance(node, str):
        return node
    try:
        return ast.unparse(node)
    except Exception:  # pragma: no cover
        return "<?>"


def dotted(node) -> Optional[str]:
    """`a.b.c` for Name/Attribute chains, else None."""
    parts = []
    while isinstance(node, ast.Attribute):
        parts.append(node.attr)
        node = node.value
    if isinstance(node, ast.Name):
        parts.append(node.id)
        return ".".join(reversed(parts))
    return None


def decorator_names(node) -> List[str]:
    out = []
    for d in getattr(node, "decorator_list", []):
        if isinstance(d, ast.Call):
            d = d.func
        n = dotted(d)
        if n:
            out.append(n)
    return out


def own_nodes(fn_node: ast.AST) -> Iterable[ast.AST]:
    """All nodes of a function body that belong to the function itself (not to nested
    function/class/lambda bodies).  Comprehension bodies are included (they run inline
    as far as the rules here care), and flagged by the callers that need the difference."""
    stack = list(ast.iter_child_nodes(fn_node))
    while stack:
        n = stack.pop()
        yield n
        if isinstance(n, (ast.FunctionDef, ast.AsyncFunctionDef, ast.ClassDef, ast.Lambda)):
            continue
        stack.extend(ast.iter_child_nodes(n))


def own_nodes_of_stmts(stmts: List[ast.stmt]) -> Iterable[ast.AST]:
    for s in stmts:
        yield s
        if isinstance(s, (ast.FunctionDef, ast.AsyncFunctionDef, ast.ClassDef)):
            continue
        yield from own_nodes(s)


def is_generator_function(fn_node: ast.AST) -> bool:
    for n in own_nodes(fn_node):
        if isinstance(n, (ast.Yield, ast.YieldFrom)):
            # yields inside generator expressions are impossible in 3.12; comprehension
            # bodies cannot contain yield either.
            return True
    return False


@dataclass
class FieldInfo:
    name: str
    annotation: Optional[ast.AST]
    default: Optional[ast.AST]  # default value expression (or default_factory expression)
    default_is_factory: bool
    has_default: bool
    init: bool
    kw_only: bool
    classvar: bool
    owner: str  # class qualname that declares it
    lineno: int

    @property
    def annotation_src(self) -> str:
        return unparse(self.annotation)


@dataclass
class FuncInfo:
    name: str
    qualname: str          # module:Class.method | module:func | module:outer.<locals>.inner
    module: str
    node: ast.AST
    cls: Optional["ClassInfo"] = None
    parent: Optional["FuncInfo"] = None   # enclosing function for nested defs
    decorators: List[str] = field(default_factory=list)
    nested: Dict[str, "FuncInfo"] = field(default_factory=dict)

    @property
    def is_generator(self) -> bool:
        return is_generator_function(self.node)

    @property
    def params(self) -> List[str]:
        a = self.node.args
        return [x.arg for x in a.posonlyargs + a.args] + ([a.vararg.arg] if a.vararg else []) + \
               [x.arg for x in a.kwonlyargs] + ([a.kwarg.arg] if a.kwarg else [])

    @property
    def positional_params(self) -> List[str]:
        a = self.node.args
        return [x.arg for x in a.posonlyargs + a.args]

    def param_default(self, name: str) -> Optional[ast.AST]:
        a = self.node.args
        pos = a.posonlyargs + a.args
        defaults = [None] * (len(pos) - len(a.defaults)) + list(a.defaults)
        for p, d in zip(pos, defaults):
            if p.arg == name:
                return d
        for p, d in zip(a.kwonlyargs, a.kw_defaults):
            if p.arg == name:
                return d
        return None

    @property
    def file(self) -> str:
        return f"{PKG_REL}/{self.module}.py"

    @property
    def lineno(self) -> int:
        return self.node.lineno

    @property
    def short(self) -> str:
        return self.qualname.split(":", 1)[1]

    @property
    def is_property(self) -> bool:
        return "property" in self.decorators

    @property
    def is_contextmanager(self) -> bool:
        return any(d.split(".")[-1] == "contextmanager" for d in self.decorators)

    def __hash__(self):
        return hash(self.qualname)

    def __eq__(self, other):
        return isinstance(other, FuncInfo) and other.qualname == self.qualname

    def __repr__(self):
        return f"<fn {self.qualname}>"


@dataclass
class ClassInfo:
    name: str
    module: str
    node: ast.ClassDef
    base_exprs: List[ast.AST]
    bases: List["ClassInfo"] = field(default_factory=list)       # package-internal bases, resolved
    external_bases: List[str] = field(default_factory=list)
    mro: List["ClassInfo"] = field(default_factory=list)
    is_dataclass: bool = False
    dataclass_kwargs: Dict[str, ast.AST] = field(default_factory=dict)
    own_fields: List[FieldInfo] = field(default_factory=list)
    methods: Dict[str, FuncInfo] = field(default_factory=dict)        # plain methods + property getters
    setters: Dict[str, FuncInfo] = field(default_factory=dict)        # property setters
    class_attrs: Dict[str, ast.AST] = field(default_factory=dict)     # plain class-level assignments
    subclasses: List["ClassInfo"] = field(default_factory=list)       # direct

    @property
    def qualname(self) -> str:
        return f"{self.module}:{self.name}"

    @property
    def file(self) -> str:
        return f"{PKG_REL}/{self.module}.py"

    def all_subclasses(self, include_self=True) -> List["ClassInfo"]:
        out, seen = [], set()
        stack = [self]
        while stack:
            c = stack.pop()
            if c.qualname in seen:
                continue
            seen.add(c.qualname)
            if c is not self or include_self:
                out.append(c)
            stack.extend(c.subclasses)
        return out

    def is_subclass_of(self, other: Union["ClassInfo", str]) -> bool:
        if isinstance(other, str):
            return any(c.name == other for c in self.mro)
        return any(c is other for c in self.mro)

    def lookup(self, name: str) -> Optional[FuncInfo]:
        """MRO lookup of a method / property getter."""
        for c in self.mro:
            if name in c.methods:
                return c.methods[name]
        return None

    def lookup_setter(self, name: str) -> Optional[FuncInfo]:
        for c in self.mro:
            if name in c.setters:
                return c.setters[name]
            if name in c.methods and c.methods[name].is_property:
                # property redefined without a setter shadows inherited setter
                return c.setters.get(name)
        return None

    def fields(self) -> List[FieldInfo]:
        """Dataclass fields collected over the MRO (base first, redefinitions keep their
        original position but take the new definition), as dataclasses does."""
        out: Dict[str, FieldInfo] = {}
        for c in reversed(self.mro):
            if not c.is_dataclass:
                continue
            for f in c.own_fields:
                if f.classvar:
                    continue
                out[f.name] = f
        return list(out.values())

    def field(self, name: str) -> Optional[FieldInfo]:
        for f in self.fields():
            if f.name == name:
                return f
        return None

    def init_params(self) -> List[Tuple[str, bool]]:
        """Parameters of the synthesised/hand-written ``__init__`` (without self):
        list of (name, keyword_only)."""
        for c in self.mro:
            if "__init__" in c.methods:
                fn = c.methods["__init__"]
                a = fn.node.args
                pos = [(x.arg, False) for x in (a.posonlyargs + a.args)[1:]]
                kw = [(x.arg, True) for x in a.kwonlyargs]
                return pos + kw
            if c.is_dataclass:
                break
        fs = [f for f in self.fields() if f.init]
        return [(f.name, False) for f in fs if not f.kw_only] + [(f.name, True) for f in fs if f.kw_only]

    def __hash__(self):
        return hash(self.qualname)

    def __eq__(self, other):
        return isinstance(other, ClassInfo) and other.qualname == self.qualname

    def __repr__(self):
        return f"<class {self.qualname}>"


@dataclass
class ModuleInfo:
    name: str
    path: str
    source: str
    tree: ast.Module
    imports: Dict[str, Tuple[str, Optional[str]]] = field(default_factory=dict)
    # local name -> (module, attr) ; module is package-internal short name (e.g. "symbolic") or
    # external dotted module (e.g. "operator"); attr None means the module itself.
    internal: Set[str] = field(default_factory=set)  # local names bound to package-internal things
    functions: Dict[str, FuncInfo] = field(default_factory=dict)
    classes: Dict[str, ClassInfo] = field(default_factory=dict)
    assigns: Dict[str, ast.AST] = field(default_factory=dict)  # module-level NAME = expr


def canonical_branches(tree: ast.AST, _rounds: int = 3) -> ast.AST:
    """`if not X: A else: B` and `if X: B else: A` are one program.  The rules are written for one of the two shapes; the tree is
    brought into the shape whose test is not a negation before anything looks at it (line numbers stay with the statements).  Likewise a
    loop body that ends in `if X: <rest>` and one that says `if not X: continue` before <rest>: the second shape is canonical."""
    _before = ast.dump(tree)

    class _Canon(ast.NodeTransformer):
        def visit_If(self, node: ast.If):
            self.generic_visit(node)
            # `if A: if B: body` (no else anywhere) is `if A and B: body`
            while not node.orelse and len(node.body) == 1 and isinstance(node.body[0], ast.If) and not node.body[0].orelse \
                    and not any(isinstance(x, ast.NamedExpr) for x in ast.walk(node.test)):
                inner = node.body[0]
                a = node.test.values if isinstance(node.test, ast.BoolOp) and isinstance(node.test.op, ast.And) else [node.test]
                b = inner.test.values if isinstance(inner.test, ast.BoolOp) and isinstance(inner.test.op, ast.And) else [inner.test]
                node.test = ast.copy_location(ast.BoolOp(op=ast.And(), values=list(a) + list(b)), node.test)
                node.body = inner.body
            if node.orelse and isinstance(node.test, ast.UnaryOp) and isinstance(node.test.op, ast.Not):
                node.test, node.body, node.orelse = node.test.operand, node.orelse, node.body
            return node
    tree = _Canon().visit(tree)

    # `if X: …; continue / break / return / raise` followed by `else: B` is the same `if` followed by B
    def _exits(body) -> bool:
        last = body[-1] if body else None
        if isinstance(last, (ast.Continue, ast.Break, ast.Return, ast.Raise)):
            return True
        return isinstance(last, ast.If) and bool(last.orelse) and _exits(last.body) and _exits(last.orelse)

    def unwrap_else(body: List[ast.stmt]) -> List[ast.stmt]:
        out: List[ast.stmt] = []
        for st in body:
            if isinstance(st, ast.If) and st.orelse and _exits(st.body) and not (len(st.orelse) == 1 and isinstance(st.orelse[0], ast.If) and False):
                rest = st.orelse
                st.orelse = []
                out.append(st)
                out.extend(unwrap_else(rest))
            else:
                out.append(st)
        return out
    for node in ast.walk(tree):
        for fld in ("body", "orelse", "finalbody"):
            b = getattr(node, fld, None)
            if isinstance(b, list) and b and isinstance(b[0], ast.stmt) and not isinstance(node, (ast.Module, ast.ClassDef)):
                setattr(node, fld, unwrap_else(b))
        if isinstance(node, ast.Try):
            for h in node.handlers:
                h.body = unwrap_else(h.body)

    # `for t in E: yield t` is `yield from E` (nothing in the package sends or throws into its generators)
    class _YieldFrom(ast.NodeTransformer):
        def visit_For(self, node: ast.For):
            self.generic_visit(node)
            if not node.orelse and isinstance(node.target, ast.Name) and len(node.body) == 1 and isinstance(node.body[0], ast.Expr) \
                    and isinstance(node.body[0].value, ast.Yield) and isinstance(node.body[0].value.value, ast.Name) \
                    and node.body[0].value.value.id == node.target.id:
                return ast.copy_location(ast.Expr(value=ast.copy_location(ast.YieldFrom(value=node.iter), node)), node)
            return node
    tree = _YieldFrom().visit(tree)

    def negate(t: ast.AST) -> ast.AST:
        if isinstance(t, ast.UnaryOp) and isinstance(t.op, ast.Not):
            return t.operand
        n = ast.UnaryOp(op=ast.Not(), operand=t)
        return ast.copy_location(n, t)

    def guard_form(body):
        """a loop body that ends in `if X: <rest>` (no else) is the same as `if not X: continue` followed by <rest>: the second
        shape is the canonical one"""
        while body and isinstance(body[-1], ast.If) and not body[-1].orelse and not (len(body[-1].body) == 1 and isinstance(body[-1].body[0], (ast.Continue, ast.Break, ast.Return, ast.Raise))):
            last = body[-1]
            # one guard per conjunct: `if A and B: rest` is `if not A: continue` / `if not B: continue` / rest (same short-circuit order)
            conj = last.test.values if isinstance(last.test, ast.BoolOp) and isinstance(last.test.op, ast.And) \
                and not any(isinstance(x, ast.NamedExpr) for x in ast.walk(last.test)) else [last.test]
            skips = []
            for c in conj:
                skip = ast.If(test=negate(c), body=[ast.copy_location(ast.Continue(), last)], orelse=[])
                skips.append(ast.copy_location(skip, last))
            body = body[:-1] + skips + list(last.body)
        return body

    class _Guards(ast.NodeTransformer):
        def visit_For(self, node):
            self.generic_visit(node)
            node.body = guard_form(list(node.body))
            return node
        visit_While = visit_For
        visit_AsyncFor = visit_For
    tree = _Guards().visit(tree)

    # `x = self.a.b` at the top of a function, x never assigned again and no `.b` stored in the function: x IS self.a.b.  The alias is
    # written out, so that a method reads the same whether or not its operands were first put into locals.
    def pure_self_chain(e: ast.AST) -> bool:
        while isinstance(e, ast.Attribute):
            e = e.value
        return isinstance(e, ast.Name) and e.id == "self"

    import copy as _copy

    class _Inline(ast.NodeTransformer):
        def __init__(self, m):
            self.m = m

        def visit_Name(self, n):
            if isinstance(n.ctx, ast.Load) and n.id in self.m:
                return ast.copy_location(_copy.deepcopy(self.m[n.id]), n)
            return n

    for fn in [x for x in ast.walk(tree) if isinstance(x, (ast.FunctionDef, ast.AsyncFunctionDef))]:
        params = {a.arg for a in fn.args.args + fn.args.kwonlyargs + fn.args.posonlyargs}
        if "self" not in params:
            continue
        stored_attrs = {x.attr for x in ast.walk(fn) if isinstance(x, ast.Attribute) and not isinstance(x.ctx, ast.Load)}
        store_counts: Dict[str, int] = {}
        for x in ast.walk(fn):
            if isinstance(x, ast.Name) and not isinstance(x.ctx, ast.Load):
                store_counts[x.id] = store_counts.get(x.id, 0) + 1
            if isinstance(x, (ast.Global, ast.Nonlocal)):
                for nm in x.names:
                    store_counts[nm] = 99
        m = {}
        keep = []
        k = 1 if fn.body and isinstance(fn.body[0], ast.Expr) and isinstance(fn.body[0].value, ast.Constant) and isinstance(fn.body[0].value.value, str) else 0
        leading = True
        for i, st in enumerate(fn.body):
            if i >= k and leading and isinstance(st, ast.Assign) and len(st.targets) == 1 and isinstance(st.targets[0], ast.Name) \
                    and isinstance(st.value, ast.Attribute) and pure_self_chain(st.value) and st.targets[0].id not in params \
                    and store_counts.get(st.targets[0].id, 0) == 1 and st.value.attr not in stored_attrs \
                    and not any(isinstance(x, ast.Attribute) and x.attr in stored_attrs for x in ast.walk(st.value)):
                m[st.targets[0].id] = st.value
                continue
            if i >= k and not (isinstance(st, ast.Assign) and isinstance(st.value, ast.Attribute) and pure_self_chain(st.value)):
                leading = leading and isinstance(st, (ast.Assign, ast.AnnAssign)) and False
            keep.append(st)
        if m:
            fn.body = [_Inline(m).visit(st) for st in keep] or [ast.Pass()]
    # (g) `x = []` directly followed by `for t in it: [if c:] x.append(e)` is `x = [e for t in it if c]`; likewise `x = {}` and `x[k] = v`
    def comp_fold(body: List[ast.stmt]) -> List[ast.stmt]:
        out: List[ast.stmt] = []
        i = 0
        while i < len(body):
            st = body[i]
            nxt = body[i + 1] if i + 1 < len(body) else None
            done = False
            if isinstance(st, ast.Assign) and len(st.targets) == 1 and isinstance(st.targets[0], ast.Name) and isinstance(nxt, ast.For) and not nxt.orelse \
                    and ((isinstance(st.value, ast.List) and not st.value.elts) or (isinstance(st.value, ast.Dict) and not st.value.keys)):
                x = st.targets[0].id
                ifs = []
                b = nxt.body
                while True:
                    if len(b) == 1 and isinstance(b[0], ast.If) and not b[0].orelse:
                        ifs.append(b[0].test)
                        b = b[0].body
                    elif len(b) >= 2 and isinstance(b[0], ast.If) and not b[0].orelse and len(b[0].body) == 1 and isinstance(b[0].body[0], ast.Continue):
                        ifs.append(negate(b[0].test))          # the guard form of the same filter
                        b = b[1:]
                    else:
                        break
                if len(b) == 1 and not any(isinstance(y, ast.Name) and y.id == x for t_ in [nxt.iter] + ifs for y in ast.walk(t_)) \
                        and not any(isinstance(y, (ast.Yield, ast.YieldFrom, ast.Await, ast.NamedExpr)) for y in ast.walk(nxt)):
                    leaf = b[0]
                    gen = ast.comprehension(target=nxt.target, iter=nxt.iter, ifs=ifs, is_async=0)
                    if isinstance(st.value, ast.List) and isinstance(leaf, ast.Expr) and isinstance(leaf.value, ast.Call) \
                            and isinstance(leaf.value.func, ast.Attribute) and leaf.value.func.attr == "append" and isinstance(leaf.value.func.value, ast.Name) \
                            and leaf.value.func.value.id == x and len(leaf.value.args) == 1 and not leaf.value.keywords \
                            and not any(isinstance(y, ast.Name) and y.id == x for y in ast.walk(leaf.value.args[0])):
                        st.value = ast.copy_location(ast.ListComp(elt=leaf.value.args[0], generators=[gen]), nxt)
                        done = True
                    elif isinstance(st.value, ast.Dict) and isinstance(leaf, ast.Assign) and len(leaf.targets) == 1 and isinstance(leaf.targets[0], ast.Subscript) \
                            and isinstance(leaf.targets[0].value, ast.Name) and leaf.targets[0].value.id == x \
                            and not any(isinstance(y, ast.Name) and y.id == x for y in list(ast.walk(leaf.value)) + list(ast.walk(leaf.targets[0].slice))):
                        st.value = ast.copy_location(ast.DictComp(key=leaf.targets[0].slice, value=leaf.value, generators=[gen]), nxt)
                        done = True
            out.append(st)
            i += 2 if done else 1
        return out
    for node in ast.walk(tree):
        for fld in ("body", "orelse", "finalbody"):
            b = getattr(node, fld, None)
            if isinstance(b, list) and b and isinstance(b[0], ast.stmt):
                setattr(node, fld, comp_fold(b))
        if isinstance(node, ast.Try):
            for h in node.handlers:
                h.body = comp_fold(h.body)

    # (d) `n = <call>` immediately followed by `for t in n:` with n used nowhere else is `for t in <call>:`
    for fn in [x for x in ast.walk(tree) if isinstance(x, (ast.FunctionDef, ast.AsyncFunctionDef))]:
        loads: Dict[str, int] = {}
        stores: Dict[str, int] = {}
        for x in ast.walk(fn):
            if isinstance(x, ast.Name):
                d = loads if isinstance(x.ctx, ast.Load) else stores
                d[x.id] = d.get(x.id, 0) + 1
            if isinstance(x, (ast.Global, ast.Nonlocal)):
                for nm in x.names:
                    stores[nm] = 99

        def fold(body: List[ast.stmt]) -> List[ast.stmt]:
            out: List[ast.stmt] = []
            i = 0
            while i < len(body):
                st = body[i]
                nxt = body[i + 1] if i + 1 < len(body) else None
                if isinstance(st, ast.Assign) and len(st.targets) == 1 and isinstance(st.targets[0], ast.Name) and isinstance(st.value, ast.Call) \
                        and stores.get(st.targets[0].id, 0) == 1 and loads.get(st.targets[0].id, 0) == 1:
                    nm = st.targets[0].id
                    if isinstance(nxt, ast.For) and isinstance(nxt.iter, ast.Name) and nxt.iter.id == nm:
                        nxt.iter = st.value
                        i += 1
                        continue
                    # … and `n = <call>` directly followed by `yield from n` / `return n` is `yield from <call>` / `return <call>`
                    if isinstance(nxt, ast.Expr) and isinstance(nxt.value, ast.YieldFrom) and isinstance(nxt.value.value, ast.Name) and nxt.value.value.id == nm:
                        nxt.value.value = st.value
                        i += 1
                        continue
                    if isinstance(nxt, ast.Return) and isinstance(nxt.value, ast.Name) and nxt.value.id == nm:
                        nxt.value = st.value
                        i += 1
                        continue
                out.append(st)
                i += 1
            return out
        for node in ast.walk(fn):
            for fld in ("body", "orelse", "finalbody"):
                b = getattr(node, fld, None)
                if isinstance(b, list) and b and isinstance(b[0], ast.stmt):
                    setattr(node, fld, fold(b))
            if isinstance(node, ast.Try):
                for h in node.handlers:
                    h.body = fold(h.body)
    tree = ast.fix_missing_locations(tree)
    # the passes feed each other (an expanded `yield from` whose iterable was hoisted into a local): repeat until nothing changes
    if _rounds > 1:
        after = ast.dump(tree)
        if after != _before:
            tree = canonical_branches(tree, _rounds - 1)
    return tree


class ProgramDB:
    def __init__(self, repo: str = None, pkg_rel: str = PKG_REL, overrides: Dict[str, str] = None):
        """overrides: module short name -> source text, replacing (or adding to) what is on disk; used only for
        the built-in positive examples and the thorough tier's checker-sensitivity variants (in memory)."""
        self.source_overrides = dict(overrides or {})
        self.repo = repo or REPO
        self.pkg_dir = os.path.join(self.repo, pkg_rel)
        self.modules: Dict[str, ModuleInfo] = {}
        self.functions: Dict[str, FuncInfo] = {}
        self.classes: Dict[str, ClassInfo] = {}       # by qualname
        self.class_by_name: Dict[str, List[ClassInfo]] = {}
        self._parents: Dict[int, ast.AST] = {}
        self._load()

    # ------------------------------------------------------------------ loading
    def _load(self):
        if not os.path.isdir(self.pkg_dir):
            raise AnalysisError(f"package directory {self.pkg_dir} not found")
        for fn in sorted(os.listdir(self.pkg_dir)):
            if not fn.endswith(".py"):
                continue
            path = os.path.join(self.pkg_dir, fn)
            with open(path, encoding="utf-8") as fh:
                src = fh.read()
            try:
                tree = ast.parse(src, filename=path)
            except SyntaxError as e:
                raise AnalysisError(f"{path} does not parse: {e}")
            name = fn[:-3]
            if name in self.source_overrides:
                src = self.source_overrides[name]
                try:
                    tree = ast.parse(src, filename=path)
                except SyntaxError as e:
                    raise AnalysisError(f"override of {name} does not parse: {e}")
            mod = ModuleInfo(name, path, src, canonical_branches(tree))
            self.modules[name] = mod
        for name, src in self.source_overrides.items():
            if name not in self.modules:
                path = os.path.join(self.pkg_dir, name + ".py")
                self.modules[name] = ModuleInfo(name, path, src, canonical_branches(ast.parse(src, filename=path)))
        for mod in self.modules.values():
            self._index_module(mod)
        self._resolve_bases()
        self._compute_mros()

    def digest(self) -> str:
        h = hashlib.sha256()
        for name in sorted(self.modules):
            h.update(name.encode())
            h.update(self.modules[name].source.encode())
        return h.hexdigest()[:16]

    def _index_module(self, mod: ModuleInfo):
        for node in ast.walk(mod.tree):
            for ch in ast.iter_child_nodes(node):
                self._parents[id(ch)] = node
        # imports (anywhere at module level, incl. under `if TYPE_CHECKING` / try)
        for node in ast.walk(mod.tree):
            if isinstance(node, ast.ImportFrom):
                if node.level >= 1:
                    target = node.module or "__init__"
                    for a in node.names:
                        local = a.asname or a.name
                        if node.module is None:
                            # from . import logger / from . import symbolic
                            if a.name in self.modules:
                                mod.imports[local] = (a.name, None)
                            else:
                                mod.imports[local] = ("__init__", a.name)
                        else:
                            mod.imports[local] = (target, a.name)
                        mod.internal.add(local)
                else:
                    for a in node.names:
                        local = a.asname or a.name
                        mod.imports.setdefault(local, (node.module, a.name))
            elif isinstance(node, ast.Import):
                for a in node.names:
                    local = a.asname or a.name.split(".")[0]
                    mod.imports.setdefault(local, (a.name if a.asname else a.name.split(".")[0], None))
        for node in mod.tree.body:
            self._index_stmt(mod, node, None, None)

    def _index_stmt(self, mod: ModuleInfo, node, cls: Optional[ClassInfo], parent_fn: Optional[FuncInfo]):
        if isinstance(node, (ast.FunctionDef, ast.AsyncFunctionDef)):
            self._index_function(mod, node, cls, parent_fn)
        elif isinstance(node, ast.ClassDef):
            self._index_class(mod, node)
        elif isinstance(node, ast.Assign) and cls is None and parent_fn is None:
            for t in node.targets:
                if isinstance(t, ast.Name):
                    mod.assigns[t.id] = node.value
        elif isinstance(node, ast.AnnAssign) and cls is None and parent_fn is None:
            if isinstance(node.target, ast.Name) and node.value is not None:
                mod.assigns[node.target.id] = node.value
        elif isinstance(node, (ast.If, ast.Try)) and cls is None and parent_fn is None:
            for sub in ast.iter_child_nodes(node):
                if isinstance(sub, ast.stmt):
                    self._index_stmt(mod, sub, cls, parent_fn)
                elif isinstance(sub, ast.ExceptHandler):
                    for s2 in sub.body:
                        self._index_stmt(mod, s2, cls, parent_fn)

    def _index_function(self, mod, node, cls, parent_fn) -> FuncInfo:
        decs = decorator_names(node)
        if parent_fn is not None:
            q = f"{parent_fn.qualname}.<locals>.{node.name}"
        elif cls is not None:
            q = f"{mod.name}:{cls.name}.{node.name}"
        else:
            q = f"{mod.name}:{node.name}"
        is_setter = any(d.endswith(".setter") for d in decs)
        if is_setter:
            q += "@setter"
        fi = FuncInfo(node.name, q, mod.name, node, cls=cls, parent=parent_fn, decorators=decs)
        self.functions[q] = fi
        if parent_fn is not None:
            parent_fn.nested[node.name] = fi
        elif cls is not None:
            if is_setter:
                cls.setters[node.name] = fi
            else:
                cls.methods[node.name] = fi
        else:
            mod.functions[node.name] = fi
        # nested defs (any depth inside the body, but not inside nested classes)
        for sub in own_nodes(node):
            if isinstance(sub, (ast.FunctionDef, ast.AsyncFunctionDef)):
                # only direct nesting level: own_nodes does not descend into nested defs
                self._index_function(mod, sub, cls if False else None, fi)
        return fi

    def _index_class(self, mod, node: ast.ClassDef):
        ci = ClassInfo(node.name, mod.name, node, list(node.bases))
        for d in node.decorator_list:
            dn = dotted(d.func if isinstance(d, ast.Call) else d)
            if dn and dn.split(".")[-1] == "dataclass":
                ci.is_dataclass = True
                if isinstance(d, ast.Call):
                    ci.dataclass_kwargs = {k.arg: k.value for k in d.keywords if k.arg}
        mod.classes[node.name] = ci
        self.classes[ci.qualname] = ci
        self.class_by_name.setdefault(node.name, []).append(ci)
        kw_only_default = False
        v = ci.dataclass_kwargs.get("kw_only")
        if isinstance(v, ast.Constant) and v.value is True:
            kw_only_default = True
        for st in node.body:
            if isinstance(st, (ast.FunctionDef, ast.AsyncFunctionDef)):
                self._index_function(mod, st, ci, None)
            elif isinstance(st, ast.AnnAssign) and isinstance(st.target, ast.Name):
                ann = st.annotation
                ann_src = unparse(ann)
                classvar = "ClassVar" in ann_src.split("[")[0]
                default, is_factory, has_default, init, kw_only = st.value, False, st.value is not None, True, kw_only_default
                if isinstance(st.value, ast.Call) and dotted(st.value.func) in ("field", "dataclasses.field"):
                    default, has_default = None, False
                    for k in st.value.keywords:
                        if k.arg == "default":
                            default, has_default = k.value, True
                        elif k.arg == "default_factory":
                            default, has_default, is_factory = k.value, True, True
                        elif k.arg == "init":
                            init = not (isinstance(k.value, ast.Constant) and k.value.value is False)
                        elif k.arg == "kw_only":
                            kw_only = isinstance(k.value, ast.Constant) and k.value.value is True
                ci.own_fields.append(FieldInfo(st.target.id, ann, default, is_factory, has_default, init, kw_only,
                                               classvar, ci.qualname, st.lineno))
                if classvar and st.value is not None:
                    ci.class_attrs[st.target.id] = st.value
            elif isinstance(st, ast.Assign):
                for t in st.targets:
                    if isinstance(t, ast.Name):
                        ci.class_attrs[t.id] = st.value

    # ------------------------------------------------------------------ name resolution
    def resolve_name(self, mod: Union[str, ModuleInfo], name: str, _depth=0):
        """Resolve a bare name used in module `mod` to a ClassInfo / FuncInfo / ('ext', dotted) /
        ('assign', module, expr) / None."""
        if isinstance(mod, str):
            mod = self.modules.get(mod)
        if mod is None or _depth > 6:
            return None
        if name in mod.classes:
            return mod.classes[name]
        if name in mod.functions:
            return mod.functions[name]
        if name in mod.assigns:
            v = mod.assigns[name]
            if isinstance(v, ast.Name) and v.id != name:   # alias: a = an
                r = self.resolve_name(mod, v.id, _depth + 1)
                if r is not None:
                    return r
            return ("assign", mod.name, v)
        if name in mod.imports:
            m, attr = mod.imports[name]
            if name in mod.internal:
                if attr is None:
                    return ("module", m)
                return self.resolve_name(m, attr, _depth + 1)
            return ("ext", m if attr is None else f"{m}.{attr}")
        return None

    def resolve_dotted(self, mod: Union[str, ModuleInfo], expr: ast.AST):
        """Resolve `Name` or `mod.attr` chains that denote a function/class/external."""
        if isinstance(expr, ast.Name):
            return self.resolve_name(mod, expr.id)
        if isinstance(expr, ast.Attribute):
            base = self.resolve_dotted(mod, expr.value)
            if base is None:
                return None
            if isinstance(base, tuple) and base[0] == "ext":
                return ("ext", f"{base[1]}.{expr.attr}")
            if isinstance(base, tuple) and base[0] == "module":
                return self.resolve_name(base[1], expr.attr)
            if isinstance(base, ClassInfo):
                m = base.lookup(expr.attr)
                if m is not None:
                    return m
                for c in base.mro:
                    if expr.attr in c.class_attrs:
                        return ("classattr", c, expr.attr)
                    for f in c.own_fields:
                        if f.name == expr.attr:
                            return ("classattr", c, expr.attr)
                return None
        return None

    def _resolve_bases(self):
        for ci in self.classes.values():
            for b in ci.base_exprs:
                e = b
                if isinstance(e, ast.Subscript):   # Generic[T] / SymbolicExpression[T]
                    e = e.value
                r = self.resolve_dotted(ci.module, e)
                if isinstance(r, ClassInfo):
                    ci.bases.append(r)
                    r.subclasses.append(ci)
                else:
                    ci.external_bases.append(unparse(e))

    def _compute_mros(self):
        done: Dict[str, List[ClassInfo]] = {}

        def mro(c: ClassInfo, stack=()) -> List[ClassInfo]:
            if c.qualname in done:
                return done[c.qualname]
            if c.qualname in stack:
                raise AnalysisError(f"inheritance cycle at {c.qualname}")
            seqs = [list(mro(b, stack + (c.qualname,))) for b in c.bases] + [list(c.bases)]
            res = [c]
            seqs = [s for s in seqs if s]
            while seqs:
                for s in seqs:
                    cand = s[0]
                    if not any(cand in t[1:] for t in seqs):
                        break
                else:
                    raise AnalysisError(f"inconsistent MRO for {c.qualname}")
                res.append(cand)
                seqs = [[x for x in s if x is not cand] for s in seqs]
                seqs = [s for s in seqs if s]
            done[c.qualname] = res
            return res

        for c in self.classes.values():
            c.mro = mro(c)

    # ------------------------------------------------------------------ helpers
    def cls(self, name: str, required=True) -> Optional[ClassInfo]:
        cs = self.class_by_name.get(name, [])
        if len(cs) == 1:
            return cs[0]
        if not cs:
            if required:
                raise AnalysisError(f"anchor vanished: class {name} not found in the package")
            return None
        raise AnalysisError(f"class name {name} is ambiguous: {[c.qualname for c in cs]}")

    def fn(self, qualname: str, required=True) -> Optional[FuncInfo]:
        f = self.functions.get(qualname)
        if f is None and required:
            raise AnalysisError(f"anchor vanished: function {qualname} not found")
        return f

    def method(self, cls_name: str, meth: str, required=True, inherited=True) -> Optional[FuncInfo]:
        c = self.cls(cls_name, required)
        if c is None:
            return None
        m = c.lookup(meth) if inherited else c.methods.get(meth)
        if m is None and required:
            raise AnalysisError(f"anchor vanished: method {cls_name}.{meth} not found")
        return m

    def parent(self, node: ast.AST) -> Optional[ast.AST]:
        return self._parents.get(id(node))

    def all_functions(self) -> List[FuncInfo]:
        return list(self.functions.values())

    def overrides(self, base: str, meth: str) -> List[FuncInfo]:
        """All definitions of `meth` in `base` and its subclasses (own definitions only)."""
        c = self.cls(base)
        out = []
        for s in c.all_subclasses():
            if meth in s.methods:
                out.append(s.methods[meth])
        return sorted(out, key=lambda f: f.qualname)

    def annotation_classes(self, mod: str, ann: Optional[ast.AST]) -> List[ClassInfo]:
        """Package classes named in an annotation (Optional[X], X[T], Dict[str, X], 'X' strings...)."""
        out: List[ClassInfo] = []
        if ann is None:
            return out
        if isinstance(ann, ast.Constant) and isinstance(ann.value, str):
            try:
                ann = ast.parse(ann.value, mode="eval").body
            except SyntaxError:
                return out
        for n in ast.walk(ann):
            if isinstance(n, ast.Name):
                r = self.resolve_name(mod, n.id)
                if isinstance(r, ClassInfo) and r not in out:
                    out.append(r)
            elif isinstance(n, ast.Constant) and isinstance(n.value, str):
                try:
                    sub = ast.parse(n.value, mode="eval").body
                except SyntaxError:
                    continue
                for c in self.annotation_classes(mod, sub):
                    if c not in out:
                        out.append(c)
        return out

    def public_names(self) -> Dict[str, object]:
        init = self.modules.get("__init__")
        out = {}
        if not init:
            return out
        for local, (m, attr) in init.imports.items():
            if local in init.internal and attr is not None:
                out[local] = self.resolve_name(m, attr)
        return out
