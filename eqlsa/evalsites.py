"""
Model of the evaluation protocol's call sites: for every call `X._evaluate*(…)` in the package, who X is (resolved to
a field of the enclosing class), which binding and which yield_when_false it passes, and how the result is consumed.
Shared by C02 (binding discipline), C07 (laziness), C11 (inference), C16, C19 (value roles).
"""
from __future__ import annotations

import ast
from dataclasses import dataclass, field
from typing import Dict, List, Optional, Set, Tuple

from .db import ProgramDB, FuncInfo, ClassInfo, AnalysisError, unparse, own_nodes, dotted
from .facts import own_calls, call_attr, local_defs, bind_args, fn_params, returns_of


def is_eval_name(name: Optional[str]) -> bool:
    return bool(name) and name.startswith("_evaluate")


@dataclass
class EvalSite:
    fn: FuncInfo
    call: ast.Call
    method: str
    receiver: ast.AST
    origins: List[str]              # 'self', 'super', 'self.left', 'self.selected_variables[*]', 'param:domain', ...
    binding: Optional[ast.AST]      # expression passed for the callee's `sources`
    ywf: Tuple                      # ('const', v) | ('expr', ast) | ('default', ast or None)
    loops: List[ast.AST]            # enclosing for-loops / comprehension generators whose iterable is an evaluation stream
    consumer: str                   # 'for' | 'comp' | 'next' | 'yield-from' | 'assigned:<name>' | 'returned' | 'other'
    consumer_node: Optional[ast.AST] = None

    @property
    def key(self) -> str:
        return f"{self.fn.short}[{unparse(self.call)[:70]}]"

    @property
    def line(self) -> int:
        return self.call.lineno


def _alias_property(cls: Optional[ClassInfo], attr: str) -> str:
    seen = set()
    while cls is not None and attr not in seen:
        seen.add(attr)
        g = cls.lookup(attr)
        if g is None or not g.is_property:
            break
        body = [s for s in g.node.body if not (isinstance(s, ast.Expr) and isinstance(s.value, ast.Constant))]
        if len(body) == 1 and isinstance(body[0], ast.Return) and isinstance(body[0].value, ast.Attribute) \
                and isinstance(body[0].value.value, ast.Name) and body[0].value.value.id == "self":
            attr = body[0].value.attr
        elif len(body) == 1 and isinstance(body[0], ast.Return) and isinstance(body[0].value, ast.IfExp):
            # e.g. Entity.selected_variable -> self.selected_variables[0] if ... else None
            v = body[0].value.body
            if isinstance(v, ast.Subscript) and isinstance(v.value, ast.Attribute) and isinstance(v.value.value, ast.Name) \
                    and v.value.value.id == "self":
                return v.value.attr + "[*]"
            break
        else:
            break
    return attr


class SiteModel:
    def __init__(self, db: ProgramDB):
        self.db = db
        self.sites: List[EvalSite] = []
        self._callers: Dict[str, List[Tuple[FuncInfo, ast.Call]]] = {}
        for fn in db.all_functions():
            for c in own_calls(fn):
                nm = call_attr(c)
                if nm and isinstance(c.func.value, ast.Name) and c.func.value.id == "self":
                    self._callers.setdefault(nm, []).append((fn, c))
        for fn in db.all_functions():
            for c in own_calls(fn):
                if is_eval_name(call_attr(c)):
                    self.sites.append(self._site(fn, c))

    # ------------------------------------------------------------------ origins
    def origins(self, fn: FuncInfo, e: ast.AST, depth=0) -> List[str]:
        cls = fn.cls
        if isinstance(e, ast.Name) and e.id == "self":
            return ["self"]
        if isinstance(e, ast.Call) and isinstance(e.func, ast.Name) and e.func.id == "super":
            return ["super"]
        if isinstance(e, ast.Attribute) and isinstance(e.value, ast.Name) and e.value.id == "self":
            return ["self." + _alias_property(cls, e.attr)]
        if isinstance(e, ast.Attribute) and not (isinstance(e.value, ast.Name) and e.value.id == "self"):
            base = self.origins(fn, e.value, depth)
            return [f"{o}.{e.attr}" for o in base]
        if isinstance(e, ast.Subscript):
            return [o + "[*]" if not o.endswith("[*]") else o for o in self.origins(fn, e.value, depth)]
        if isinstance(e, (ast.List, ast.Tuple)):
            out = []
            for x in e.elts:
                out += [o if o.endswith("[*]") else o + "[*]" for o in self.origins(fn, x, depth)]
            return out or ["?"]
        if isinstance(e, ast.IfExp):
            return sorted(set(self.origins(fn, e.body, depth) + self.origins(fn, e.orelse, depth)))
        if isinstance(e, ast.Call) and isinstance(e.func, ast.Attribute) and e.func.attr in ("values", "items", "keys") \
                and not e.args:
            return self.origins(fn, e.func.value, depth)
        if isinstance(e, ast.Call) and isinstance(e.func, ast.Name) and e.func.id in ("list", "tuple", "sorted", "reversed", "iter") \
                and len(e.args) == 1:
            return self.origins(fn, e.args[0], depth)
        if isinstance(e, ast.Name):
            if depth > 4:
                return ["?"]
            # a name bound by an enclosing comprehension refers to that comprehension's generator only
            p = self.db.parent(e)
            while p is not None and p is not fn.node:
                if isinstance(p, (ast.DictComp, ast.ListComp, ast.SetComp, ast.GeneratorExp)):
                    for g in p.generators:
                        tn = [x.id for x in ast.walk(g.target) if isinstance(x, ast.Name)]
                        if e.id in tn and not any(x is e for x in ast.walk(g.target)):
                            return [o if o.endswith("[*]") else o + "[*]" for o in self.origins(fn, g.iter, depth + 1)]
                p = self.db.parent(p)
            defs = local_defs(fn).get(e.id)
            if defs:
                out: List[str] = []
                for d in defs:
                    if isinstance(d, tuple):
                        kind = d[0]
                        if kind == "iter":
                            it = d[1]
                            # `for k, v in X.items()`: only the value position is an expression
                            for o in self.origins(fn, it, depth + 1):
                                out.append(o if o.endswith("[*]") else o + "[*]")
                        elif kind == "unpack":
                            src, idx = d[1], d[2]
                            if isinstance(src, tuple) and src[0] == "iter":
                                for o in self.origins(fn, src[1], depth + 1):
                                    out.append(o if o.endswith("[*]") else o + "[*]")
                            elif isinstance(src, ast.Call) and isinstance(src.func, ast.Attribute) \
                                    and isinstance(src.func.value, ast.Name) and src.func.value.id == "self" and cls:
                                m = cls.lookup(src.func.attr)
                                if m is not None:
                                    for r in returns_of(m):
                                        if isinstance(r.value, ast.Tuple) and 0 <= idx < len(r.value.elts):
                                            out += self.origins(m, r.value.elts[idx], depth + 1)
                                        elif r.value is not None:
                                            out.append("?")
                            elif isinstance(src, ast.AST):
                                # (k, v) = pairs[0]: an element of whatever the expression holds
                                for o in self.origins(fn, src, depth + 1):
                                    out.append(o if o.endswith("[*]") else o + "[*]")
                            else:
                                out.append("?")
                        elif kind == "with":
                            out.append("?")
                        else:
                            out.append("?")
                    elif isinstance(d, ast.AST):
                        out += self.origins(fn, d, depth + 1)
                return sorted(set(out)) or ["?"]
            if e.id in fn.params:
                # parameter: resolve through self-callers inside the class hierarchy (one level)
                res: List[str] = []
                for caller, call in self._callers.get(fn.name, []):
                    if caller.cls is None or fn.cls is None:
                        continue
                    if not (caller.cls.is_subclass_of(fn.cls) or fn.cls.is_subclass_of(caller.cls)):
                        continue
                    try:
                        amap = bind_args(fn_params(fn), call)
                    except AnalysisError:
                        continue
                    if e.id in amap and depth < 3:
                        if caller.qualname == fn.qualname:
                            continue      # a recursive call passes (a slice of) the same parameter on
                        res += [o for o in self.origins(caller, amap[e.id], depth + 2)
                                if o != "?" and not o.startswith("param:")]
                if res:
                    return sorted(set(res))
                return [f"param:{e.id}"]
        return ["?"]

    # ------------------------------------------------------------------ site
    def _site(self, fn: FuncInfo, c: ast.Call) -> EvalSite:
        recv = c.func.value
        method = c.func.attr
        origins = self.origins(fn, recv)
        # callee signature: resolve on the static receiver where possible, else on the protocol base
        callee = None
        if origins in (["self"], ["super"]) and fn.cls is not None:
            callee = fn.cls.lookup(method) if origins == ["self"] else next(
                (k.methods[method] for k in fn.cls.mro[1:] if method in k.methods), None)
        if callee is None:
            se = self.db.cls("SymbolicExpression")
            callee = se.lookup(method)
            if callee is None:
                for k in se.all_subclasses():
                    if method in k.methods:
                        callee = k.methods[method]
                        break
        binding, ywf = None, ("default", None)
        if callee is not None:
            try:
                amap = bind_args(fn_params(callee), c)
            except AnalysisError:
                amap = {}
            pnames = [p for p, _ in fn_params(callee)]
            bname = "sources" if "sources" in pnames else (pnames[0] if pnames else None)
            if bname and bname in amap:
                binding = amap[bname]
            if "yield_when_false" in amap:
                v = amap["yield_when_false"]
                ywf = ("const", v.value) if isinstance(v, ast.Constant) else ("expr", v)
            else:
                ywf = ("default", callee.param_default("yield_when_false"))
        loops = self._enclosing_stream_loops(fn, c)
        consumer, cnode = self._consumer(fn, c)
        return EvalSite(fn, c, method, recv, origins, binding, ywf, loops, consumer, cnode)

    def _is_stream_expr(self, fn: FuncInfo, e: ast.AST, depth=0) -> bool:
        """e evaluates to (something iterating) an evaluation stream."""
        if isinstance(e, ast.Call) and is_eval_name(call_attr(e)):
            # a conclusion is applied to a row and returns the row (its _evaluate__ is no generator)
            try:
                origins = self.origins(fn, e.func.value) if isinstance(e.func, ast.Attribute) else []
            except Exception:
                origins = []
            if origins and all("_conclusion_" in o for o in origins):
                concl = self.db.cls("Conclusion", required=False)
                if concl is not None:
                    impls = [c.methods.get(call_attr(e)) for c in [concl] + concl.all_subclasses()]
                    impls = [m for m in impls if m is not None]
                    if impls and not any(m.is_generator for m in impls):
                        return False
            return True
        if isinstance(e, ast.Call):
            d = dotted(e.func) or ""
            if d.split(".")[-1] in ("generate_combinations", "lazy_iterate_dicts", "map", "filter", "iter", "zip",
                                    "enumerate", "product", "chain"):
                return any(self._is_stream_expr(fn, a, depth + 1) for a in e.args) or \
                    any(isinstance(a, ast.Starred) and self._is_stream_expr(fn, a.value, depth + 1) for a in e.args)
            if isinstance(e.func, ast.Attribute) and isinstance(e.func.value, ast.Name) and e.func.value.id == "self" \
                    and fn.cls is not None:
                m = fn.cls.lookup(e.func.attr)
                if m is not None and m.is_generator and depth < 2:
                    # a generator helper of the class that itself iterates evaluation streams
                    return any(isinstance(x, ast.Call) and is_eval_name(call_attr(x)) for x in own_nodes(m.node)) or \
                        any(isinstance(x, ast.Call) and (dotted(x.func) or "").endswith("generate_combinations")
                            for x in own_nodes(m.node))
            if isinstance(e.func, ast.Attribute) and e.func.attr in ("values", "items"):
                return self._is_stream_expr(fn, e.func.value, depth + 1)
        if isinstance(e, (ast.DictComp,)):
            return self._is_stream_expr(fn, e.value, depth + 1)
        if isinstance(e, (ast.GeneratorExp, ast.ListComp, ast.SetComp)):
            return self._is_stream_expr(fn, e.elt, depth + 1) or any(
                self._is_stream_expr(fn, g.iter, depth + 1) for g in e.generators)
        if isinstance(e, ast.Dict):
            return any(self._is_stream_expr(fn, v, depth + 1) for v in e.values)
        if isinstance(e, ast.Starred):
            return self._is_stream_expr(fn, e.value, depth + 1)
        if isinstance(e, ast.Name) and depth < 4:
            for d in local_defs(fn).get(e.id, []):
                if isinstance(d, ast.AST) and self._is_stream_expr(fn, d, depth + 1):
                    return True
        return False

    def stream_loops(self, fn: FuncInfo) -> List[ast.AST]:
        """for-statements and comprehension generators of fn that iterate an evaluation stream."""
        out = []
        for n in own_nodes(fn.node):
            if isinstance(n, (ast.For, ast.AsyncFor)) and self._is_stream_expr(fn, n.iter):
                out.append(n)
            elif isinstance(n, ast.comprehension) and self._is_stream_expr(fn, n.iter):
                out.append(n)
        return out

    def _enclosing_stream_loops(self, fn: FuncInfo, node: ast.AST) -> List[ast.AST]:
        out = []
        child = node
        p = self.db.parent(node)
        while p is not None and p is not fn.node:
            if isinstance(p, (ast.For, ast.AsyncFor)) and any(child is s or _contains(s, child) for s in p.body + p.orelse):
                if self._is_stream_expr(fn, p.iter):
                    out.append(p)
            child = p
            p = self.db.parent(p)
        return list(reversed(out))

    def _consumer(self, fn: FuncInfo, c: ast.Call) -> Tuple[str, Optional[ast.AST]]:
        p = self.db.parent(c)
        if isinstance(p, (ast.For, ast.AsyncFor)) and p.iter is c:
            return "for", p
        if isinstance(p, ast.comprehension) and p.iter is c:
            return "comp", p
        if isinstance(p, ast.YieldFrom):
            return "yield-from", p
        if isinstance(p, ast.Call) and dotted(p.func) in ("next", "iter"):
            q = p
            while isinstance(self.db.parent(q), ast.Call) and dotted(self.db.parent(q).func) in ("next", "iter"):
                q = self.db.parent(q)
            return ("next" if dotted(q.func) == "next" or dotted(p.func) == "next" else "iter"), q
        if isinstance(p, ast.Assign) and len(p.targets) == 1 and isinstance(p.targets[0], ast.Name):
            return f"assigned:{p.targets[0].id}", p
        if isinstance(p, ast.Return):
            return "returned", p
        if isinstance(p, (ast.DictComp,)):
            return "dict-of-streams", p
        if isinstance(p, ast.Call):
            return f"arg-of:{dotted(p.func) or '?'}", p
        return "other", p


def _contains(root: ast.AST, node: ast.AST) -> bool:
    for x in ast.walk(root):
        if x is node:
            return True
    return False


_MODEL_CACHE: Dict[str, SiteModel] = {}


def site_model(db: ProgramDB) -> SiteModel:
    k = db.digest()
    if k not in _MODEL_CACHE:
        _MODEL_CACHE[k] = SiteModel(db)
    return _MODEL_CACHE[k]
