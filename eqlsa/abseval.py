"""
Finite abstract evaluation of small functions over their CFG.

Values are tokens, never Python objects of the analysed program:

  ('const', v)     a Python literal (None, True, False, numbers, strings)
  ('sym', dotted)  a resolved external / module-level name, e.g. ('sym', 'operator.lt')
  ('fn', qualname) a function object of the package (incl. nested defs)
  ('cls', qualname)
  ('obj', tag)     an opaque object with a known truthiness / None-ness ('truthy', 'falsy', 'notnone', or a
                   rule-chosen tag, which is truthy)
  TOP              unknown

A state maps tracked variables (locals by name, ``self.<attr>`` as 'self.attr') to one value.
Unknown branch conditions fork the state (both edges), refining the tested variable where
the test has a recognised shape.  The state space is finite, loops reach a fixed point.
This is abstract interpretation on a finite lattice: no formula is built, no solver asked.
"""
from __future__ import annotations

import ast
from typing import Dict, Tuple, Any, Optional, Set, Callable, List, FrozenSet

from .db import ProgramDB, FuncInfo, ClassInfo, dotted, unparse, AnalysisError
from .cfg import CFG, Node, Edge, run_forward

TOP = ("top",)
EMPTY = ("empty",)       # an empty container literal: falsy, not None, contains nothing
NONE = ("const", None)
TRUE = ("const", True)
FALSE = ("const", False)


def const(v):
    return ("const", v)


def truth(v) -> Optional[bool]:
    if v == TOP:
        return None
    if v == EMPTY:
        return False
    k = v[0]
    if k == "const":
        try:
            return bool(v[1])
        except Exception:
            return None
    if k == "obj":
        if v[1] == "falsy":
            return False
        if v[1] == "notnone":
            return None
        return True
    if k == "tuple":
        return len(v[1]) > 0
    return True   # sym / fn / cls


def is_none(v) -> Optional[bool]:
    if v == TOP:
        return None
    if v == NONE:
        return True
    if v[0] == "obj" and v[1] == "falsy":
        return None
    return False


class State:
    """Immutable mapping with structural equality."""
    __slots__ = ("items", "_h")

    def __init__(self, d: Dict[str, Any] = None):
        self.items: Tuple[Tuple[str, Any], ...] = tuple(sorted((d or {}).items(), key=lambda kv: kv[0]))
        self._h = hash(self.items)

    def get(self, k, default=TOP):
        for kk, v in self.items:
            if kk == k:
                return v
        return default

    def has(self, k) -> bool:
        return any(kk == k for kk, _ in self.items)

    def set(self, k, v) -> "State":
        d = dict(self.items)
        d[k] = v
        return State(d)

    def drop(self, k) -> "State":
        d = dict(self.items)
        d.pop(k, None)
        return State(d)

    def as_dict(self):
        return dict(self.items)

    def __hash__(self):
        return self._h

    def __eq__(self, o):
        return isinstance(o, State) and o.items == self.items

    def __repr__(self):
        return "{" + ", ".join(f"{k}={fmt(v)}" for k, v in self.items) + "}"


def fmt(v) -> str:
    if v == TOP:
        return "?"
    if v == EMPTY:
        return "<empty>"
    if v[0] == "const":
        return repr(v[1])
    if v[0] == "tuple":
        return "(" + ", ".join(fmt(x) for x in v[1]) + ")"
    return f"{v[1]}"


class AbsEval:
    """
    hooks:
      call_hook(call_ast, state, ev) -> value or None        value of a call expression (None: unknown -> TOP)
      stmt_hook(node, state, ev) -> state or None             replaces the default transfer of a node
      post_hook(node, state_in, state_out, ev) -> state       adjusts the state after the default transfer
      attr_hook(attr_ast, state, ev) -> value or None         value of an attribute read not otherwise known
    `tracked_self`: names of self attributes to track (None = all that are assigned).
    """

    def __init__(self, db: ProgramDB, fn: FuncInfo, cfg: CFG = None, self_cls: ClassInfo = None,
                 call_hook=None, stmt_hook=None, post_hook=None, attr_hook=None, self_name="self"):
        self.db = db
        self.fn = fn
        self.cfg = cfg or CFG(fn)
        self.cls = self_cls or fn.cls
        self.call_hook = call_hook
        self.stmt_hook = stmt_hook
        self.post_hook = post_hook
        self.attr_hook = attr_hook
        self.self_name = self_name

    # ---------------------------------------------------------------- expressions
    def _alias(self, attr: str) -> str:
        """self.<attr> where attr is a property whose getter is `return self.<other>` reads <other>."""
        seen = set()
        while self.cls is not None and attr not in seen:
            seen.add(attr)
            g = self.cls.lookup(attr)
            if g is None or not g.is_property:
                break
            body = [s for s in g.node.body if not (isinstance(s, ast.Expr) and isinstance(s.value, ast.Constant))]
            if len(body) == 1 and isinstance(body[0], ast.Return) and isinstance(body[0].value, ast.Attribute) \
                    and isinstance(body[0].value.value, ast.Name) and body[0].value.value.id == "self":
                attr = body[0].value.attr
            else:
                break
        return attr

    def var_key(self, e: ast.AST) -> Optional[str]:
        if isinstance(e, ast.Name):
            return e.id
        if isinstance(e, ast.Attribute) and isinstance(e.value, ast.Name) and e.value.id == self.self_name:
            return f"self.{self._alias(e.attr)}"
        return None

    def eval(self, e: ast.AST, st: State) -> Set[Any]:
        """Set of possible abstract values (1 element unless a sub-expression is unknown in a way that matters)."""
        if isinstance(e, ast.Constant):
            return {const(e.value)}
        if isinstance(e, ast.Name):
            if st.has(e.id):
                return {st.get(e.id)}
            return {self._global(e)}
        if isinstance(e, ast.Attribute):
            k = self.var_key(e)
            if k is not None and st.has(k):
                return {st.get(k)}
            if k is None:
                g = self._global(e)
                if g != TOP:
                    return {g}
            if self.attr_hook:
                v = self.attr_hook(e, st, self)
                if v is not None:
                    return {v}
            return {TOP}
        if isinstance(e, ast.UnaryOp) and isinstance(e.op, ast.Not):
            out = set()
            for v in self.eval(e.operand, st):
                t = truth(v)
                out |= {TRUE, FALSE} if t is None else {const(not t)}
            return out
        if isinstance(e, ast.BoolOp):
            results = set()
            self._boolop(e.op, e.values, st, results)
            return results
        if isinstance(e, ast.IfExp):
            out = set()
            for c in self.eval(e.test, st):
                t = truth(c)
                if t is None or t:
                    out |= self.eval(e.body, st)
                if t is None or not t:
                    out |= self.eval(e.orelse, st)
            return out
        if isinstance(e, ast.Compare) and len(e.ops) == 1:
            ls = self.eval(e.left, st)
            rs = self.eval(e.comparators[0], st)
            out = set()
            for l in ls:
                for r in rs:
                    out |= self._compare(e.ops[0], l, r)
            return out
        if isinstance(e, (ast.Dict, ast.List, ast.Set, ast.Tuple)) and not (e.keys if isinstance(e, ast.Dict) else e.elts):
            return {EMPTY}
        if isinstance(e, ast.Tuple):
            parts = [self.eval(x, st) for x in e.elts]
            if all(len(p) == 1 for p in parts):
                return {("tuple", tuple(next(iter(p)) for p in parts))}
            return {TOP}
        if isinstance(e, ast.Call):
            if self.call_hook:
                v = self.call_hook(e, st, self)
                if v is not None:
                    return v if isinstance(v, set) else {v}
            f = dotted(e.func)
            if f == "bool" and len(e.args) == 1:
                out = set()
                for v in self.eval(e.args[0], st):
                    t = truth(v)
                    out |= {TRUE, FALSE} if t is None else {const(t)}
                return out
            return {TOP}
        if isinstance(e, ast.NamedExpr):
            return self.eval(e.value, st)
        if isinstance(e, ast.BinOp) and isinstance(e.op, (ast.Add, ast.Sub)):
            out = set()
            for l in self.eval(e.left, st):
                for r in self.eval(e.right, st):
                    if l[0] == "const" and r[0] == "const" and isinstance(l[1], int) and isinstance(r[1], int) \
                            and not isinstance(l[1], bool) or (l[0] == "const" and r[0] == "const"
                                                                 and isinstance(l[1], (int, bool)) and isinstance(r[1], (int, bool))):
                        out.add(const(int(l[1]) + int(r[1]) if isinstance(e.op, ast.Add) else int(l[1]) - int(r[1])))
                    else:
                        out.add(TOP)
            return out
        return {TOP}

    def _boolop(self, op, values, st, results):
        first, rest = values[0], values[1:]
        for v in self.eval(first, st):
            if not rest:
                results.add(v)
                continue
            t = truth(v)
            if isinstance(op, ast.Or):
                if t is None or t:
                    results.add(v if t else (("obj", "truthy") if v == TOP else v))
                if t is None or not t:
                    self._boolop(op, rest, st, results)
            else:
                if t is None or not t:
                    results.add(v if t is False else (("obj", "falsy") if v == TOP else v))
                if t is None or t:
                    self._boolop(op, rest, st, results)

    def _compare(self, op, l, r) -> Set[Any]:
        both = {TRUE, FALSE}
        if isinstance(op, (ast.Is, ast.IsNot, ast.Eq, ast.NotEq)):
            neg = isinstance(op, (ast.IsNot, ast.NotEq))
            eq = None
            if r == NONE or l == NONE:
                other = l if r == NONE else r
                n = is_none(other)
                eq = n
            elif l != TOP and r != TOP and l[0] == "obj" and r[0] == "obj" and str(l[1]).startswith("#") \
                    and str(r[1]).startswith("#"):
                eq = (l == r)          # identity tokens chosen by a rule: distinct tags are distinct objects
            elif l == TOP or r == TOP or l[0] == "obj" or r[0] == "obj" or l == EMPTY or r == EMPTY:
                eq = None
            elif l[0] in ("const", "sym", "fn", "cls", "tuple") and r[0] in ("const", "sym", "fn", "cls", "tuple"):
                eq = (l == r)
            if eq is None:
                return both
            return {const(eq != neg)}
        if isinstance(op, (ast.In, ast.NotIn)):
            if r == EMPTY:
                return {const(isinstance(op, ast.NotIn))}
            if r[0] == "tuple" and l != TOP and all(x != TOP for x in r[1]):
                res = l in r[1]
                return {const(res != isinstance(op, ast.NotIn))}
            return both
        if l[0] == "const" and r[0] == "const":
            try:
                a, b = l[1], r[1]
                res = {ast.Lt: a < b, ast.LtE: a <= b, ast.Gt: a > b, ast.GtE: a >= b}[type(op)]
                return {const(res)}
            except Exception:
                return both
        return both

    def _global(self, e: ast.AST):
        # a nested def of the analysed function?
        if isinstance(e, ast.Name):
            f = self.fn
            while f is not None:
                if e.id in f.nested:
                    return ("fn", f.nested[e.id].qualname)
                f = f.parent
        r = self.db.resolve_dotted(self.fn.module, e)
        if isinstance(r, FuncInfo):
            return ("fn", r.qualname)
        if isinstance(r, ClassInfo):
            return ("cls", r.qualname)
        if isinstance(r, tuple) and r[0] == "ext":
            return ("sym", r[1])
        if isinstance(r, tuple) and r[0] == "assign":
            v = r[2]
            if isinstance(v, ast.Constant):
                return const(v.value)
        if isinstance(e, ast.Name) and e.id in ("True", "False", "None"):
            return const({"True": True, "False": False, "None": None}[e.id])
        return TOP

    # ---------------------------------------------------------------- statements
    def assign(self, target: ast.AST, vals: Set[Any], st: State) -> State:
        k = self.var_key(target)
        if k is None:
            if isinstance(target, (ast.Tuple, ast.List)):
                v = next(iter(vals)) if len(vals) == 1 else TOP
                for idx, t in enumerate(target.elts):
                    sub = v[1][idx] if (v != TOP and v[0] == "tuple" and idx < len(v[1])) else TOP
                    st = self.assign(t, {sub}, st)
            return st
        v = next(iter(vals)) if len(vals) == 1 else self._merge(vals)
        return st.set(k, v)

    @staticmethod
    def _merge(vals: Set[Any]):
        ts = {truth(v) for v in vals}
        if ts == {True}:
            return ("obj", "truthy")
        if ts == {False}:
            return ("obj", "falsy")
        return TOP

    def transfer(self, node: Node, st: State) -> State:
        if self.stmt_hook:
            r = self.stmt_hook(node, st, self)
            if r is not None:
                return r
        out = self._default_transfer(node, st)
        if self.post_hook:
            out = self.post_hook(node, st, out, self)
        return out

    def _default_transfer(self, node: Node, st: State) -> State:
        a = node.ast
        if node.kind == "stmt":
            if isinstance(a, ast.Assign):
                vals = self.eval(a.value, st)
                for t in a.targets:
                    st = self.assign(t, vals, st)
                return st
            if isinstance(a, ast.AnnAssign) and a.value is not None:
                return self.assign(a.target, self.eval(a.value, st), st)
            if isinstance(a, ast.AugAssign):
                k = self.var_key(a.target)
                if k is not None:
                    cur = st.get(k)
                    rv = self.eval(a.value, st)
                    r = next(iter(rv)) if len(rv) == 1 else TOP
                    if cur[0] == "const" and r[0] == "const" and isinstance(a.op, ast.Add):
                        try:
                            return st.set(k, const(cur[1] + r[1]))
                        except Exception:
                            pass
                    return st.set(k, TOP)
                return st
            if isinstance(a, (ast.FunctionDef, ast.AsyncFunctionDef)):
                nested = self.fn.nested.get(a.name)
                return st.set(a.name, ("fn", nested.qualname) if nested else TOP)
            return st
        if node.kind == "for":
            return self._clobber_target(a.target, st)
        if node.kind == "with_enter":
            if node.item.optional_vars is not None:
                return self._clobber_target(node.item.optional_vars, st)
            return st
        if node.kind == "except":
            if node.item.name:
                return st.set(node.item.name, ("obj", "exc"))
            return st
        if node.kind == "match":
            vals = self.eval(a, st)
            v = next(iter(vals)) if len(vals) == 1 else TOP
            return st.set(f"$match{id(node.stmt)}", v)
        return st

    def _clobber_target(self, t, st):
        if isinstance(t, ast.Name):
            return st.set(t.id, TOP)
        if isinstance(t, (ast.Tuple, ast.List)):
            for x in t.elts:
                st = self._clobber_target(x, st)
        return st

    # ---------------------------------------------------------------- edges
    def refine(self, test: ast.AST, st: State, outcome: bool) -> Optional[State]:
        """State after `test` evaluated to `outcome`; None if impossible."""
        vals = self.eval(test, st)
        ts = {truth(v) for v in vals}
        if None not in ts and outcome not in ts:
            return None
        # refinement of tracked variables
        if isinstance(test, ast.UnaryOp) and isinstance(test.op, ast.Not):
            return self.refine(test.operand, st, not outcome)
        if isinstance(test, ast.BoolOp):
            if isinstance(test.op, ast.And) and outcome:
                for v in test.values:
                    st = self.refine(v, st, True)
                    if st is None:
                        return None
                return st
            if isinstance(test.op, ast.Or) and not outcome:
                for v in test.values:
                    st = self.refine(v, st, False)
                    if st is None:
                        return None
                return st
            return st
        k = self.var_key(test)
        if k is not None:
            cur = st.get(k)
            if truth(cur) is None:
                if cur == TOP or cur == ("obj", "notnone"):
                    st = st.set(k, ("obj", "truthy") if outcome else ("obj", "falsy"))
            return st
        if isinstance(test, ast.Compare) and len(test.ops) == 1:
            op = test.ops[0]
            l, r = test.left, test.comparators[0]
            k = self.var_key(l)
            if k is not None and isinstance(op, (ast.Is, ast.IsNot, ast.Eq, ast.NotEq)):
                rv = self.eval(r, st)
                if len(rv) == 1:
                    rv = next(iter(rv))
                    positive = isinstance(op, (ast.Is, ast.Eq)) == outcome
                    cur = st.get(k)
                    if positive and rv != TOP and rv[0] in ("const", "sym", "fn", "cls"):
                        if cur == TOP or cur[0] == "obj":
                            st = st.set(k, rv)
                    elif not positive and rv == NONE and cur == TOP:
                        st = st.set(k, ("obj", "notnone"))
        return st

    def edge_transfer(self, e: Edge, node: Node, st_in: State, st_out: State) -> Optional[State]:
        # a labelled edge leaves a test that *completed* with that outcome, whatever kind of transfer it continues
        # (a pending exception resuming after `if q is not None: ...` at the end of a finally body is still labelled F)
        if node.kind == "test" and e.label in ("T", "F") and (e.kind == "n" or e.resume):
            return self.refine(node.ast, st_out, e.label == "T")
        if node.kind == "case" and e.label in ("case", "nocase") and (e.kind == "n" or e.resume):
            return self._case_edge(node, st_out, e.label == "case")
        if e.kind != "n":
            return st_out if e.resume else st_in
        return st_out

    def _case_edge(self, node: Node, st: State, taken: bool) -> Optional[State]:
        case = node.item
        subj = st.get(f"$match{id(node.stmt)}")
        m = self._pattern_match(case.pattern, subj, st)
        if case.guard is not None and m is not False:
            g = {truth(v) for v in self.eval(case.guard, st)}
            if g == {False}:
                m = False
            elif g != {True}:
                m = None if m is not False else False
        if taken:
            if m is False:
                return None
            if case.guard is not None:
                return self.refine(case.guard, st, True)
            return st
        else:
            if m is True:
                return None
            return st

    def _pattern_match(self, p, subj, st) -> Optional[bool]:
        if isinstance(p, ast.MatchAs) and p.pattern is None:
            return True
        if isinstance(p, ast.MatchValue):
            vals = self.eval(p.value, st)
            if len(vals) == 1 and subj != TOP:
                r = self._compare(ast.Eq(), subj, next(iter(vals)))
                if len(r) == 1:
                    return next(iter(r))[1]
            return None
        if isinstance(p, ast.MatchSingleton):
            r = self._compare(ast.Is(), subj, const(p.value))
            return next(iter(r))[1] if len(r) == 1 else None
        if isinstance(p, ast.MatchOr):
            rs = [self._pattern_match(x, subj, st) for x in p.patterns]
            if any(r is True for r in rs):
                return True
            if all(r is False for r in rs):
                return False
            return None
        return None

    # ---------------------------------------------------------------- driver
    def run(self, init: State, kinds=("n", "e", "s")) -> Dict[int, Set[State]]:
        return run_forward(self.cfg, init, self.transfer, self.edge_transfer, kinds=kinds)


    def explore(self, starts, goal, blocked=None, kinds=("n", "e", "s"), edge_ok=None, max_states=50000):
        """
        Abstract-state-aware path query: breadth-first search over (node, state) pairs from `starts`
        [(node id, State)], following the transfer functions, never entering a `blocked(node)` node.
        Returns the list of edges of a shortest path to a node satisfying goal(node), or None.
        Correlated branch tests (`if q is not None` tested twice) are therefore followed consistently.
        """
        from collections import deque
        prev = {}
        dq = deque()
        for nid, st in starts:
            key = (nid, st)
            if key not in prev:
                prev[key] = None
                dq.append(key)
        first = set(prev)
        while dq:
            key = dq.popleft()
            nid, st = key
            node = self.cfg.nodes[nid]
            if key not in first and goal(node):
                path = []
                k = key
                while prev[k] is not None:
                    pk, e = prev[k]
                    path.append(e)
                    k = pk
                return list(reversed(path))
            if key in first and goal(node) and not self.cfg.succ[nid]:
                return []
            out = self.transfer(node, st)
            for e in self.cfg.succ[nid]:
                if e.kind not in kinds:
                    continue
                if edge_ok is not None and not edge_ok(e, node):
                    continue
                s2 = self.edge_transfer(e, node, st, out)
                if s2 is None:
                    continue
                dst = self.cfg.nodes[e.dst]
                if blocked is not None and blocked(dst) and not goal(dst):
                    continue
                k2 = (e.dst, s2)
                if k2 in prev:
                    continue
                if len(prev) > max_states:
                    raise AnalysisError(f"{self.fn.qualname}: abstract state space exceeded {max_states}")
                prev[k2] = (key, e)
                dq.append(k2)
        return None
