"""Single-edit variants for the thorough tier (checker sensitivity).  See sensitivity.py."""
from __future__ import annotations

from typing import Dict, List

from .sensitivity import Variant as V

S = "symbolic"


def c01() -> List[V]:
    return [
        V("lt-as-le", S, "CanBehaveLikeAVariable.__lt__", "operator.lt", "operator.le", rule="OPDEN"),
        V("le-as-lt", S, "CanBehaveLikeAVariable.__le__", "operator.le", "operator.lt", rule="OPDEN"),
        V("ge-as-gt", S, "CanBehaveLikeAVariable.__ge__", "operator.ge", "operator.gt", rule="OPDEN"),
        V("gt-swapped-operands", S, "CanBehaveLikeAVariable.__gt__", "Comparator(self, other, operator.gt)",
          "Comparator(other, self, operator.gt)", rule="OPDEN"),
        V("ne-as-eq", S, "CanBehaveLikeAVariable.__ne__", "operator.ne", "operator.eq", rule="OPDEN"),
        V("in-swapped", "entity", "in_", "Comparator(container, item, operator.contains)",
          "Comparator(item, container, operator.contains)", rule="OPDEN"),
        V("contains-not-swapping", "entity", "contains", "return in_(item, container)", "return in_(container, item)",
          rule="OPDEN"),
        V("apply-swapped", S, "Comparator.apply_operation",
          "self.operation(operand_values[self.left._id_].value, operand_values[self.right._id_].value)",
          "self.operation(operand_values[self.right._id_].value, operand_values[self.left._id_].value)", rule="OPDEN"),
        V("is-false-not-negated", S, "Comparator._evaluate__", "self._is_false_ = not res", "self._is_false_ = res",
          rule="CMP-TRUTH"),
        V("false-rows-never-yielded", S, "Comparator._evaluate__", "if res or yield_when_false:", "if res:",
          rule="CMP-TRUTH"),
        V("all-rows-yielded", S, "Comparator._evaluate__", "if res or yield_when_false:", "if True:",
          rule="CMP-TRUTH"),
        V("second-operand-reads-first", S, "Comparator._evaluate__", "second_value[second_operand._id_]",
          "second_value[first_operand._id_]", rule="OPERAND-VALUES"),
        V("twin-lt-mirrored", S, "CanBehaveLikeAVariable.__lt__", "Comparator(self, other, operator.lt)",
          "Comparator(other, self, operator.gt)", kind="twin"),
        V("twin-contains-direct", "entity", "contains", "return in_(item, container)",
          "return Comparator(container, item, operator.contains)", kind="twin"),
        V("twin-keyword-construction", S, "CanBehaveLikeAVariable.__le__", "Comparator(self, other, operator.le)",
          "Comparator(left=self, right=other, operation=operator.le)", kind="twin"),
        V("twin-truth-rephrased", S, "Comparator._evaluate__", "if res or yield_when_false:",
          "if not (not res and not yield_when_false):", kind="twin"),
    ]


def c03() -> List[V]:
    return [
        V("table-lt-to-gt", S, "Comparator._invert_@setter", "case operator.lt:\n                self.operation = operator.ge",
          "case operator.lt:\n                self.operation = operator.gt", rule="NEG-TABLE"),
        V("table-eq-stays", S, "Comparator._invert_@setter", "case operator.eq:\n                self.operation = operator.ne",
          "case operator.eq:\n                self.operation = operator.eq", rule="NEG-TABLE"),
        V("table-le-to-ge", S, "Comparator._invert_@setter", "case operator.le:\n                self.operation = operator.gt",
          "case operator.le:\n                self.operation = operator.ge", rule="NEG-TABLE"),
        V("table-contains-stays", S, "Comparator._invert_@setter", "self.operation = not_contains",
          "self.operation = operator.contains", rule="NEG-TABLE"),
        V("no-way-back-from-not-contains", S, "Comparator._invert_@setter",
          "            case _ if self.operation is not_contains:\n                self.operation = operator.contains\n", "",
          rule="NEG-INVOLUTION"),
        V("leaf-sets-true", S, "Not", "operand._invert_ = not operand._invert_", "operand._invert_ = True",
          rule="NEG-INVOLUTION"),
        V("not-and-builds-and", S, "Not", "operand = ElseIf(Not(operand.left), Not(operand.right))",
          "operand = AND(Not(operand.left), Not(operand.right))", rule="NEG-DEMORGAN"),
        V("not-or-keeps-left", S, "Not", "operand = AND(Not(operand.left), Not(operand.right))",
          "operand = AND(operand.left, Not(operand.right))", rule="NEG-DEMORGAN"),
        V("not-entity-drops-negation", S, "Not", "elif isinstance(operand, Entity):\n        operand = operand.__class__(Not(operand._child_), operand.selected_variables)",
          "elif isinstance(operand, Entity):\n        operand = operand.__class__(operand._child_, operand.selected_variables)",
          rule="NEG-DEMORGAN"),
        V("mapping-ignores-invert", S, "DomainMapping._evaluate__",
          "if (not self._invert_ and v.value) or (self._invert_ and not v.value):", "if v.value:", rule="NEG-TRUTH"),
        V("predicate-ignores-invert", S, "Variable._process_output_and_update_values_",
          "self._is_false_ = result_truthy if self._invert_ else not result_truthy", "self._is_false_ = not result_truthy",
          rule="NEG-TRUTH"),
        V("mapping-flag-flipped", S, "DomainMapping._evaluate__", "                    self._is_false_ = False\n                else:\n                    self._is_false_ = True",
          "                    self._is_false_ = True\n                else:\n                    self._is_false_ = False", rule="NEG-TRUTH"),
        V("twin-not-and-optimize-or", S, "Not", "operand = ElseIf(Not(operand.left), Not(operand.right))",
          "operand = _optimize_or(Not(operand.left), Not(operand.right))", kind="twin"),
        V("twin-leaf-plain-toggle", S, "Not", "operand._invert_ = not operand._invert_",
          "operand._invert_ = False if operand._invert_ else True", kind="twin"),
        V("twin-mapping-truth-as-xor", S, "DomainMapping._evaluate__",
          "if (not self._invert_ and v.value) or (self._invert_ and not v.value):", "if bool(v.value) != self._invert_:",
          kind="twin"),
        V("twin-de-morgan-operands-swapped", S, "Not", "operand = AND(Not(operand.left), Not(operand.right))",
          "operand = AND(Not(operand.right), Not(operand.left))", kind="twin"),
    ]


def c04() -> List[V]:
    return [
        V("an-reset-after-loop-only", S, "An.evaluate", "                results.close()\n            # also when the iterator is closed or dropped before it is exhausted, or user code raised.\n            self._reset_cache_()",
          "                results.close()\n        self._reset_cache_()", rule="RESET-ALL-EXITS"),
        V("the-reset-on-success-only", S, "The.evaluate", "        finally:\n            # also when no solution or multiple solutions were found, or user code raised.\n            self._reset_cache_()",
          "        finally:\n            pass\n        self._reset_cache_()", rule="RESET-ALL-EXITS"),
        V("an-no-rollback", S, "An.evaluate", "            self._clear_result_caches_()\n            raise", "            raise",
          rule="COVERAGE-AFTER-COMPLETION"),
        V("the-no-rollback", S, "The.evaluate", "            self._clear_result_caches_()\n            raise", "            raise",
          rule="COVERAGE-AFTER-COMPLETION"),
        V("rollback-only-on-exception", S, "An.evaluate", "        except BaseException:\n            # the evaluation did not run",
          "        except Exception:\n            # the evaluation did not run", rule="COVERAGE-AFTER-COMPLETION"),
        V("rollback-forgets-caches", S, "BinaryOperator._clear_only_my_result_caches_",
          "        for cache in vars(self).values():\n            if isinstance(cache, IndexedCache):\n                cache.clear()",
          "        self._cache_.clear()", rule="COVERAGE-AFTER-COMPLETION"),
        V("selector-state-not-reset", "conclusion_selector", "ConclusionSelector._reset_only_my_cache_",
          "        self.concluded_before = {True: {}, False: {}}\n", "", rule="EVAL-STATE-RESET"),
        V("selector-conclusions-not-reset", "conclusion_selector", "ConclusionSelector._reset_only_my_cache_",
          "        self._conclusion_.clear()\n", "", rule="EVAL-STATE-RESET"),
        V("dedup-state-not-reset", S, "SymbolicExpression._reset_only_my_cache_", "        self._seen_parent_values_by_parent_ = {}\n", "",
          rule="EVAL-STATE-RESET"),
        V("forall-keeps-solutions", S, "ForAll._evaluate__", "        # Always reset per evaluation\n        self.solution_set = []\n", "",
          rule="EVAL-STATE-RESET"),
        V("domain-sorted-in-place", S, "Variable._update_domain_", "        if domain is not None:\n            new_domain = None",
          "        if domain is not None:\n            domain.sort()\n            new_domain = None", rule="NO-DOMAIN-MUTATION"),
        V("new-seen-field-never-reset", S, "AND._evaluate__", "                left_value.update(sources)\n",
          "                left_value.update(sources)\n                if self.seen_left_values.check(left_value):\n                    continue\n                self.seen_left_values.add(left_value)\n",
          rule="EVAL-STATE-RESET"),
        V("twin-reset-before-use", S, "The.evaluate", "        try:\n            # like an(...).evaluate()",
          "        self._reset_cache_()\n        try:\n            # like an(...).evaluate()", kind="twin"),
        V("twin-reset-via-fresh-dict", S, "SymbolicExpression._reset_only_my_cache_", "self._seen_parent_values_by_parent_ = {}",
          "self._seen_parent_values_by_parent_ = dict()", kind="twin"),
        V("twin-explicit-cache-clear", S, "BinaryOperator._clear_only_my_result_caches_",
          "        for cache in vars(self).values():\n            if isinstance(cache, IndexedCache):\n                cache.clear()",
          "        self._cache_.clear()\n        for name in ('right_cache', 'left_cache'):\n            if hasattr(self, name):\n                getattr(self, name).clear()\n        for cache in vars(self).values():\n            if isinstance(cache, IndexedCache):\n                cache.clear()",
          kind="twin"),
    ]


def c06() -> List[V]:
    return [
        V("no-solution-falls-through", S, "The._evaluate_", "                raise NoSolutionFound(self._child_)", "                pass",
          rule="THE-OUTCOME"),
        V("second-solution-accepted", S, "The._evaluate_", "                raise MultipleSolutionFound(result, sol)", "                result = sol",
          rule="THE-OUTCOME"),
        V("wrong-exception", S, "The._evaluate_", "raise NoSolutionFound(self._child_)", "raise MultipleSolutionFound(None, None)",
          rule="THE-OUTCOME"),
        V("false-flag-sticks", S, "The._evaluate_", "        self._is_false_ = result is None\n",
          "        self._is_false_ = True\n", rule="THE-OUTCOME"),
        V("the-reset-on-success-only", S, "The.evaluate", "        finally:\n            # also when no solution or multiple solutions were found, or user code raised.\n            self._reset_cache_()",
          "        finally:\n            pass\n        self._reset_cache_()", rule="RESET-ALL-EXITS"),
        V("the-own-projection", S, "The.evaluate", "return self._process_result_(result)", "return result[self._var_._id_].value",
          rule="PROJECTION-SHARED"),
        V("twin-flag-computed", S, "The._evaluate_", "        self._is_false_ = result is None\n",
          "        self._is_false_ = not (result is not None)\n", kind="twin"),
    ]


def c08() -> List[V]:
    return [
        V("yield-under-mode", S, "An.evaluate", "                    result = self._process_result_(result)\n                yield result",
          "                    result = self._process_result_(result)\n                    yield result", rule="NO-YIELD-UNDER-MODE"),
        V("restore-not-in-finally", S, "symbolic_mode", "    finally:\n        if query is not None:\n            query.__exit__()\n        if hidden_stack is not None:\n            SymbolicExpression._symbolic_expression_stack_ = hidden_stack\n        _set_symbolic_mode(prev_mode)",
          "    finally:\n        if query is not None:\n            query.__exit__()\n        if hidden_stack is not None:\n            SymbolicExpression._symbolic_expression_stack_ = hidden_stack\n    _set_symbolic_mode(prev_mode)", rule="MODE-PAIRING"),
        V("restore-constant", S, "symbolic_mode", "        _set_symbolic_mode(prev_mode)", "        _set_symbolic_mode(None)", rule="MODE-PAIRING"),
        V("query-exit-skipped-on-error", S, "symbolic_mode", "    finally:\n        if query is not None:\n            query.__exit__()\n        if hidden_stack is not None:\n            SymbolicExpression._symbolic_expression_stack_ = hidden_stack\n        _set_symbolic_mode(prev_mode)",
          "        if query is not None:\n            query.__exit__()\n    finally:\n        if hidden_stack is not None:\n            SymbolicExpression._symbolic_expression_stack_ = hidden_stack\n        _set_symbolic_mode(prev_mode)", rule="MODE-PAIRING"),
        V("foreign-mode-writer", S, "QueryObjectDescriptor.__post_init__", "        super().__post_init__()\n        if in_symbolic_mode(EQLMode.Rule):",
          "        super().__post_init__()\n        _set_symbolic_mode(_symbolic_mode.get())\n        if in_symbolic_mode(EQLMode.Rule):", rule="MODE-WRITER"),
        V("getitem-unguarded", S, "CanBehaveLikeAVariable.__getitem__", "        self._if_not_in_symbolic_mode_raise_error_('__getitem__')\n", "",
          rule="OP-GUARD"),
        V("eq-unguarded", S, "CanBehaveLikeAVariable.__eq__", "        self._if_not_in_symbolic_mode_raise_error_('__eq__')\n", "", rule="OP-GUARD"),
        V("guard-helper-toothless", S, "SymbolicExpression._if_not_in_symbolic_mode_raise_error_", "            raise AttributeError(",
          "            logger.warning(", rule="OP-GUARD"),
        V("enter-pushes-conditionally", S, "SymbolicExpression.__enter__", "        SymbolicExpression._symbolic_expression_stack_.append(node)",
          "        if node is not self:\n            SymbolicExpression._symbolic_expression_stack_.append(node)", rule="STACK-PAIRING"),
        V("exit-pops-twice", S, "SymbolicExpression.__exit__", "        SymbolicExpression._symbolic_expression_stack_.pop()",
          "        SymbolicExpression._symbolic_expression_stack_.pop()\n        SymbolicExpression._symbolic_expression_stack_.pop()",
          rule="STACK-PAIRING"),
        V("hybrid-registers-before-branch", "predicate", "symbol.hybrid_new", "        if in_symbolic_mode():\n            return symbolic_new(symbolic_cls, *args, **kwargs)",
          "        instance = instantiate_class_and_update_cache(symbolic_cls, original_new, *args, **kwargs)\n        if in_symbolic_mode():\n            return symbolic_new(symbolic_cls, *args, **kwargs)",
          rule="MODE-BRANCH"),
        V("predicate-always-calls", "predicate", "predicate.wrapper", "        if in_symbolic_mode():", "        function(*args, **kwargs)\n        if in_symbolic_mode():",
          rule="MODE-BRANCH"),
        V("rule-mode-sets-mode-itself", S, "rule_mode", "    with symbolic_mode(query, EQLMode.Rule) as ctx:\n        yield ctx",
          "    _set_symbolic_mode(EQLMode.Rule)\n    yield SymbolicExpression._current_parent_()", rule="MODE-WRITER"),
        V("twin-guard-inline", S, "CanBehaveLikeAVariable.__getitem__", "        self._if_not_in_symbolic_mode_raise_error_('__getitem__')\n",
          "        if not in_symbolic_mode():\n            raise AttributeError('not in symbolic mode')\n", kind="twin"),
        V("twin-restore-then-exit", S, "symbolic_mode", "    finally:\n        if query is not None:\n            query.__exit__()\n        if hidden_stack is not None:\n            SymbolicExpression._symbolic_expression_stack_ = hidden_stack\n        _set_symbolic_mode(prev_mode)",
          "    finally:\n        _set_symbolic_mode(prev_mode)\n        if hidden_stack is not None:\n            SymbolicExpression._symbolic_expression_stack_ = hidden_stack\n        if query is not None:\n            query.__exit__()", kind="twin"),
    ]


def c09() -> List[V]:
    return [
        V("an-evaluates-in-ambient-mode", S, "An.evaluate", "                with symbolic_mode(mode=None, _evaluation_stack=blocks_opened_by_user_code):\n                    try:",
          "                if True:\n                    try:", rule="MODE-OFF-DOM"),
        V("the-evaluates-in-ambient-mode", S, "The.evaluate", "            with symbolic_mode(mode=None):\n                result = self._evaluate_()",
          "            if True:\n                result = self._evaluate_()", rule="MODE-OFF-DOM"),
        V("the-forces-query-mode", S, "The.evaluate", "            with symbolic_mode(mode=None):\n                result = self._evaluate_()",
          "            with symbolic_mode():\n                result = self._evaluate_()", rule="MODE-OFF-DOM"),
        V("first-result-pulled-outside", S, "An.evaluate", "        results = self._evaluate__()\n",
          "        results = self._evaluate__()\n        first = next(results, None)\n", rule="MODE-OFF-DOM"),
        V("twin-mode-positional", S, "The.evaluate", "with symbolic_mode(mode=None):", "with symbolic_mode(None, None):", kind="twin"),
    ]


def c12() -> List[V]:
    return [
        V("refinement-no-relink", "rule", "refinement",
          "    if isinstance(prev_parent, BinaryOperator):\n        # evaluation follows the operands of the parent operator, so the operand that was the refined node has to\n        # become the new ExceptIf node.\n        if prev_parent.left is current_node:\n            prev_parent.left = new_conditions_root\n        else:\n            prev_parent.right = new_conditions_root\n",
          "", rule="TREE-SURGERY"),
        V("refinement-right-only", "rule", "refinement",
          "        if prev_parent.left is current_node:\n            prev_parent.left = new_conditions_root\n        else:\n            prev_parent.right = new_conditions_root\n",
          "        prev_parent.right = new_conditions_root\n", rule="TREE-SURGERY"),
        V("alternative-no-relink", "rule", "alternative_or_next",
          "    if isinstance(prev_parent, BinaryOperator):\n        prev_parent.right = new_conditions_root\n", "", rule="TREE-SURGERY"),
        V("alternative-not-reattached", "rule", "alternative_or_next", "    new_conditions_root._parent_ = prev_parent\n", "",
          rule="TREE-SURGERY"),
        V("alternative-left-of-exceptif-not-retargeted", "rule", "alternative_or_next",
          "        elif isinstance(current_node._parent_, ExceptIf) and current_node is current_node._parent_.left:\n            current_node = current_node._parent_\n",
          "", rule="TREE-SURGERY"),
        V("twin-refinement-explicit-else", "rule", "refinement",
          "        else:\n            prev_parent.right = new_conditions_root\n",
          "        elif prev_parent.right is current_node:\n            prev_parent.right = new_conditions_root\n", kind="twin"),
    ]


def c13() -> List[V]:
    return [
        V("from-slot-counted", "predicate", "update_domain_and_kwargs_from_args", "init_args[i + 1 - (1 if domain is not None else 0)]",
          "init_args[i + 1]", rule="SLOT-ALIGN"),
        V("self-not-skipped", "predicate", "update_domain_and_kwargs_from_args", "init_args[i + 1 - (1 if domain is not None else 0)]",
          "init_args[i - (1 if domain is not None else 0)]", rule="SLOT-ALIGN"),
        V("filter-by-closure-class", "predicate", "extract_selected_variable_and_expression", "isinstance(v, symbolic_cls)",
          "isinstance(v, Predicate)", rule="DECL-FILTER"),
        V("no-type-filter", "predicate", "extract_selected_variable_and_expression",
          "        domain = From(filter(lambda v: isinstance(v, symbolic_cls), domain.domain))", "        pass", rule="DECL-FILTER"),
        V("closure-class-threaded", "predicate", "symbol.hybrid_new", "return symbolic_new(symbolic_cls, *args, **kwargs)",
          "return symbolic_new(cls, *args, **kwargs)", rule="DECL-FILTER"),
        V("fields-compared-with-ne", S, "properties_to_expression_tree", "getattr(var, k) == v", "getattr(var, k) != v", rule="FIELD-EQ"),
        V("first-field-only", S, "properties_to_expression_tree", "for k, v in properties.items()]", "for k, v in list(properties.items())[:1]]",
          rule="FIELD-EQ"),
        V("twin-separate-counter", "predicate", "update_domain_and_kwargs_from_args",
          "    for i, arg in enumerate(args):\n        if isinstance(arg, From):\n            domain = arg\n            if i > 0:",
          "    for i, arg in enumerate(args):\n        if isinstance(arg, From):\n            domain = arg\n            if i != 0:", kind="twin"),
        V("twin-filter-genexp", "predicate", "extract_selected_variable_and_expression",
          "domain = From(filter(lambda v: isinstance(v, symbolic_cls), domain.domain))",
          "domain = From((v for v in domain.domain if isinstance(v, symbolic_cls)))", kind="twin"),
    ]


def c14() -> List[V]:
    return [
        V("keyed-by-type-of-base", "predicate", "instantiate_class_and_update_cache",
          "    Variable._cache_[symbolic_cls].insert(kwargs, HashedValue(instance, id(instance)), index=index)",
          "    Variable._cache_[symbolic_cls.__mro__[-2]].insert(kwargs, HashedValue(instance, id(instance)), index=index)", rule="REG-KEY"),
        V("registration-conditional", "predicate", "instantiate_class_and_update_cache",
          "    Variable._cache_[symbolic_cls].insert(kwargs, HashedValue(instance, id(instance)), index=index)",
          "    if kwargs or not index:\n        Variable._cache_[symbolic_cls].insert(kwargs, HashedValue(instance, id(instance)), index=index)", rule="REG-MUST"),
        V("registered-twice", "predicate", "instantiate_class_and_update_cache",
          "    Variable._cache_[symbolic_cls].insert(kwargs, HashedValue(instance, id(instance)), index=index)\n    return instance",
          "    Variable._cache_[symbolic_cls].insert(kwargs, HashedValue(instance, id(instance)), index=index)\n    Variable._cache_[symbolic_cls].insert({}, HashedValue(instance), index=False)\n    return instance", rule="REG-MUST"),
        V("object-of-another-type-registered", "predicate", "instantiate_class_and_update_cache",
          "        if not isinstance(instance, symbolic_cls):\n", "        if instance is None:\n", rule="REG-ONLY-INSTANCES"),
        V("lookup-superclasses", "cache_data", "get_cache_keys_for_class_", "issubclass(t, clazz)", "issubclass(clazz, t)", rule="REG-LOOKUP"),
        V("lookup-exact-class", "cache_data", "get_cache_keys_for_class_", "isinstance(t, type) and issubclass(t, clazz)", "t is clazz", rule="REG-LOOKUP"),
        V("symbolic-arm-registers", "predicate", "symbol.symbolic_new", "        node = SymbolicExpression._current_parent_()",
          "        node = SymbolicExpression._current_parent_()\n        instantiate_class_and_update_cache(symbolic_cls, original_new)", rule="REG-BRANCH"),
        V("foreign-registry-clear", S, "SymbolicExpression._reset_only_my_cache_", "        self._eval_parent_ = None",
          "        self._eval_parent_ = None\n        Variable._cache_.clear()", rule="REG-WRITER"),
        V("evaluation-prunes-registry", S, "Variable._search_and_yield_from_cache_", "        unwrapped_hashed_kwargs = None",
          "        unwrapped_hashed_kwargs = None\n        self._cache_[self._type_].clear()", rule="REG-WRITER"),
        V("hybrid-skips-registration", "predicate", "symbol.hybrid_new",
          "            instance = instantiate_class_and_update_cache(symbolic_cls, original_new, *args, **kwargs)",
          "            instance = original_new(symbolic_cls)", rule="REG-MUST"),
    ]


def c17() -> List[V]:
    return [
        V("row-per-binding", S, "Concatenate._evaluate__", "        result = {self._id_: HashedValue(all_values[self._id_])}\n        result.update(sources)\n        yield result",
          "            result = {self._id_: HashedValue(all_values[self._id_])}\n            result.update(sources)\n            yield result", rule="CONCAT-ONCE"),
        V("no-row-when-empty", S, "Concatenate._evaluate__", "        result.update(sources)\n        yield result",
          "        result.update(sources)\n        if all_values[self._id_]:\n            yield result", rule="CONCAT-ONCE"),
        V("twin-own-entry-by-defaultdict", S, "Concatenate._evaluate__", "        all_values[self._id_] = []\n", "", kind="twin",
          note="since the row reads all_values[self._id_] from a defaultdict(list) after the loop, the explicit initialisation is redundant"),
        V("incoming-bindings-aggregated", S, "Concatenate._evaluate__", "        result.update(sources)\n", "", rule="CONCAT-ONCE"),
        V("twin-row-as-dict-display", S, "Concatenate._evaluate__", "        result = {self._id_: HashedValue(all_values[self._id_])}\n        result.update(sources)\n        yield result",
          "        yield {self._id_: HashedValue(all_values[self._id_]), **sources}", kind="twin"),
        V("dedup-accumulation", S, "Concatenate._evaluate__", "                    all_values[self._id_].extend(child_v_unwrapped)",
          "                    if child_v_unwrapped not in all_values[self._id_]:\n                        all_values[self._id_].extend(child_v_unwrapped)",
          rule="CONCAT-ONCE"),
        V("signature-without-flag", S, "Concatenate._evaluate__", ", yield_when_false: bool = False) \\\n            -> Iterable[Dict[int, HashedValue]]:\n        sources = sources or {}\n        if self._id_ in sources:\n            yield sources\n            return\n        all_values",
          ") \\\n            -> Iterable[Dict[int, HashedValue]]:\n        sources = sources or {}\n        if self._id_ in sources:\n            yield sources\n            return\n        all_values",
          rule="EVAL-SIGNATURE"),
        V("forall-renames-flag", S, "ForAll._evaluate__", "yield_when_false: bool = False) -> Iterable[Dict[int, HashedValue]]:\n        sources = sources or {}\n\n        # Always reset",
          "include_false: bool = False) -> Iterable[Dict[int, HashedValue]]:\n        sources = sources or {}\n\n        # Always reset", rule="EVAL-SIGNATURE"),
    ]


def c20() -> List[V]:
    return [
        V("clear-forgets-flat", "cache_data", "IndexedCache.clear", "        self.flat_cache.clear()\n", "", rule="CLEAR-COMPLETE"),
        V("clear-forgets-seen", "cache_data", "IndexedCache.clear", "        self.seen_set.clear()\n", "", rule="CLEAR-COMPLETE"),
        V("seenset-clear-keeps-flag", "cache_data", "SeenSet.clear", "        self.all_seen = False\n", "", rule="CLEAR-COMPLETE"),
        V("branches-share-binding", "cache_data", "IndexedCache.retrieve", "local_result = copy(result)", "local_result = result",
          rule="RESULT-NO-ALIAS"),
        V("lookup-aliased", "cache_data", "IndexedCache.retrieve", "result = copy(assignment)", "result = assignment", rule="RESULT-NO-ALIAS"),
        V("twin-dict-copy", "cache_data", "IndexedCache.retrieve", "local_result = copy(result)", "local_result = dict(result)", kind="twin"),
    ]


def c05() -> List[V]:
    return [
        V("comparator-reads-regardless", S, "Comparator._evaluate__", "        if self._caching_enabled_():\n            if self._cache_.check(sources):",
          "        if True:\n            if self._cache_.check(sources):", rule="CACHE-SWITCH"),
        V("and-reads-regardless", S, "AND._evaluate__", "if self._caching_enabled_() and self.right_cache.check(left_value):",
          "if self.right_cache.check(left_value):", rule="CACHE-SWITCH"),
        V("union-reads-when-disabled", S, "Union._evaluate__", "if self._caching_enabled_() and self._cache_.check(sources):",
          "if not self._caching_enabled_() and self._cache_.check(sources):", rule="CACHE-SWITCH"),
        V("exceptif-or-instead-of-and", "conclusion_selector", "ExceptIf._evaluate__", "if self._caching_enabled_() and self.right_cache.check(left_value):",
          "if self._caching_enabled_() or self.right_cache.check(left_value):", rule="CACHE-SWITCH"),
        V("twin-switch-noop-both-sides", S, "BinaryOperator.update_cache", "        if not self._caching_enabled_():\n            return\n", "",
          kind="twin", note="writes unguarded too: the switch becomes a no-op and the property holds trivially; reads stay guarded"),
        V("twin-nested-if", S, "AND._evaluate__", "                if self._caching_enabled_() and self.right_cache.check(left_value):\n                    yield from self.yield_final_output_from_cache(left_value, self.right_cache,\n                                                                  yield_when_false=yield_when_false)\n                    continue",
          "                if self._caching_enabled_():\n                    if self.right_cache.check(left_value):\n                        yield from self.yield_final_output_from_cache(left_value, self.right_cache, yield_when_false=yield_when_false)\n                        continue",
          kind="twin"),
    ]


def c10() -> List[V]:
    return [
        V("union-instead-of-intersection", S, "ForAll._evaluate__",
          "self.solution_set = [d for d in self.solution_set if tuple(sorted(d.items())) in current_set]",
          "self.solution_set = self.solution_set + [d for d in current if d not in self.solution_set]", rule="FORALL-MONOTONE"),
        V("empty-value-skipped", S, "ForAll._evaluate__", "            if not current:\n                self.solution_set = []\n",
          "            if not current:\n                continue\n            if False:\n", rule="FORALL-MONOTONE"),
        V("empty-value-stops-without-emptying", S, "ForAll._evaluate__", "            if not current:\n                self.solution_set = []\n",
          "            if not current:\n", rule="FORALL-MONOTONE"),
        V("every-value-reseeds", S, "ForAll._evaluate__", "            if var_val_index == 0:", "            if True:", rule="FORALL-MONOTONE"),
        V("first-value-filters-empty", S, "ForAll._evaluate__", "            if var_val_index == 0:", "            if var_val_index == 1:", rule="FORALL-MONOTONE"),
        V("not-reset", S, "ForAll._evaluate__", "        # Always reset per evaluation\n        self.solution_set = []\n", "", rule="FORALL-MONOTONE"),
        V("negated-membership", S, "ForAll._evaluate__", "if tuple(sorted(d.items())) in current_set]", "if tuple(sorted(d.items())) not in current_set]",
          rule="FORALL-MONOTONE"),
        V("false-rows-accumulated", S, "ForAll._evaluate__", "                if self.condition._is_false_:\n                    continue\n", "",
          rule="FORALL-PER-VALUE"),
        V("condition-ignores-universal-value", S, "ForAll._evaluate__", "self.condition._evaluate__(ctx)", "self.condition._evaluate__(sources)",
          rule="FORALL-PER-VALUE"),
        V("stops-after-first-value", S, "ForAll._evaluate__", "            var_val_index += 1\n", "            var_val_index += 1\n            break\n",
          rule="FORALL-MONOTONE"),
        V("twin-counter-as-flag", S, "ForAll._evaluate__", "            # Early exit if the intersection is empty\n            if not self.solution_set:\n",
          "            # Early exit if the intersection is empty\n            if len(self.solution_set) == 0:\n", kind="twin"),
    ]


REGISTRY = {"C01": c01, "C03": c03, "C04": c04, "C05": c05, "C06": c06, "C08": c08, "C09": c09, "C10": c10, "C12": c12,
            "C13": c13, "C14": c14, "C17": c17, "C20": c20}


def c02() -> List[V]:
    return [
        V("and-right-ignores-left", S, "AND._evaluate__", "self.right._evaluate__(left_value, yield_when_false=yield_when_false)",
          "self.right._evaluate__(sources, yield_when_false=yield_when_false)", rule="BIND-THREAD"),
        V("second-operand-unbound", S, "Comparator._evaluate__", "second_operand._evaluate_as_value_(first_value)",
          "second_operand._evaluate_as_value_(sources)", rule="BIND-THREAD"),
        V("elseif-right-ignores-left", S, "ElseIf._evaluate__", "right_values = self.right._evaluate__(left_value, yield_when_false=yield_when_false)",
          "right_values = self.right._evaluate__(sources, yield_when_false=yield_when_false)", rule="BIND-THREAD"),
        V("descriptor-drops-sources", S, "QueryObjectDescriptor._evaluate_", "child_values = self._child_._evaluate__(sources, yield_when_false=yield_when_false)",
          "child_values = self._child_._evaluate__({}, yield_when_false=yield_when_false)", rule="BIND-THREAD"),
        V("selected-expression-unbound", S, "QueryObjectDescriptor._bind_selected_variables_", "selected_vars[0]._evaluate_as_value_(copy(binding))",
          "selected_vars[0]._evaluate_as_value_()", rule="BIND-THREAD"),
        V("selected-expression-projected", S, "QueryObjectDescriptor._bind_selected_variables_", "            extended_binding.update(value)\n",
          "            extended_binding[selected_vars[0]._id_] = value[selected_vars[0]._id_]\n", rule="BIND-KEEP"),
        V("and-drops-right-binding", S, "AND._evaluate__", "                        output = copy(right_value)\n                        output.update(left_value)",
          "                        output = copy(left_value)", rule="BIND-KEEP"),
        V("comparator-drops-second-binding", S, "Comparator._evaluate__", "                    values.update(second_value)\n", "", rule="BIND-KEEP"),
        V("mapping-fresh-dict", S, "DomainMapping._evaluate__", "                values = copy(child_v)", "                values = {self._child_._id_: child_v[self._child_._id_]}",
          rule="BIND-KEEP"),
        V("lockstep-combinations", "utils", "generate_combinations", "    for combination in combine(0):\n        yield dict(zip(keys, combination))",
          "    for combination in zip(*iterators):\n        yield dict(zip(keys, combination))", rule="PRODUCT"),
        V("selected-in-lockstep", S, "QueryObjectDescriptor._evaluate_", "yield from self._bind_selected_variables_(list(selected_vars), v)",
          "for sol in lazy_iterate_dicts({var: var._evaluate_as_value_(copy(v)) for var in selected_vars}):\n                        w = copy(v)\n                        for d in sol.values():\n                            w.update(d)\n                        yield w",
          rule="PRODUCT"),
        V("twin-and-merge-order", S, "AND._evaluate__", "                        output = copy(right_value)\n                        output.update(left_value)",
          "                        output = copy(left_value)\n                        output.update(right_value)", kind="twin"),
        V("twin-binding-dict-merge", S, "ForAll._evaluate__", "ctx = {**sources, **var_val}", "ctx = copy(sources)\n            ctx.update(var_val)", kind="twin"),
    ]


def c16() -> List[V]:
    return [
        V("flatten-dedup", S, "Flatten._apply_mapping_", "        for inner_v in inner_iter:\n            yield HashedValue(inner_v)",
          "        for inner_v in set(inner_iter):\n            yield HashedValue(inner_v)", rule="FLATTEN-EACH"),
        V("flatten-skips-falsy", S, "Flatten._apply_mapping_", "        for inner_v in inner_iter:\n            yield HashedValue(inner_v)",
          "        for inner_v in inner_iter:\n            if inner_v:\n                yield HashedValue(inner_v)", rule="FLATTEN-EACH"),
        V("flatten-first-only", S, "Flatten._apply_mapping_", "            yield HashedValue(inner_v)", "            yield HashedValue(inner_v)\n            break",
          rule="FLATTEN-EACH"),
        V("scalar-not-wrapped", S, "Flatten._apply_mapping_", "            inner_iter = [inner]", "            inner_iter = []", rule="FLATTEN-EACH"),
        V("mapping-fresh-dict", S, "DomainMapping._evaluate__", "                values = copy(child_v)", "                values = {self._child_._id_: child_v[self._child_._id_]}",
          rule="BIND-KEEP"),
        V("selected-expression-projected", S, "QueryObjectDescriptor._bind_selected_variables_", "            extended_binding.update(value)\n",
          "            extended_binding[selected_vars[0]._id_] = value[selected_vars[0]._id_]\n", rule="BIND-KEEP"),
        V("twin-flatten-list-copy", S, "Flatten._apply_mapping_", "            inner_iter = [inner]", "            inner_iter = (inner,)", kind="twin"),
    ]


def c07() -> List[V]:
    return [
        V("product-drains", "utils", "generate_combinations", "    for combination in combine(0):", "    for combination in itertools.product(*iterators):",
          rule="LAZY-TAINT"),
        V("entry-materialises", S, "An.evaluate", "        results = self._evaluate__()\n", "        results = iter(list(self._evaluate__()))\n",
          rule="LAZY-TAINT"),
        V("type-filter-materialises", "predicate", "extract_selected_variable_and_expression",
          "domain = From(filter(lambda v: isinstance(v, symbolic_cls), domain.domain))",
          "domain = From(list(filter(lambda v: isinstance(v, symbolic_cls), domain.domain)))", rule="LAZY-TAINT"),
        V("and-sorts-left", S, "AND._evaluate__", "            left_values = self.left._evaluate__(sources, yield_when_false=yield_when_false)",
          "            left_values = sorted(self.left._evaluate__(sources, yield_when_false=yield_when_false), key=len)", rule="LAZY-TAINT"),
        V("domain-wrapped-eagerly", "hashed_data", "HashedIterable._wrapped_lazily_",
          "return map(lambda v: v if isinstance(v, HashedValue) else HashedValue(v), iterable)",
          "return list(map(lambda v: v if isinstance(v, HashedValue) else HashedValue(v), iterable))", rule="MEMO-ON-PULL"),
        V("pulled-element-not-stored", "hashed_data", "HashedIterable.__iter__", "            self.values[v.id_] = v\n", "", rule="MEMO-ON-PULL"),
        V("mapping-collects-children", S, "DomainMapping._evaluate__", "        for child_v in child_val:", "        for child_v in [c for c in child_val]:",
          rule="LAZY-TAINT"),
        V("let-peeks-domain", "entity", "let", "        if domain is None:\n            var = type_()", "        if domain is None or not list(domain):\n            var = type_()",
          rule="GEN-ENTRY"),
        V("evaluate-not-lazy", S, "An.evaluate", "                yield result\n", "                collected.append(result)\n", rule="GEN-ENTRY"),
        V("variable-len-domain", S, "Variable._update_domain_", "        if domain is not None:\n            new_domain = None", "        if domain is not None and len(list(domain)) >= 0:\n            new_domain = None",
          rule="GEN-ENTRY"),
        V("twin-filter-genexp", "predicate", "extract_selected_variable_and_expression",
          "domain = From(filter(lambda v: isinstance(v, symbolic_cls), domain.domain))",
          "domain = From((v for v in domain.domain if isinstance(v, symbolic_cls)))", kind="twin"),
        V("twin-yield-from-loop", S, "Variable.__iter__", "        for v in self._domain_:\n            yield {self._id_: HashedValue(v)}",
          "        yield from ({self._id_: HashedValue(v)} for v in self._domain_)", kind="twin"),
    ]


def c11() -> List[V]:
    return [
        V("args-ignore-binding", S, "Variable._bind_child_vars_", "var._evaluate_as_value_(copy(binding))", "var._evaluate_as_value_()",
          rule="INFER-THREAD"),
        V("construct-once-outside-loop", S, "Variable._bind_unbound_kwargs_and_yield_results_",
          "            instance = self._call_user_code_(self._type_, **{k: hv.value for k, hv in bound_kwargs.items()})\n            yield from",
          "            if not merged_kwargs:\n                continue\n            instance = self._call_user_code_(self._type_, **{k: hv.value for k, hv in bound_kwargs.items()})\n            yield from",
          rule="INFER-ONE-PER-BINDING"),
        V("inferred-served-from-registry", S, "Variable._yield_from_cache_or_instantiate_new_values_", "        if not self._is_inferred_ and self._is_indexed_:",
          "        if self._is_indexed_:", rule="INFER-ONE-PER-BINDING"),
        V("fields-copied", S, "Variable._instantiate_new_values_and_yield_results_", "instance = self._call_user_code_(self._type_, **{k: hv.value for k, hv in bound_kwargs.items()})",
          "instance = self._call_user_code_(self._type_, **{k: copy(hv.value) for k, hv in bound_kwargs.items()})", rule="ID-KEEP"),
        V("fields-get-wrappers", S, "Variable._instantiate_new_values_and_yield_results_", "instance = self._call_user_code_(self._type_, **{k: hv.value for k, hv in bound_kwargs.items()})",
          "instance = self._call_user_code_(self._type_, **{k: hv for k, hv in bound_kwargs.items()})", rule="ID-KEEP"),
        V("constructed-twice", S, "Variable._instantiate_new_values_and_yield_results_", "            instance = self._call_user_code_(self._type_, **{k: hv.value for k, hv in bound_kwargs.items()})\n",
          "            instance = self._call_user_code_(self._type_, **{k: hv.value for k, hv in bound_kwargs.items()})\n            instance = self._call_user_code_(self._type_, **{k: hv.value for k, hv in bound_kwargs.items()})\n",
          rule="INFER-ONE-PER-BINDING"),
    ]


def c18() -> List[V]:
    return [v for v in c01() if v.rule == "OPDEN" or (v.kind == "twin" and "truth" not in v.name)]


def c19() -> List[V]:
    return [
        V("comparator-operand-as-condition", S, "Comparator._evaluate__", "first_values = first_operand._evaluate_as_value_(sources)",
          "first_values = first_operand._evaluate__(sources)", rule="VALUE-TRUTH"),
        V("selected-as-condition", S, "Entity._evaluate__", "self.selected_variable._evaluate_as_value_(sol)", "self.selected_variable._evaluate__(sol)",
          rule="VALUE-TRUTH"),
        V("constructor-arg-as-condition", S, "Variable._bind_child_vars_", "var._evaluate_as_value_(copy(binding))", "var._evaluate__(copy(binding))",
          rule="VALUE-TRUTH"),
        V("mapping-chain-as-condition", S, "DomainMapping._evaluate__", "child_val = self._child_._evaluate_as_value_(sources)",
          "child_val = self._child_._evaluate__(sources, yield_when_false=self._yield_when_false_)", rule="VALUE-TRUTH"),
        V("mapping-flag-off", S, "DomainMapping", "    _falsy_value_is_false_: ClassVar[bool] = True\n", "", rule="VALUE-TRUTH"),
        V("everything-value-typed", S, "SymbolicExpression", "    _falsy_value_is_false_: ClassVar[bool] = False", "    _falsy_value_is_false_: ClassVar[bool] = True",
          rule="VALUE-TRUTH"),
        V("operand-forced-true", S, "Comparator._evaluate__", "second_values = second_operand._evaluate_as_value_(first_value)",
          "second_values = second_operand._evaluate__(first_value, yield_when_false=True)", rule="VALUE-TRUTH"),
        V("conclusion-value-as-condition", "conclusion", "Add._evaluate__", "self.value._evaluate_as_value_(sources)", "self.value._evaluate__(sources)",
          rule="VALUE-TRUTH"),
    ]


REGISTRY.update({"C02": c02, "C07": c07, "C11": c11, "C16": c16, "C18": c18, "C19": c19})


# ---------------------------------------------------------------------------------------------------------------------
# second batch: the rules that were added after the first round of seeded changes (each broken variant is the
# structural clause of its rule broken by one edit; each twin re-phrases the same code)
CS = "conclusion_selector"
CD = "cache_data"

_APPLY_OLD = "        return self.operation(operand_values[self.left._id_].value, operand_values[self.right._id_].value)"
_ROW_OLD = ("                    values = copy(first_value)\n                    values.update(second_value)\n"
            "                    values.update(operand_value_map)\n")
_AND_FLAG_OLD = ("                        self._is_false_ = self.right._is_false_\n"
                 "                        self.update_cache(right_value, self.right_cache)")


def _apply_always(rule="APPLY-ALWAYS"):
    return [
        V("apply-shortcut-on-none", S, "Comparator.apply_operation", _APPLY_OLD,
          "        if operand_values[self.left._id_].value is None:\n            return False\n" + _APPLY_OLD, rule=rule),
        V("apply-shortcut-on-falsy-right", S, "Comparator.apply_operation", _APPLY_OLD,
          "        if not operand_values[self.right._id_].value:\n            return self.operation is operator.ne\n" + _APPLY_OLD, rule=rule),
        V("twin-apply-through-locals", S, "Comparator.apply_operation", _APPLY_OLD,
          "        left_value = operand_values[self.left._id_].value\n        right_value = operand_values[self.right._id_].value\n"
          "        return self.operation(left_value, right_value)", kind="twin"),
    ]


def _literal_wrap(rule="LITERAL-WRAP"):
    return [
        V("literal-empty-container-unwrapped", S, "Literal.__init__", "        data = [data]\n",
          "        data = [data] if data or not is_iterable(data) else data\n", rule=rule),
        V("twin-literal-wraps-original", S, "Literal.__init__", "        data = [data]\n", "        data = [original_data]\n", kind="twin"),
    ]


def _operand_in_row(rule="OPERAND-IN-ROW"):
    return [
        V("operands-not-reasserted", S, "Comparator._evaluate__", "                    values.update(operand_value_map)\n", "", rule=rule),
        V("operands-asserted-first", S, "Comparator._evaluate__", _ROW_OLD,
          "                    values = copy(operand_value_map)\n                    values.update(first_value)\n"
          "                    values.update(second_value)\n", rule=rule),
        V("twin-row-as-dict-display", S, "Comparator._evaluate__", _ROW_OLD,
          "                    values = {**first_value, **second_value, **operand_value_map}\n", kind="twin"),
    ]


def _logic_truth(rule="LOGIC-TRUTH"):
    return [
        V("and-flag-from-left", S, "AND._evaluate__", "self._is_false_ = self.right._is_false_", "self._is_false_ = self.left._is_false_", rule=rule),
        V("and-false-left-flag-missing", S, "AND._evaluate__", "                    self._is_false_ = True\n                    if self._is_duplicate_output_(left_value):",
          "                    if self._is_duplicate_output_(left_value):", rule=rule),
        V("elseif-true-left-flag-stale", S, "ElseIf._evaluate__", "                    self._is_false_ = False\n                    yield left_value",
          "                    yield left_value", rule=rule),
        V("elseif-left-not-asked-for-false-rows", S, "ElseIf._evaluate__", "left_values = self.left._evaluate__(sources, yield_when_false=True)",
          "left_values = self.left._evaluate__(sources, yield_when_false=self._yield_when_false_)", rule=rule),
        V("elseif-false-rows-always", S, "ElseIf._evaluate__", "                            if self._is_false_ and not yield_when_false:\n                                continue\n                            if not self._is_false_:",
          "                            if not self._is_false_:", rule=rule),
        V("twin-and-flag-local", S, "AND._evaluate__", "                        self._is_false_ = self.right._is_false_\n",
          "                        right_is_false = self.right._is_false_\n                        self._is_false_ = right_is_false\n", kind="twin"),
    ]


def _cache_flag(rule="CACHE-FLAG-CONSISTENT"):
    return [
        V("and-stores-previous-flag", S, "AND._evaluate__", _AND_FLAG_OLD,
          "                        self.update_cache(right_value, self.right_cache)\n                        self._is_false_ = self.right._is_false_", rule=rule),
        V("replay-keeps-stale-flag", S, "BinaryOperator.yield_final_output_from_cache", "            self._is_false_ = is_false\n", "", rule=rule),
        V("store-constant-flag", S, "BinaryOperator.update_cache", "output=self._is_false_)", "output=False)", rule=rule),
    ]


def _dedup():
    return [
        V("dedup-key-wrong-side", S, "BinaryOperator._required_variables_from_child_", "        if child is self.left:\n            required_vars.update(self.right._unique_variables_)",
          "        if child is self.right:\n            required_vars.update(self.left._unique_variables_)", rule="DEDUP-KEY"),
        V("dedup-key-dropped", S, "BinaryOperator._required_variables_from_child_", "        if child is self.left:\n            required_vars.update(self.right._unique_variables_)\n",
          "", rule="DEDUP-KEY"),
        V("dedup-parent-dropped", S, "BinaryOperator._required_variables_from_child_",
          "            required_vars.update(self._parent_._required_variables_from_child_(self, False if when_true is False else None))\n",
          "            pass\n", rule="DEDUP-PARENT"),
        V("dedup-parent-dropped-on-or-right", S, "OR._required_variables_from_child_",
          "                    required_vars.update(conc._unique_variables_)\n            if self._parent_:\n                required_vars.update(self._parent_._required_variables_from_child_(self, when_true))\n        return required_vars",
          "                    required_vars.update(conc._unique_variables_)\n        return required_vars", rule="DEDUP-PARENT"),
        V("twin-dedup-parent-test-explicit", S, "BinaryOperator._required_variables_from_child_", "        if self._parent_:\n            # a false operand",
          "        if self._parent_ is not None:\n            # a false operand", kind="twin"),
    ]


def _no_clobber(rule="BIND-NO-CLOBBER"):
    return [
        V("and-merges-into-left-binding", S, "AND._evaluate__", "                        output = copy(right_value)\n                        output.update(left_value)",
          "                        left_value.update(right_value)\n                        output = left_value", rule=rule),
        V("exceptif-merges-into-left-binding", CS, "ExceptIf._evaluate__", "                output = left_value.copy()\n                output.update(right_value)",
          "                left_value.update(right_value)\n                output = left_value", rule=rule),
        V("twin-exceptif-dict-display", CS, "ExceptIf._evaluate__", "                output = left_value.copy()\n                output.update(right_value)",
          "                output = {**left_value, **right_value}", kind="twin"),
    ]


def _row_fresh(rule="ROW-FRESH"):
    return [
        V("mapping-copy-hoisted", S, "DomainMapping._evaluate__", "            for v in self._apply_mapping_(child_v[self._child_._id_]):\n                values = copy(child_v)\n",
          "            values = copy(child_v)\n            for v in self._apply_mapping_(child_v[self._child_._id_]):\n", rule=rule),
        V("mapping-extends-child-row", S, "DomainMapping._evaluate__", "                values = copy(child_v)\n", "                values = child_v\n", rule=rule),
    ]


def _correlated(rule="PRODUCT-CORRELATED"):
    return [
        V("arguments-as-independent-streams", S, "Variable._generate_combinations_for_child_vars_values_",
          "        yield from self._bind_child_vars_(list(self._child_vars_.items()), sources or {})",
          "        yield from generate_combinations({k: v._evaluate_as_value_(copy(sources or {})) for k, v in self._child_vars_.items()})", rule=rule),
    ]


def _abandon(rule="INTERNAL-ABANDON"):
    return [
        V("forall-empty-intersection-leaves-caches", S, "ForAll._evaluate__", "            if not self.solution_set:\n                self.variable._clear_result_caches_()\n                break",
          "            if not self.solution_set:\n                break", rule=rule),
        V("forall-failed-value-leaves-caches", S, "ForAll._evaluate__", "                self.solution_set = []\n                # the remaining values of the universal variable are not needed, but its evaluation has already\n"
          "                # recorded in its result caches that it covers them.\n                self.variable._clear_result_caches_()\n                break",
          "                self.solution_set = []\n                break", rule=rule),
    ]


def _cache_index():
    return [
        V("empty-assignment-to-flat-store", CD, "IndexedCache.insert", "        if not index:\n", "        if not index or not assignment:\n", rule="INSERT-RETRIEVABLE"),
        V("check-marks-covered", CD, "IndexedCache.check", "        # if not seen:\n        #     self.seen_set.add(assignment)\n",
          "        if not seen:\n            self.seen_set.add(assignment)\n", rule="CHECK-IS-PURE"),
        V("empty-check-marks-all-seen", CD, "SeenSet.check", "            return False\n        for constraint in self.seen:",
          "            self.all_seen = True\n            return False\n        for constraint in self.seen:", rule="CHECK-IS-PURE"),
    ]


def _selector_cache(rule="SELECTOR-NO-CACHE"):
    return [
        V("selectors-follow-the-switch", CS, "ConclusionSelector._caching_enabled_", "        return False", "        return is_caching_enabled()", rule=rule),
    ]


def more_c01():
    return _apply_always() + _literal_wrap() + _operand_in_row() + _logic_truth() + _cache_flag()


def more_c02():
    return _dedup() + _no_clobber()[:1] + _row_fresh() + _correlated() + _cache_flag()[:1]


def more_c03():
    return _logic_truth()[:4]


def more_c04():
    return _abandon() + [
        V("concatenate-aliases-user-list", S, "Concatenate._evaluate__", "                    all_values[self._id_].extend(child_v_unwrapped)",
          "                    if self._id_ not in all_values:\n                        all_values[self._id_] = child_v_unwrapped\n"
          "                    else:\n                        all_values[self._id_].extend(child_v_unwrapped)", rule="NO-USER-VALUE-MUTATION"),
        V("flatten-sorts-user-collection", S, "Flatten._apply_mapping_", "            inner_iter = inner\n", "            inner_iter = inner\n            if isinstance(inner, list):\n                inner.sort(key=id)\n",
          rule="NO-USER-VALUE-MUTATION"),
        V("domain-listing-twice-yields-twice-first-pass", "hashed_data", "HashedIterable.__iter__",
          "                if v.id_ in self.values:\n                    # listed more than once: it was already yielded, and later iterations will yield it once as well.\n                    continue\n", "", rule="DUP-STABLE"),
    ]


def more_c05():
    return _abandon()[:1] + _cache_flag() + _cache_index() + _selector_cache()


def more_c06():
    return [
        V("the-dereferences-missing-var", S, "The._evaluate_", "        elif self._var_:\n", "        else:\n", rule="VAR-NULL-GUARD"),
        V("requested-kind-ignored-for-terms", "entity", "select_one_or_select_many_or_infer", "        q = entity_ if type(entity_) is quantifier else quantifier(entity_._child_)",
          "        q = entity_", rule="QUANTIFIER-KIND"),
        V("twin-requantify-as-statement", "entity", "select_one_or_select_many_or_infer", "        q = entity_ if type(entity_) is quantifier else quantifier(entity_._child_)",
          "        if type(entity_) is quantifier:\n            q = entity_\n        else:\n            q = quantifier(entity_._child_)", kind="twin"),
    ]


def more_c08():
    return [
        V("nested-mode-keeps-rule-mode", S, "symbolic_mode", "        _set_symbolic_mode(mode)\n", "        _set_symbolic_mode(prev_mode if prev_mode == EQLMode.Rule else mode)\n", rule="MODE-SET-REQUESTED"),
        V("mode-none-means-unchanged", S, "symbolic_mode", "        _set_symbolic_mode(mode)\n", "        if mode is not None:\n            _set_symbolic_mode(mode)\n", rule="MODE-SET-REQUESTED"),
    ]


def more_c09():
    return more_c08() + [
        V("constant-predicates-run-at-construction", S, "Variable._validate_inputs_and_fill_missing_ones_", "        self._child_ = None\n",
          "        self._child_ = None\n        if self._predicate_type_ and self._kwargs_ and not any(isinstance(v, SymbolicExpression) for v in self._kwargs_.values()):\n"
          "            self._domain_source_ = From([self._type_(**self._kwargs_)])\n", rule="USERCODE-REACH"),
    ]


def more_c10():
    return _abandon() + [
        V("universal-variable-not-in-key", S, "ForAll._required_variables_from_child_", "            required_vars.update(self.left._unique_variables_)\n", "            pass\n", rule="FORALL-KEY"),
        V("universal-key-on-wrong-child", S, "ForAll._required_variables_from_child_", "        if child is self.right:\n", "        if child is self.left:\n", rule="FORALL-KEY"),
        V("literals-in-intersection-key", S, "ForAll.condition_unique_variable_ids", "\n                if not isinstance(v.value, Literal) and not getattr(v.value, '_predicate_type_', None)]", "\n                if not getattr(v.value, '_predicate_type_', None)]", rule="FORALL-NONLITERAL"),
        V("partial-rows-intersected", S, "ForAll._evaluate__", "for complete_val in self._bind_unbound_condition_variables_(condition_val):", "for complete_val in [condition_val]:",
          rule="FORALL-TOTAL-ROWS"),
        V("twin-forall-key-as-loop", S, "ForAll.condition_unique_variable_ids",
          "        return [v.id_ for v in self.condition._unique_variables_.difference(self.left._unique_variables_)\n                if not isinstance(v.value, Literal) and not getattr(v.value, '_predicate_type_', None)]",
          "        ids = []\n        for v in self.condition._unique_variables_.difference(self.left._unique_variables_):\n            if isinstance(v.value, Literal) or getattr(v.value, '_predicate_type_', None):\n                continue\n"
          "            ids.append(v.id_)\n        return ids", kind="twin"),
    ]


def more_c11():
    return _correlated() + _dedup()[:3] + _cache_flag()[:1] + [
        V("falsy-instance-is-false", S, "Variable._process_output_and_update_values_", "result_truthy = bool(function_output) if self._predicate_type_ else True",
          "result_truthy = bool(function_output)", rule="INFER-NOT-TRUTH"),
        V("twin-truth-rephrased", S, "Variable._process_output_and_update_values_", "result_truthy = bool(function_output) if self._predicate_type_ else True",
          "result_truthy = True if not self._predicate_type_ else bool(function_output)", kind="twin"),
    ]


def more_c12():
    return _selector_cache() + _no_clobber()[1:] + [
        V("exceptif-false-rows-count-as-fired", CS, "ExceptIf._evaluate__", "self.right._evaluate__(left_value, yield_when_false=False)",
          "self.right._evaluate__(left_value, yield_when_false=self._yield_when_false_)", rule="EXCEPT-FIRED"),
        V("exceptif-default-flag", CS, "ExceptIf._evaluate__", "self.right._evaluate__(left_value, yield_when_false=False)",
          "self.right._evaluate__(left_value, yield_when_false=True)", rule="EXCEPT-FIRED"),
        V("twin-exceptif-default-argument", CS, "ExceptIf._evaluate__", "self.right._evaluate__(left_value, yield_when_false=False)",
          "self.right._evaluate__(left_value)", kind="twin"),
    ]


def more_c13():
    return [
        V("names-from-annotations", "predicate", "update_cls_args", "list(inspect.signature(symbolic_cls.__init__).parameters.keys())",
          "['self'] + list(getattr(symbolic_cls, '__annotations__', {}).keys())", rule="CLS-ARGS-SIGNATURE"),
        V("twin-names-from-signature-object", "predicate", "update_cls_args", "list(inspect.signature(symbolic_cls.__init__).parameters.keys())",
          "list(inspect.signature(symbolic_cls.__init__).parameters)", kind="twin"),
    ]


def more_c14():
    return [
        V("reader-mode-defaulted", "predicate", "symbol.symbolic_new", "_predicate_type_=predicate_type,\n                            _is_indexed_=index_class_cache(symbolic_cls))",
          "_predicate_type_=predicate_type)", rule="REG-READ-MODE"),
        V("store-replayed-live", "hashed_data", "HashedIterable.__iter__", "        yield from list(self.values.values())", "        yield from self.values.values()", rule="ITER-SNAPSHOT"),
        V("inference-allocates-without-registering", S, "Variable._instantiate_new_values_and_yield_results_",
          "            instance = self._call_user_code_(self._type_, **{k: hv.value for k, hv in bound_kwargs.items()})",
          "            instance = object.__new__(self._type_)\n            instance.__init__(**{k: hv.value for k, hv in bound_kwargs.items()})", rule="REG-INFER"),
        V("twin-subclass-keys-as-loop", CD, "get_cache_keys_for_class_", "        cache_keys = [t for t in cache.keys() if isinstance(t, type) and issubclass(t, clazz)]",
          "        for t in cache.keys():\n            if isinstance(t, type) and issubclass(t, clazz):\n                cache_keys.append(t)", kind="twin"),
    ]


def more_c16():
    return _row_fresh() + _correlated() + [
        V("flatten-not-a-key", S, "Flatten._all_variable_instances_", "        return self._child_._all_variable_instances_ + [self]", "        return self._child_._all_variable_instances_",
          rule="FLATTEN-KEYED"),
        V("twin-flatten-key-list-display", S, "Flatten._all_variable_instances_", "        return self._child_._all_variable_instances_ + [self]",
          "        return [*self._child_._all_variable_instances_, self]", kind="twin"),
    ]


def more_c17():
    return _operand_in_row()


def more_c18():
    return _cache_flag()


def more_c19():
    return _apply_always() + _literal_wrap() + [
        V("false-row-request-read-from-attribute", S, "DomainMapping._evaluate__", "                if yield_when_false or not self._is_false_:",
          "                if self._yield_when_false_ or not self._is_false_:", rule="REENTRANT-FLAG"),
        V("twin-value-entry-positional", S, "SymbolicExpression._evaluate_as_value_", "return self._evaluate__(sources, yield_when_false=self._falsy_value_is_false_)",
          "return self._evaluate__(sources, self._falsy_value_is_false_)", kind="twin"),
    ]


def more_c20():
    return _cache_index() + [
        V("stored-branch-tested-by-truthiness", CD, "IndexedCache.retrieve", "            if assignment[key] in cache:\n                branches.append((All, cache[assignment[key]]))\n",
          "            if cache.get(assignment[key]):\n                branches.append((All, cache[assignment[key]]))\n", rule="NONE-TEST"),
        V("stored-branch-read-with-get", CD, "IndexedCache.retrieve", "            if assignment[key] in cache:\n                branches.append((All, cache[assignment[key]]))\n",
          "            stored = cache.get(assignment[key])\n            if stored is not None:\n                branches.append((All, stored))\n", rule="NONE-TEST"),
        V("wildcard-tested-by-truthiness", CD, "IndexedCache.retrieve", "            if All in cache:\n                branches.append((All, cache[All]))\n",
          "            wildcard = cache.get(All)\n            if wildcard:\n                branches.append((All, wildcard))\n", rule="NONE-TEST"),
        V("leaf-kept-on-reinsert", CD, "IndexedCache.insert", "                cache[v] = output", "                cache.setdefault(v, output)", rule="LEAF-OVERWRITE"),
        V("twin-intermediate-level-by-membership", CD, "IndexedCache.insert", "                next_cache = cache.get(v)\n                if next_cache is None:\n                    next_cache = CacheDict()\n                    cache[v] = next_cache\n                cache = next_cache",
          "                if v not in cache:\n                    cache[v] = CacheDict()\n                cache = cache[v]", kind="twin"),
    ]


_MORE = {"C01": more_c01, "C02": more_c02, "C03": more_c03, "C04": more_c04, "C05": more_c05, "C06": more_c06, "C08": more_c08, "C09": more_c09,
         "C10": more_c10, "C11": more_c11, "C12": more_c12, "C13": more_c13, "C14": more_c14, "C16": more_c16, "C17": more_c17, "C18": more_c18,
         "C19": more_c19, "C20": more_c20}


def _merged(first, more):
    return lambda: first() + more()


for _pid, _more in _MORE.items():
    REGISTRY[_pid] = _merged(REGISTRY[_pid], _more) if _pid in REGISTRY else _more


# ---------------------------------------------------------------------------------------------------------------------
# third batch: the rules added after the second round of seeded changes
_REPLAY_OLD = ("                        yield from self.yield_final_output_from_cache(left_value, self.right_cache,\n"
               "                                                                      suppress_true_duplicates=True,\n"
               "                                                                      yield_when_false=yield_when_false)")
_ELSEIF_READ_OLD = ("                if self.left._is_false_:\n"
                    "                    if self._caching_enabled_() and self.right_cache.check(left_value):\n" + _REPLAY_OLD + "\n"
                    "                        continue\n")
_ELSEIF_READ_HOISTED = ("                if self._caching_enabled_() and self.right_cache.check(left_value):\n"
                        "                    yield from self.yield_final_output_from_cache(left_value, self.right_cache, suppress_true_duplicates=True, yield_when_false=yield_when_false)\n"
                        "                    continue\n"
                        "                if self.left._is_false_:\n")


def _replay():
    return [
        V("replay-does-not-suppress-true-duplicates", S, "ElseIf._evaluate__", _REPLAY_OLD,
          "                        yield from self.yield_final_output_from_cache(left_value, self.right_cache, yield_when_false=yield_when_false)", rule="REPLAY-DEDUP"),
        V("replay-helper-ignores-request", S, "BinaryOperator.yield_final_output_from_cache",
          "if (is_false or suppress_true_duplicates) and self._is_duplicate_output_(output):", "if is_false and self._is_duplicate_output_(output):",
          rule="REPLAY-DEDUP"),
        V("twin-replay-request-positional", S, "ElseIf._evaluate__", _REPLAY_OLD,
          "                        yield from self.yield_final_output_from_cache(left_value, self.right_cache, True, yield_when_false)", kind="twin"),
        V("right-cache-consulted-before-left-truth", S, "ElseIf._evaluate__", _ELSEIF_READ_OLD, _ELSEIF_READ_HOISTED, rule="REPLAY-CONTEXT"),
    ]


def _traversal():
    return [
        V("invalidation-skips-leaves", S, "SymbolicExpression._clear_result_caches_", "        for child in self._children_:\n            child._clear_result_caches_()",
          "        for child in self._children_:\n            if not child._children_:\n                continue\n            child._clear_result_caches_()", rule="TRAVERSAL-TOTAL"),
        V("reset-skips-nested-queries", S, "SymbolicExpression._reset_cache_", "        for child in self._children_:\n            child._reset_cache_()",
          "        for child in self._children_:\n            if isinstance(child, ResultQuantifier):\n                continue\n            child._reset_cache_()", rule="TRAVERSAL-TOTAL"),
        V("twin-reset-over-a-copy", S, "SymbolicExpression._reset_cache_", "        for child in self._children_:\n            child._reset_cache_()",
          "        for child in list(self._children_):\n            child._reset_cache_()", kind="twin"),
    ]


def third_c01():
    return _traversal()[1:]


def third_c02():
    return _traversal()[1:] + [
        V("recursion-not-handed-the-row", S, "QueryObjectDescriptor._bind_selected_variables_", "yield from self._bind_selected_variables_(selected_vars[1:], extended_binding)",
          "yield from self._bind_selected_variables_(selected_vars[1:], binding)", rule="BIND-THREAD"),
        V("binding-extended-in-place", S, "QueryObjectDescriptor._bind_selected_variables_",
          "            extended_binding = copy(binding)\n            extended_binding.update(value)\n            yield from self._bind_selected_variables_(selected_vars[1:], extended_binding)",
          "            binding.update(value)\n            yield from self._bind_selected_variables_(selected_vars[1:], binding)", rule="ROW-FRESH"),
        V("unknown-truth-key-narrowed", S, "OR._required_variables_from_child_", "            if when_false or (when_false is None):", "            if when_false:", rule="DEDUP-UNKNOWN"),
        V("twin-unknown-truth-test-reordered", S, "OR._required_variables_from_child_", "            if when_false or (when_false is None):", "            if when_false is None or when_false:", kind="twin"),
    ]


def third_c04():
    return _replay()[:3] + _traversal()


def third_c05():
    return _replay() + _traversal()[:1]


def third_c06():
    return _traversal()[1:]


def third_c07():
    return _traversal()[1:] + [
        V("warning-sizes-the-domain-by-pulling", S, "QueryObjectDescriptor._warn_on_unbound_variables_", "len(var.value._domain_.values) > 20",
          "len(list(itertools.islice(var.value._domain_, 21))) > 20", rule="LAZY-TAINT"),
    ]


def third_c08():
    return [
        V("conjunction-unguarded", S, "SymbolicExpression.__and__", "        self._if_not_in_symbolic_mode_raise_error_('__and__')\n", "", rule="OP-GUARD"),
        V("inversion-unguarded", S, "SymbolicExpression.__invert__", "        self._if_not_in_symbolic_mode_raise_error_('__invert__')\n", "", rule="OP-GUARD"),
    ]


def third_c10():
    return [
        V("condition-variables-not-in-key", S, "ForAll._required_variables_from_child_", "            required_vars.update(self.right._unique_variables_)\n", "", rule="FORALL-KEY"),
        V("predicate-results-in-intersection-key", S, "ForAll.condition_unique_variable_ids", " and not getattr(v.value, '_predicate_type_', None)]", "]",
          rule="FORALL-NONLITERAL"),
        V("completion-loses-earlier-variables", S, "ForAll._bind_unbound_condition_variables_",
          "                    extended_binding = copy(binding)\n                    extended_binding.update(value)\n", "                    extended_binding = copy(value)\n",
          rule="FORALL-TOTAL-ROWS"),
    ]


def third_c11():
    return [
        V("arguments-not-handed-the-row", S, "Variable._bind_child_vars_", "self._bind_child_vars_(remaining_child_vars, extended_binding)",
          "self._bind_child_vars_(remaining_child_vars, binding)", rule="INFER-THREAD"),
    ]


def third_c12():
    return [
        V("unknown-truth-key-narrowed", S, "OR._required_variables_from_child_", "            if when_false or (when_false is None):", "            if when_false:", rule="DEDUP-UNKNOWN"),
        V("alternative-conclusions-not-withdrawn", CS, "Alternative._evaluate__", "            yield output\n            self._conclusion_.clear()", "            yield output", rule="SELECT-PER-ROW"),
        V("refinement-conclusions-selected-once", CS, "ExceptIf._evaluate__",
          "                right_yielded = True\n                self._conclusion_.update(self.right._conclusion_)\n                output = left_value.copy()\n                output.update(right_value)\n                yield output\n                self._conclusion_.clear()\n",
          "                if not right_yielded:\n                    self._conclusion_.update(self.right._conclusion_)\n                right_yielded = True\n                output = left_value.copy()\n                output.update(right_value)\n                yield output\n",
          rule="SELECT-PER-ROW"),
        V("twin-selection-then-flag", CS, "ExceptIf._evaluate__", "                right_yielded = True\n                self._conclusion_.update(self.right._conclusion_)\n",
          "                self._conclusion_.update(self.right._conclusion_)\n                right_yielded = True\n", kind="twin"),
    ]


def third_c13():
    return [
        V("domain-presence-by-truth-in-let", "entity", "let", "        if domain is None:\n", "        if not domain:\n", rule="DOMAIN-PRESENCE"),
        V("domain-presence-by-truth-in-variable", S, "Variable._update_domain_", "        if domain is not None:\n", "        if domain:\n", rule="DOMAIN-PRESENCE"),
        V("twin-domain-presence-branches-swapped", "entity", "let", "        if domain is None:\n            var = type_()\n        else:\n            var = type_(From(domain))",
          "        if domain is not None:\n            var = type_(From(domain))\n        else:\n            var = type_()", kind="twin"),
        V("expression-domain-not-type-filtered", S, "Variable._update_domain_",
          "                    new_domain = filter(lambda v: isinstance(v.value, self._type_), new_domain)\n", "                    pass\n", rule="DECL-FILTER"),
        V("expression-domain-filtered-as-collection", "predicate", "extract_selected_variable_and_expression",
          "    elif domain and isinstance(domain.domain, SymbolicExpression):\n", "    elif domain and isinstance(domain.domain, SymbolicExpression) and not is_iterable(domain.domain):\n", rule="DECL-FILTER"),
        V("twin-expression-domain-filter-genexp", S, "Variable._update_domain_",
          "                    new_domain = filter(lambda v: isinstance(v.value, self._type_), new_domain)\n",
          "                    new_domain = (v for v in new_domain if isinstance(v.value, self._type_))\n", kind="twin"),
    ]


def third_c16():
    return [
        V("flatten-skips-falsy-values", S, "Flatten._apply_mapping_", "        inner = value.value\n", "        inner = value.value\n        if not inner:\n            return\n",
          rule="VALUE-NOT-TESTED"),
        V("strings-are-collections", "utils", "is_iterable", "(str, type, bytes, bytearray)", "(type, bytes, bytearray)", rule="SCALAR-CLASSIFIER"),
        V("twin-classifier-reordered", "utils", "is_iterable", "(str, type, bytes, bytearray)", "(bytes, bytearray, str, type)", kind="twin"),
        V("twin-payload-through-two-locals", S, "Flatten._apply_mapping_", "        inner = value.value\n", "        payload = value.value\n        inner = payload\n", kind="twin"),
    ]


def third_c17():
    return [
        V("concatenate-skips-falsy-scalars", S, "Concatenate._evaluate__", "                    if not is_iterable(child_v_unwrapped):\n",
          "                    if not child_v_unwrapped:\n                        child_v_unwrapped = []\n                    elif not is_iterable(child_v_unwrapped):\n", rule="VALUE-NOT-TESTED"),
        V("exact-type-classifier", "utils", "is_iterable", "not isinstance(obj, (str, type, bytes, bytearray))", "type(obj) not in (str, type, bytes, bytearray)",
          rule="SCALAR-CLASSIFIER"),
    ]


def third_c18():
    return [
        V("binding-extended-in-place", S, "QueryObjectDescriptor._bind_selected_variables_",
          "            extended_binding = copy(binding)\n            extended_binding.update(value)\n            yield from self._bind_selected_variables_(selected_vars[1:], extended_binding)",
          "            binding.update(value)\n            yield from self._bind_selected_variables_(selected_vars[1:], binding)", rule="ROW-FRESH"),
        V("empty-intersection-reseeds", S, "ForAll._evaluate__", "            if var_val_index == 0:", "            if not self.solution_set:", rule="FORALL-MONOTONE"),
    ]


def third_c19():
    return [
        V("index-skips-falsy-containers", S, "Index._apply_mapping_", "        yield HashedValue(id_=value.id_, value=value.value[self._key_])",
          "        if not value.value:\n            return\n        yield HashedValue(id_=value.id_, value=value.value[self._key_])", rule="VALUE-NOT-TESTED"),
        V("flatten-skips-falsy-values", S, "Flatten._apply_mapping_", "        inner = value.value\n", "        inner = value.value\n        if not inner:\n            return\n",
          rule="VALUE-NOT-TESTED"),
    ]


_THIRD = {"C01": third_c01, "C02": third_c02, "C04": third_c04, "C05": third_c05, "C06": third_c06, "C07": third_c07, "C08": third_c08, "C10": third_c10,
          "C11": third_c11, "C12": third_c12, "C13": third_c13, "C16": third_c16, "C17": third_c17, "C18": third_c18, "C19": third_c19}
for _pid, _more in _THIRD.items():
    REGISTRY[_pid] = _merged(REGISTRY[_pid], _more)


# ---------------------------------------------------------------------------------------------------------------------
# fourth batch: behaviour-preserving re-phrasings only (the checks must stay silent on all of them)
def _twins4():
    return {
        "C04": [
            V("twin-finally-order", S, "An.evaluate", "            results.close()\n            # also when the iterator is closed or dropped before it is exhausted, or user code raised.\n            self._reset_cache_()",
              "            self._reset_cache_()\n            results.close()", kind="twin"),
            V("twin-index-clear-order", CD, "IndexedCache.clear", "        self.cache.clear()\n        self.seen_set.clear()\n        self.flat_cache.clear()",
              "        self.flat_cache.clear()\n        self.seen_set.clear()\n        self.cache.clear()", kind="twin"),
        ],
        "C09": [
            V("twin-process-result-outside-override", S, "The.evaluate", "                result = self._evaluate_()\n                return self._process_result_(result)",
              "                result = self._evaluate_()\n            return self._process_result_(result)", kind="twin"),
        ],
        "C10": [
            V("twin-intersection-by-filter", S, "ForAll._evaluate__", "self.solution_set = [d for d in self.solution_set if tuple(sorted(d.items())) in current_set]",
              "self.solution_set = list(filter(lambda d: tuple(sorted(d.items())) in current_set, self.solution_set))", kind="twin"),
        ],
        "C19": [
            V("twin-filter-test-reordered", S, "DomainMapping._evaluate__", "                if yield_when_false or not self._is_false_:", "                if not self._is_false_ or yield_when_false:", kind="twin"),
        ],
        "C07": [
            V("twin-memo-by-setdefault", "hashed_data", "HashedIterable.__iter__", "                self.values[v.id_] = v\n                self.pulled.append(v)", "                self.values.setdefault(v.id_, v)\n                self.pulled.append(v)", kind="twin"),
        ],
        "C12": [
            V("twin-relink-test-negated", "rule", "refinement", "        if prev_parent.left is current_node:\n            prev_parent.left = new_conditions_root\n        else:\n            prev_parent.right = new_conditions_root",
              "        if prev_parent.left is not current_node:\n            prev_parent.right = new_conditions_root\n        else:\n            prev_parent.left = new_conditions_root", kind="twin"),
        ],
        "C02": [
            V("twin-descriptor-row-merge", S, "QueryObjectDescriptor._evaluate_", "        for v in child_values:\n            v.update(sources)\n", "        for v in child_values:\n            v = {**v, **sources}\n", kind="twin"),
            V("twin-child-default", S, "BinaryOperator._required_variables_from_child_", "        if not child:\n            child = self.left\n", "        child = child or self.left\n", kind="twin"),
            V("twin-elseif-row-dict-display", S, "ElseIf._evaluate__", "                            output = copy(left_value)\n                            output.update(right_value)\n",
              "                            output = {**left_value, **right_value}\n", kind="twin"),
        ],
        "C11": [
            V("twin-argument-binding-dict-display", S, "Variable._bind_child_vars_", "            extended_binding = copy(binding)\n            extended_binding.update(value)\n",
              "            extended_binding = {**binding, **value}\n", kind="twin"),
        ],
        "C05": [
            V("twin-write-gate-inverted", S, "BinaryOperator.update_cache",
              "        if not self._caching_enabled_():\n            return\n        cache = self._cache_ if cache is None else cache\n        cache.insert({k: v for k, v in values.items() if k in cache.keys}, output=self._is_false_)",
              "        if self._caching_enabled_():\n            cache = self._cache_ if cache is None else cache\n            cache.insert({k: v for k, v in values.items() if k in cache.keys}, output=self._is_false_)", kind="twin"),
        ],
    }


for _pid, _vs in _twins4().items():
    REGISTRY[_pid] = _merged(REGISTRY[_pid], (lambda vs: (lambda: vs))(_vs))


# ---------------------------------------------------------------------------------------------------------------------
def c15() -> List[V]:
    return [
        V("quantifier-keeps-its-own-flag", S, "An._evaluate__", "                self._is_false_ = self._child_._is_false_\n", "", rule="QUANT-TRUTH"),
        V("quantifier-hands-on-false-rows-unasked", S, "An._evaluate__", "                if yield_when_false or not self._is_false_:\n                    value.update(sources)",
          "                if True:\n                    value.update(sources)", rule="QUANT-TRUTH"),
        V("request-for-false-rows-not-passed-on", S, "An._evaluate__", "values = self._child_._evaluate__(sources, yield_when_false=yield_when_false)",
          "values = self._child_._evaluate__(sources, yield_when_false=False)", rule="QUANT-TRUTH"),
        V("an-reexports-another-variable", S, "An._evaluate__", "value.update({self._id_: value[self._var_._id_]})", "value.update({self._id_: value[self._child_._id_]})",
          rule="QUANT-REEXPORT"),
        V("the-does-not-reexport", S, "The._evaluate_", "            result[self._id_] = result[self._var_._id_]\n", "            pass\n", rule="QUANT-REEXPORT"),
        V("selected-quantifier-conditions-dropped", "entity", "_extract_variables_and_expression", "            expression_list.append(result_quantifier)\n", "", rule="QUANT-CONTRIBUTES"),
        V("quantifier-does-not-delegate", S, "ResultQuantifier.__post_init__", "        self._var_ = self._child_._var_", "        self._var_ = self", rule="QUANT-CONTRIBUTES"),
        V("attribute-of-quantifier-built-on-its-variable", S, "CanBehaveLikeAVariable.__getattr__", "        return Attribute(self, name)",
          "        return Attribute(self._var_ if self._var_ is not None else self, name)", rule="HOOK-SELF"),
        V("descriptor-hides-condition-variables", S, "QueryObjectDescriptor._all_variable_instances_", "        if self._child_:\n            vars.extend(self._child_._all_variable_instances_)",
          "        elif self._child_:\n            vars.extend(self._child_._all_variable_instances_)", rule="VARS-COMPLETE"),
        V("twin-reexport-by-item-assignment", S, "An._evaluate__", "value.update({self._id_: value[self._var_._id_]})", "value[self._id_] = value[self._var_._id_]", kind="twin"),
        V("twin-conditions-joined-by-extend", "entity", "_extract_variables_and_expression", "    expression_list += final_expression_list\n",
          "    expression_list.extend(final_expression_list)\n", kind="twin"),
        V("twin-descriptor-vars-by-concatenation", S, "QueryObjectDescriptor._all_variable_instances_",
          "        vars = []\n        if self.selected_variables:\n            vars.extend(self.selected_variables)\n        if self._child_:\n            vars.extend(self._child_._all_variable_instances_)\n        return vars",
          "        vars = list(self.selected_variables or [])\n        if self._child_:\n            vars = vars + self._child_._all_variable_instances_\n        return vars", kind="twin"),
    ]


REGISTRY["C15"] = c15


# ---------------------------------------------------------------------------------------------------------------------
# fifth batch: rules added after the third round of seeded changes
U = "utils"
PR = "predicate"


def _vocab():
    return [
        V("for-all-over-the-bare-variable", "entity", "for_all", "    return ForAll(universal_variable, condition)", "    return ForAll(universal_variable._var_, condition)", rule="VOCAB-DENOTATION"),
        V("twin-for-all-by-keyword", "entity", "for_all", "    return ForAll(universal_variable, condition)", "    return ForAll(left=universal_variable, right=condition)", kind="twin"),
    ]


def _coverage():
    return [
        V("unbound-key-counts-as-covered", CD, "SeenSet.check", "assignment[k] == v if k in assignment else False", "assignment.get(k, v) == v", rule="COVERAGE-SUBSUMPTION"),
        V("unbound-key-is-a-wildcard", CD, "SeenSet.check", "assignment[k] == v if k in assignment else False", "assignment[k] == v if k in assignment else True", rule="COVERAGE-SUBSUMPTION"),
        V("twin-coverage-test-as-conjunction", CD, "SeenSet.check", "assignment[k] == v if k in assignment else False", "k in assignment and assignment[k] == v", kind="twin"),
    ]


def _cache_operand():
    return [
        V("right-cache-stores-left-row", S, "ElseIf._evaluate__", "                            self.update_cache(right_value, self.right_cache)\n                            yield output",
          "                            self.update_cache(left_value, self.right_cache)\n                            yield output", rule="CACHE-OPERAND-AGREEMENT"),
        V("right-cache-keyed-by-left", S, "LogicalOperator.__post_init__", "right_vars = self.right._unique_variables_.filter(", "right_vars = self.left._unique_variables_.filter(",
          rule="CACHE-OPERAND-AGREEMENT"),
    ]


def fifth_c01():
    return _coverage() + [
        V("keyword-only-call-runs-bare", S, "Call._apply_mapping_", "        if len(self._args_) > 0 or len(self._kwargs_) > 0:", "        if self._args_:", rule="CALL-FORWARD"),
        V("twin-call-guard-by-truth", S, "Call._apply_mapping_", "        if len(self._args_) > 0 or len(self._kwargs_) > 0:", "        if self._args_ or self._kwargs_:", kind="twin"),
        V("predicate-positional-default-dropped", PR, "predicate.wrapper", "if p.kind in (inspect.Parameter.POSITIONAL_ONLY, inspect.Parameter.POSITIONAL_OR_KEYWORD)]",
          "if p.default == inspect.Parameter.empty]", rule="PRED-ARGS"),
        V("twin-predicate-names-unfiltered", PR, "predicate.wrapper", "if p.kind in (inspect.Parameter.POSITIONAL_ONLY, inspect.Parameter.POSITIONAL_OR_KEYWORD)]",
          "if p.kind not in (inspect.Parameter.KEYWORD_ONLY, inspect.Parameter.VAR_KEYWORD, inspect.Parameter.VAR_POSITIONAL)]", kind="twin"),
    ]


def fifth_c02():
    return _coverage()[:2] + [
        V("true-operand-reported-as-true-conjunction", S, "BinaryOperator._required_variables_from_child_",
          "self._parent_._required_variables_from_child_(self, False if when_true is False else None)", "self._parent_._required_variables_from_child_(self, when_true)",
          rule="DEDUP-TRUTH-UP"),
        V("twin-own-truth-by-statement", S, "BinaryOperator._required_variables_from_child_",
          "            required_vars.update(self._parent_._required_variables_from_child_(self, False if when_true is False else None))",
          "            own_truth = None\n            if when_true is False:\n                own_truth = False\n            required_vars.update(self._parent_._required_variables_from_child_(self, own_truth))", kind="twin"),
    ]


def fifth_c04():
    return [
        V("kwargs-flag-cleared-after-the-loop-only", S, "Variable._evaluate_kwargs_expression_",
          "        finally:\n            # also when the evaluation is abandoned here: the flag says that the kwargs expression is being evaluated.\n            self._evaluating_kwargs_expression_ = False",
          "        except StopIteration:\n            pass\n        self._evaluating_kwargs_expression_ = False", rule="EVAL-FLAG"),
        V("union-sides-not-decided-anew", S, "Union._evaluate__", "        self.left_evaluated = False\n        self.right_evaluated = False\n        # constrain left values by available sources",
          "        # constrain left values by available sources", rule="EVAL-FLAG"),
        V("cached-requirements-kept", S, "SymbolicExpression._reset_only_my_cache_", "        if clear_cached_requirements is not None:\n            clear_cached_requirements()\n",
          "", rule="CACHED-POSITION-RESET"),
        V("inferred-mark-withdrawn-from-all-selected", S, "QueryObjectDescriptor._reset_only_my_cache_", "        for selected_variable in self._variables_inferred_for_this_evaluation_:",
          "        for selected_variable in self.selected_variables:", rule="EVAL-STATE-RESET"),
    ]


def fifth_c05():
    return _coverage() + _cache_operand() + [
        V("conclusion-key-drops-mappings", CS, "ConclusionSelector.update_conclusion", "lambda v: not isinstance(v.value, Literal))", "lambda v: isinstance(v.value, Variable) and not isinstance(v.value, Literal))",
          rule="KEY-FILTER-KEEPS"),
    ]


def fifth_c06():
    return [
        V("no-solution-sticks", S, "The._evaluate_", "        self._is_false_ = result is None\n", "        if result is None:\n            self._is_false_ = True\n", rule="THE-OUTCOME"),
        V("twin-the-flag-two-branches", S, "The._evaluate_", "        self._is_false_ = result is None\n", "        if result is None:\n            self._is_false_ = True\n        else:\n            self._is_false_ = False\n",
          kind="twin"),
    ]


def fifth_c10():
    return _vocab()


def fifth_c11():
    return fifth_c01()[3:] + [
        V("filter-fills-at-once", "hashed_data", "HashedIterable.filter", "        return HashedIterable(filter(func, self))", "        return HashedIterable(values={v.id_: v for v in self if func(v)})",
          rule="ROW-FRESH"),
    ]


def fifth_c12():
    return fifth_c04()[2:] + [fifth_c05()[-1]]


def fifth_c13():
    return [
        V("none-arguments-dropped", PR, "update_domain_and_kwargs_from_args", "    return domain, kwargs", "    kwargs = {name: value for name, value in kwargs.items() if value is not None}\n    return domain, kwargs",
          rule="KWARGS-KEPT"),
        V("twin-kwargs-copied", PR, "update_domain_and_kwargs_from_args", "    return domain, kwargs", "    kwargs = {name: value for name, value in kwargs.items()}\n    return domain, kwargs", kind="twin"),
    ]


def fifth_c16():
    return [
        V("flatten-passes-a-flatten-through", "entity", "flatten", "    return Flatten(var)", "    if isinstance(var, Flatten):\n        return var\n    return Flatten(var)", rule="VOCAB-DENOTATION"),
        fifth_c05()[-1],
    ]


def fifth_c17():
    return [
        V("concatenate-unnests-twice", "entity", "concatenate", "    return Concatenate(var)", "    return Concatenate(Flatten(var))", rule="VOCAB-DENOTATION"),
        V("concatenate-classifies-by-trying", S, "Concatenate._evaluate__",
          "                    child_v_unwrapped = val.value\n                    if not is_iterable(child_v_unwrapped):\n                        child_v_unwrapped = [child_v_unwrapped]\n                    all_values[self._id_].extend(child_v_unwrapped)",
          "                    try:\n                        all_values[self._id_].extend(val.value)\n                    except TypeError:\n                        all_values[self._id_].append(val.value)", rule="SCALAR-CLASSIFIER"),
        V("concatenation-binds-what-it-ranges-over", S, "Concatenate._evaluate__", "        result = {self._id_: HashedValue(all_values[self._id_])}\n", "        result = {k: HashedValue(v) for k, v in all_values.items()}\n", kind="twin"),   # only self._id_ is ever stored in all_values: the same row
    ]


def fifth_c18():
    return fifth_c02()[2:] + [fifth_c11()[-1]]


def fifth_c19():
    return fifth_c13() + fifth_c01()[3:5] + [
        V("domain-expression-as-condition", S, "Variable._update_domain_", "new_domain = (v[domain._id_] for v in domain._evaluate_as_value_())", "new_domain = (v[domain._id_] for v in domain._evaluate__())",
          rule="VALUE-TRUTH"),
    ]


def fifth_c20():
    return _coverage() + [
        V("wildcard-hashes-to-zero", U, "ALL.__hash__", "        return hash(id(self))", "        return 0", rule="WILDCARD-DISTINCT"),
        V("insert-skips-known-bindings", CD, "IndexedCache.insert", "        seen_assignment = dict(assignment)\n", "        seen_assignment = dict(assignment)\n        if seen_assignment in self.seen_set.seen:\n            return\n",
          rule="LEAF-OVERWRITE"),
        V("twin-wildcard-hash-by-object", U, "ALL.__hash__", "        return hash(id(self))", "        return object.__hash__(self)", kind="twin"),
    ]


_FIFTH = {"C01": fifth_c01, "C02": fifth_c02, "C04": fifth_c04, "C05": fifth_c05, "C06": fifth_c06, "C10": fifth_c10, "C11": fifth_c11, "C12": fifth_c12,
          "C13": fifth_c13, "C16": fifth_c16, "C17": fifth_c17, "C18": fifth_c18, "C19": fifth_c19, "C20": fifth_c20}
for _pid, _more in _FIFTH.items():
    REGISTRY[_pid] = _merged(REGISTRY[_pid], _more)


def _twins5():
    return {
        "C05": [
            V("twin-cache-argument-by-keyword", S, "ElseIf._evaluate__", "                            self.update_cache(right_value, self.right_cache)\n                            yield output",
              "                            self.update_cache(right_value, cache=self.right_cache)\n                            yield output", kind="twin"),
            V("twin-key-filter-identity-test", CS, "ConclusionSelector.update_conclusion", "lambda v: not isinstance(v.value, Literal))", "lambda v: isinstance(v.value, Literal) is False)", kind="twin"),
        ],
        "C08": [
            V("twin-restore-order", S, "symbolic_mode", "        if query is not None:\n            query.__exit__()\n        if hidden_stack is not None:\n            SymbolicExpression._symbolic_expression_stack_ = hidden_stack\n        _set_symbolic_mode(prev_mode)",
              "        _set_symbolic_mode(prev_mode)\n        if query is not None:\n            query.__exit__()\n        if hidden_stack is not None:\n            SymbolicExpression._symbolic_expression_stack_ = hidden_stack", kind="twin"),
        ],
        "C04": [
            V("twin-bare-except-rollback", S, "The.evaluate", "        except BaseException:\n", "        except:\n", kind="twin"),
            V("twin-abandon-statements-swapped", S, "ForAll._evaluate__", "            if not self.solution_set:\n                self.variable._clear_result_caches_()\n                break",
              "            if len(self.solution_set) == 0:\n                self.variable._clear_result_caches_()\n                break", kind="twin"),
        ],
    }


for _pid, _vs in _twins5().items():
    REGISTRY[_pid] = _merged(REGISTRY[_pid], (lambda vs: (lambda: vs))(_vs))


def _twins6():
    return {
        "C16": [
            V("twin-flatten-through-a-local", "entity", "flatten", "    return Flatten(var)", "    flattened = Flatten(var)\n    return flattened", kind="twin"),
        ],
        "C11": [
            V("twin-call-guard-negated", S, "Call._apply_mapping_",
              "        if len(self._args_) > 0 or len(self._kwargs_) > 0:\n            yield HashedValue(id_=value.id_, value=value.value(*self._args_, **self._kwargs_))\n        else:\n            yield HashedValue(id_=value.id_, value=value.value())",
              "        if not self._args_ and not self._kwargs_:\n            yield HashedValue(id_=value.id_, value=value.value())\n        else:\n            yield HashedValue(id_=value.id_, value=value.value(*self._args_, **self._kwargs_))", kind="twin"),
            V("twin-call-always-forwards", S, "Call._apply_mapping_",
              "        if len(self._args_) > 0 or len(self._kwargs_) > 0:\n            yield HashedValue(id_=value.id_, value=value.value(*self._args_, **self._kwargs_))\n        else:\n            yield HashedValue(id_=value.id_, value=value.value())",
              "        yield HashedValue(id_=value.id_, value=value.value(*self._args_, **self._kwargs_))", kind="twin"),
        ],
        "C20": [
            V("twin-wildcard-hash-is-id", U, "ALL.__hash__", "        return hash(id(self))", "        return id(self)", kind="twin"),
            V("twin-coverage-test-as-loop", CD, "SeenSet.check",
              "            if all(assignment[k] == v if k in assignment else False for k, v in constraint.items()):\n                return True",
              "            for k, v in constraint.items():\n                if k not in assignment or assignment[k] != v:\n                    break\n            else:\n                return True", kind="twin"),
        ],
        "C05": [
            V("twin-right-cache-keys-inline", S, "LogicalOperator.__post_init__",
              "        right_vars = self.right._unique_variables_.filter(lambda v: not isinstance(v, Literal))\n        self.right_cache.keys = [v.id_ for v in right_vars]",
              "        self.right_cache.keys = [v.id_ for v in self.right._unique_variables_.filter(lambda v: not isinstance(v, Literal))]", kind="twin"),
        ],
        "C12": [
            V("twin-rule-flag-nested-tests", S, "symbolic_mode", "            if mode == EQLMode.Rule and isinstance(query, ResultQuantifier):\n",
              "            if mode == EQLMode.Rule:\n              if isinstance(query, ResultQuantifier):\n", kind="twin"),
            V("twin-left-flag-set-later", S, "ElseIf._evaluate__",
              "                self.left._is_false_ = True\n                right_prev = self.right._eval_parent_\n                self.right._eval_parent_ = self\n",
              "                right_prev = self.right._eval_parent_\n                self.right._eval_parent_ = self\n                self.left._is_false_ = True\n", kind="twin"),
        ],
    }


for _pid, _vs in _twins6().items():
    REGISTRY[_pid] = _merged(REGISTRY[_pid], (lambda vs: (lambda: vs))(_vs))


# ---------------------------------------------------------------------------------------------------------------------
# seventh batch: the rules added after the fourth round of seeded changes
HD = "hashed_data"
_CLEAR_OLD = ('        clear_cached_requirements = getattr(type(self)._required_variables_from_child_, "cache_clear", None)\n'
              '        if clear_cached_requirements is not None:\n            clear_cached_requirements()')
_UNBOUND_OLD = ("        elif All in cache:\n"
                "            # an entry that leaves this key open was stored by an evaluation for which the row held whatever the key's value:\n"
                "            # it stands for the entries that bind the key as well.\n"
                "            branches = [(All, cache[All])]\n        else:\n            branches = list(cache.items())\n")


def _batch7() -> Dict[str, List[V]]:
    memo_clear = [
        V("memo-cleared-on-the-base-class-only", S, "SymbolicExpression._reset_only_my_cache_", _CLEAR_OLD,
          "        SymbolicExpression._required_variables_from_child_.cache_clear()", rule="CACHED-POSITION-RESET"),
        V("memo-cleared-at-the-root-only", S, "SymbolicExpression._reset_only_my_cache_", _CLEAR_OLD,
          "        if self._parent_ is None:\n            type(self)._required_variables_from_child_.cache_clear()", rule="CACHED-POSITION-RESET"),
        V("twin-memo-cleared-without-getattr", S, "SymbolicExpression._reset_only_my_cache_", _CLEAR_OLD,
          "        type(self)._required_variables_from_child_.cache_clear()", kind="twin"),
    ]
    shared_tail = [
        V("pulled-elements-not-recorded", HD, "HashedIterable.__iter__", "                self.pulled.append(v)\n", "", rule="SHARED-TAIL"),
        V("getitem-pull-not-recorded", HD, "HashedIterable.__getitem__", "                    self.pulled.append(v)\n", "", rule="SHARED-TAIL"),
        V("source-delegated-to", HD, "HashedIterable.__iter__", "        yield from list(self.values.values())\n",
          "        yield from list(self.values.values())\n        if not self.pulled:\n            yield from self.iterable\n", rule="SOURCE-NOT-DELEGATED"),
    ]
    wrap = [
        V("none-members-not-wrapped", HD, "HashedIterable._wrapped_lazily_", "HashedValue(v), iterable)", "HashedValue(v), filter(lambda v: v is not None, iterable))", rule="MEMO-ON-PULL"),
    ]
    one_entry = [
        V("open-key-follows-wildcard-and-concrete", CD, "IndexedCache.retrieve", _UNBOUND_OLD,
          "        else:\n            branches = list(cache.items())\n",
          rule="REPLAY-ONE-ENTRY"),
        V("twin-open-key-test-negated", CD, "IndexedCache.retrieve", _UNBOUND_OLD,
          "        elif All not in cache:\n            branches = list(cache.items())\n        else:\n            branches = [(All, cache[All])]\n", kind="twin"),
    ]
    set_alg = [
        V("union-as-symmetric-difference", HD, "HashedIterable.union", "self.values.keys() | other.values.keys()", "self.values.keys() ^ other.values.keys()", rule="SET-ALGEBRA"),
        V("difference-as-intersection", HD, "HashedIterable.difference", "self.values.keys() - other.values.keys()", "self.values.keys() & other.values.keys()", rule="SET-ALGEBRA"),
        V("twin-union-by-set-method", HD, "HashedIterable.union", "self.values.keys() | other.values.keys()", "set(self.values.keys()).union(other.values.keys())", kind="twin"),
    ]
    replay_agree = [
        V("alternative-replays-its-own-cache", S, "ElseIf._evaluate__",
          "yield from self.yield_final_output_from_cache(left_value, self.right_cache,\n                                                                      suppress_true_duplicates=True,",
          "yield from self.yield_final_output_from_cache(left_value, suppress_true_duplicates=True,", rule="CACHE-OPERAND-AGREEMENT"),
        V("conjunction-replays-for-the-incoming-binding", S, "AND._evaluate__", "yield from self.yield_final_output_from_cache(left_value, self.right_cache,",
          "yield from self.yield_final_output_from_cache(sources, self.right_cache,", rule="CACHE-OPERAND-AGREEMENT"),
    ]
    key_filter = [
        V("operator-cache-keys-variables-only", S, "BinaryOperator.__post_init__", "combined_vars.filter(lambda v: not isinstance(v.value, Literal))",
          "combined_vars.filter(lambda v: isinstance(v.value, Variable) and not isinstance(v.value, Literal))", rule="KEY-FILTER-KEEPS"),
    ]
    coverage = [
        V("seen-shortcut-on-values", CD, "SeenSet.check", "        for constraint in self.seen:\n",
          "        if any(set(assignment.values()) == set(c.values()) for c in self.seen):\n            return True\n        for constraint in self.seen:\n",
          rule="COVERAGE-SUBSUMPTION"),
        V("twin-seen-shortcut-on-items", CD, "SeenSet.check", "        for constraint in self.seen:\n",
          "        if assignment.items() in [c.items() for c in self.seen]:\n            return True\n        for constraint in self.seen:\n", kind="twin"),
    ]
    concluded = [
        V("concluded-store-by-concluded-variable", "conclusion_selector", "ConclusionSelector.update_conclusion",
          "frozenset(id(conclusion) for conclusion in conclusions)", "frozenset(conclusion.var._var_._id_ for conclusion in conclusions)", rule="CONCLUDED-PER-CONCLUSION"),
        V("twin-concluded-store-by-conclusion-object", "conclusion_selector", "ConclusionSelector.update_conclusion",
          "frozenset(id(conclusion) for conclusion in conclusions)", "frozenset(conclusion._id_ for conclusion in conclusions)", kind="twin"),
    ]
    rowkey = [
        V("for-all-key-in-item-order", S, "ForAll._evaluate__", "current_set = {tuple(sorted(d.items())) for d in current}", "current_set = {tuple(d.items()) for d in current}", rule="ROW-KEY-CANONICAL"),
        V("twin-for-all-key-as-frozenset", S, "ForAll._evaluate__", "current_set = {tuple(sorted(d.items())) for d in current}\n                self.solution_set = [d for d in self.solution_set if tuple(sorted(d.items())) in current_set]",
          "current_set = {frozenset(d.items()) for d in current}\n                self.solution_set = [d for d in self.solution_set if frozenset(d.items()) in current_set]", kind="twin"),
    ]
    trie = [
        # behaviour-preserving since 584a4cd: the reader finds the outputs by depth, it no longer inspects what is stored
        V("twin-inner-level-as-plain-dict", CD, "IndexedCache.insert", "                    next_cache = CacheDict()", "                    next_cache = {}", kind="twin"),
    ]
    carries = [
        V("alternative-right-without-incoming", S, "ElseIf._evaluate__", "                any_left = True\n                left_value.update(sources)\n", "                any_left = True\n", rule="BIND-THREAD"),
        V("twin-alternative-merges-by-dict", S, "ElseIf._evaluate__", "                any_left = True\n                left_value.update(sources)\n",
          "                any_left = True\n                left_value = {**left_value, **sources}\n", kind="twin"),
    ]
    dedup_truth = [
        V("conjunction-flag-after-duplicate-test", S, "AND._evaluate__",
          "                    self._is_false_ = True\n                    if self._is_duplicate_output_(left_value):\n                        continue\n",
          "                    if self._is_duplicate_output_(left_value):\n                        continue\n                    self._is_false_ = True\n", rule="DEDUP-UNDER-ROW-TRUTH"),
    ]
    builders = [
        V("named-let-builds-the-variable-itself", "entity", "let", "        else:\n            var = type_(From(domain))",
          "        elif name is not None:\n            var = Variable(name, type_, _domain_source_=From(domain))\n        else:\n            var = type_(From(domain))", rule="DECL-FILTER"),
    ]
    presence = [
        V("exhausted-source-released", HD, "HashedIterable.__iter__", "            else:\n                if position >= len(self.pulled):\n                    return",
          "            else:\n                if position >= len(self.pulled):\n                    self.iterable = []\n                    return", rule="DOMAIN-PRESENCE"),
    ]
    stripped = [
        V("flatten-strips-the-quantifier", "entity", "flatten", "    return Flatten(var)", "    if isinstance(var, ResultQuantifier):\n        var = var._var_\n    return Flatten(var)", rule="QUANT-NOT-STRIPPED"),
        V("concatenate-strips-the-quantifier", "entity", "concatenate", "    return Concatenate(var)", "    if isinstance(var, ResultQuantifier):\n        var = var._var_\n    return Concatenate(var)", rule="QUANT-NOT-STRIPPED"),
    ]
    concat = [
        V("concatenation-keeps-the-last-child-row", S, "Concatenate._evaluate__", "                    all_values[self._id_].extend(child_v_unwrapped)\n",
          "                    all_values[self._id_].extend(child_v_unwrapped)\n                else:\n                    all_values[id_] = val\n", rule="CONCAT-ONCE",
          also=[("        result = {self._id_: HashedValue(all_values[self._id_])}\n", "        result = dict(all_values)\n        result[self._id_] = HashedValue(all_values[self._id_])\n")]),
    ]
    identity = [
        V("wrapped-values-equal-by-payload-too", HD, "HashedValue.__eq__", "        return self.id_ == other.id_", "        return self.id_ == other.id_ or self.value == other.value", rule="VALUE-IDENTITY"),
        V("twin-wrapped-values-equal-by-hash", HD, "HashedValue.__eq__", "        return self.id_ == other.id_", "        return hash(self) == hash(other)", kind="twin"),
    ]
    derived = [
        V("key-set-computed-once", CD, "IndexedCache.__post_init__", "        self.keys = self._keys", "        self.keys = self._keys\n        self._key_set = frozenset(self._keys)", rule="KEYS-DERIVED-FRESH"),
    ]
    keyless = [
        V("keyless-index-records-coverage", CD, "IndexedCache.insert", "        if not self.keys:\n", "        if False:\n", rule="INSERT-RETRIEVABLE"),
    ]
    bound_again = [
        V("bound-again-mapping-keeps-stale-truth", S, "DomainMapping._evaluate__", "            self._is_false_ = bool(value) if self._invert_ else not value\n", "", rule="BOUND-AGAIN-TRUTH"),
        V("bound-again-comparison-keeps-stale-truth", S, "Comparator._evaluate__", "            self._is_false_ = not sources[self._id_].value\n", "", rule="BOUND-AGAIN-TRUTH"),
    ]
    return {
        "C01": one_entry + wrap + shared_tail[2:] + keyless + bound_again + builders,
        "C02": memo_clear + shared_tail + set_alg + dedup_truth[:1],
        "C03": carries + bound_again,
        "C04": memo_clear[:2] + shared_tail,
        "C05": replay_agree + key_filter + set_alg[:1] + trie + identity[:1] + derived + keyless,
        "C06": memo_clear[:1] + one_entry[:1] + stripped[:1],
        "C07": shared_tail,
        "C10": rowkey + trie,
        "C11": memo_clear[:2] + one_entry + coverage + set_alg[:1] + dedup_truth + identity,
        "C12": concluded + dedup_truth + memo_clear[:1],
        "C13": builders + presence + wrap,
        "C15": memo_clear[:1],
        "C16": stripped[:1] + key_filter,
        "C17": stripped[1:] + concat,
        "C18": identity + keyless,
        "C19": wrap,
        "C20": trie + derived + coverage + keyless + identity[:1],
    }


for _pid, _vs in _batch7().items():
    REGISTRY[_pid] = _merged(REGISTRY[_pid], (lambda vs: (lambda: vs))(_vs))


# ---------------------------------------------------------------------------------------------------------------------
# eighth batch: the rules guarding the repairs made after the fourth round
def _batch8() -> Dict[str, List[V]]:
    fresh = [
        V("nested-query-keeps-its-duplicate-state", S, "An._evaluate__", "            self._child_._reset_cache_()\n", "", rule="QUERY-FRESH-STATE"),
        V("the-keeps-its-duplicate-state", S, "The._evaluate_", "        self._child_._reset_cache_()\n", "", rule="QUERY-FRESH-STATE"),
        V("state-reset-for-nested-queries-only", S, "An._evaluate__", "            self._child_._reset_cache_()\n",
          "            if self._parent_ is not None:\n                self._child_._reset_cache_()\n", rule="QUERY-FRESH-STATE"),
        V("twin-state-reset-after-linking", S, "An._evaluate__", "            self._child_._reset_cache_()\n            self._child_._eval_parent_ = self\n",
          "            self._child_._reset_cache_()\n            child = self._child_\n            child._eval_parent_ = self\n", kind="twin"),
    ]
    concl = [
        V("conclusion-applied-to-the-row-as-it-fired", S, "QueryObjectDescriptor._evaluate_",
          "            for v in self._bind_selected_variables_(self._unbound_conclusion_variables_(v), v):\n", "            for v in [v]:\n", rule="CONCLUSION-VARS-BOUND"),
        V("selector-conclusions-left-out-of-the-key", S, "OR._required_variables_from_child_",
          "                for conc in [*self.right._conclusion_, *self.right._conclusions_of_all_descendants_]:\n                    required_vars.update(conc._unique_variables_)\n                when_iam = None",
          "                for conc in self.right._conclusion_:\n                    required_vars.update(conc._unique_variables_)\n                when_iam = None", rule="DEDUP-CONCLUSIONS"),
    ]
    neg = [
        V("any-operand-accepted-by-not", S, "Not", "    elif not hasattr(type(operand), '_invert_'):\n", "    elif False:\n", rule="NEG-HONOURED",
          also=[("operand._invert_ = not operand._invert_", "operand._invert_ = not getattr(operand, '_invert_', False)")]),
        V("concatenation-declares-an-unused-flag", S, "Concatenate", "    _child_: CanBehaveLikeAVariable[T]\n\n    def __post_init__(self):\n        super().__post_init__()\n        self._var_ = self",
          "    _child_: CanBehaveLikeAVariable[T]\n    _invert_: bool = field(init=False, default=False)\n\n    def __post_init__(self):\n        super().__post_init__()\n        self._var_ = self", rule="NEG-HONOURED"),
    ]
    reentrant = [
        V("comparison-reads-the-request-from-the-object", S, "Comparator._evaluate__", "if res or yield_when_false:", "if res or self._yield_when_false_:", rule="REENTRANT-FLAG"),
        V("conjunction-reads-the-request-from-the-object", S, "AND._evaluate__", "if yield_when_false and self.left._is_false_:", "if self._yield_when_false_ and self.left._is_false_:", rule="REENTRANT-FLAG"),
        V("twin-request-read-before-the-first-suspension", S, "AND._evaluate__", "        self._yield_when_false_ = yield_when_false\n",
          "        self._yield_when_false_ = yield_when_false\n        assert self._yield_when_false_ == yield_when_false\n", kind="twin"),
    ]
    ctx = [
        V("evaluation-keeps-the-callers-expression-context", S, "symbolic_mode", "        if mode is None:\n", "        if False:\n", rule="EVAL-NO-CONTEXT"),
        V("expression-context-not-put-back", S, "symbolic_mode", "        if hidden_stack is not None:\n            SymbolicExpression._symbolic_expression_stack_ = hidden_stack\n", "", rule="STACK-PAIRING"),
        V("expression-context-put-back-outside-finally", S, "symbolic_mode",
          "    finally:\n        if query is not None:\n            query.__exit__()\n        if hidden_stack is not None:\n            SymbolicExpression._symbolic_expression_stack_ = hidden_stack\n        _set_symbolic_mode(prev_mode)",
          "    finally:\n        if query is not None:\n            query.__exit__()\n        _set_symbolic_mode(prev_mode)\n    if hidden_stack is not None:\n        SymbolicExpression._symbolic_expression_stack_ = hidden_stack", rule="STACK-PAIRING"),
    ]
    live = [
        V("declaration-captures-the-stores", PR, "extract_selected_variable_and_expression", "    if not domain:\n        # no domain",
          "    if not domain and get_cache_keys_for_class_(Variable._cache_, symbolic_cls):\n        domain = From((v for a, v in yield_class_values_from_cache(Variable._cache_, symbolic_cls, from_index=False, cache_keys=get_cache_keys_for_class_(Variable._cache_, symbolic_cls))))\n    elif not domain:\n        # no domain",
          rule="REG-LIVE"),
        V("registry-domain-kept-across-evaluations", S, "Variable._reset_only_my_cache_", "            self._domain_source_ = None\n            self._domain_ = HashedIterable()\n", "            pass\n", rule="REG-LIVE"),
        V("selected-only-variable-not-reset", S, "QueryObjectDescriptor._reset_only_my_cache_",
          "        for selected_variable in self.selected_variables:\n            for variable in selected_variable._all_variable_instances_:\n                variable._reset_only_my_cache_()\n", "", rule="REG-LIVE"),
        # behaviour-preserving since 99b6078: a wrapper without an identifier no longer looks `_id_` up on the wrapped object (type test)
        V("twin-registration-wraps-without-identifier", PR, "instantiate_class_and_update_cache", "HashedValue(instance, id(instance))", "HashedValue(instance)", kind="twin"),
    ]
    return {
        "C03": neg + reentrant[:1],
        "C04": fresh + live[1:3],
        "C06": fresh[:2],
        "C17": fresh[:1],
        "C11": fresh[:1] + concl[1:],
        "C15": fresh[:1],
        "C12": concl,
        "C01": reentrant,
        "C19": reentrant[:2],
        "C09": ctx[:1],
        "C08": ctx,
        "C14": live,
    }


for _pid, _vs in _batch8().items():
    REGISTRY[_pid] = _merged(REGISTRY[_pid], (lambda vs: (lambda: vs))(_vs))


# ---------------------------------------------------------------------------------------------------------------------
# ninth batch: the rules added after the fifth round of seeded changes and the repairs it led to
CS = "conclusion_selector"


def _batch9() -> Dict[str, List[V]]:
    relink = [
        V("refinement-relinks-the-right-slot-unless-parent-is-a-refinement", "rule", "refinement",
          "    if isinstance(prev_parent, BinaryOperator):\n        # evaluation follows the operands of the parent operator, so the operand that was the refined node has to\n        # become the new ExceptIf node.\n        if prev_parent.left is current_node:\n            prev_parent.left = new_conditions_root\n        else:\n            prev_parent.right = new_conditions_root",
          "    if isinstance(prev_parent, ExceptIf) and prev_parent.left is current_node:\n        prev_parent.left = new_conditions_root\n    elif isinstance(prev_parent, BinaryOperator):\n        prev_parent.right = new_conditions_root",
          rule="TREE-SURGERY"),
        V("twin-refinement-relink-tests-the-right-slot", "rule", "refinement",
          "        if prev_parent.left is current_node:\n            prev_parent.left = new_conditions_root\n        else:\n            prev_parent.right = new_conditions_root",
          "        if prev_parent.right is current_node:\n            prev_parent.right = new_conditions_root\n        else:\n            prev_parent.left = new_conditions_root", kind="twin"),
    ]
    bound = [
        V("bound-again-mapping-ignores-the-inversion", S, "DomainMapping._evaluate__", "            self._is_false_ = bool(value) if self._invert_ else not value\n", "            self._is_false_ = not value\n", rule="NEG-TRUTH"),
        V("bound-again-mapping-drops-requested-false-rows", S, "DomainMapping._evaluate__", "            if yield_when_false or not self._is_false_:\n                yield sources\n            return\n        child_val",
          "            if not self._is_false_:\n                yield sources\n            return\n        child_val", rule="NEG-TRUTH"),
        V("bound-again-comparison-tests-the-wrapper", S, "Comparator._evaluate__", "self._is_false_ = not sources[self._id_].value", "self._is_false_ = not sources[self._id_]", rule="BOUND-AGAIN-TRUTH"),
    ]
    index = [
        V("miss-does-not-fall-back-to-the-wildcard", CD, "IndexedCache.retrieve",
          "            if All in cache:\n                branches.append((All, cache[All]))\n            if not branches:",
          "            if not branches:", rule="RETRIEVE-MISS-WILDCARD"),
        V("open-entry-followed-only-on-a-miss", CD, "IndexedCache.retrieve",
          "            if All in cache:\n                branches.append((All, cache[All]))\n            if not branches:",
          "            if not branches and All in cache:\n                branches.append((All, cache[All]))\n            if not branches:", rule="RETRIEVE-ALL-BRANCHES"),
        V("coverage-record-is-the-callers-dict", CD, "IndexedCache.insert", "        seen_assignment = dict(assignment)\n        self.seen_set.add(seen_assignment)", "        self.seen_set.add(assignment)", rule="STORE-NO-ALIAS"),
        V("twin-coverage-record-copied-inline", CD, "IndexedCache.insert", "        seen_assignment = dict(assignment)\n        self.seen_set.add(seen_assignment)", "        self.seen_set.add(dict(assignment))", kind="twin"),
        V("falsy-key-value-filed-under-the-wildcard", CD, "IndexedCache.insert", "v = assignment.get(k, All)", "v = assignment.get(k) or All", rule="INSERT-RETRIEVABLE"),
        V("twin-wildcard-by-membership", CD, "IndexedCache.insert", "v = assignment.get(k, All)", "v = assignment[k] if k in assignment else All", kind="twin"),
    ]
    the = [
        V("nested-the-keeps-no-solution", S, "The._evaluate_", "        self._is_false_ = result is None\n        if self._is_false_:", "        if result is None:\n            self._is_false_ = True", rule="THE-OUTCOME"),
    ]
    tail = [
        V("position-taken-after-the-snapshot", HD, "HashedIterable.__iter__", "        position = len(self.pulled)\n        yield from list(self.values.values())\n", "        yield from list(self.values.values())\n        position = len(self.pulled)\n", rule="SHARED-TAIL"),
        V("record-not-re-read-after-a-yield", HD, "HashedIterable.__iter__", "                yield v\n                if position < len(self.pulled):\n                    break\n", "                yield v\n", rule="SHARED-TAIL"),
        V("iteration-ends-without-re-reading-the-record", HD, "HashedIterable.__iter__", "            else:\n                if position >= len(self.pulled):\n                    return", "            else:\n                return", rule="SHARED-TAIL"),
    ]
    live = [
        V("selected-expression-reset-through-its-var-only", S, "QueryObjectDescriptor._reset_only_my_cache_",
          "            for variable in selected_variable._all_variable_instances_:\n                variable._reset_only_my_cache_()\n", "            selected_variable._var_._reset_only_my_cache_()\n", rule="REG-LIVE"),
        V("registry-stores-memoised", S, "Variable._cache_keys_", "    @property\n    def _cache_keys_(self)", "    @property\n    @lru_cache(maxsize=None)\n    def _cache_keys_(self)", rule="REG-LIVE"),
        V("conclusion-reset-does-nothing", "conclusion", "Conclusion._reset_cache_", "        for variable in self.value._all_variable_instances_:\n            variable._reset_only_my_cache_()\n", "        ...\n", rule="REG-LIVE"),
    ]
    ident = [
        V("identifier-of-primitives-from-their-hash", HD, "HashedValue.__post_init__", "            else:\n                self.id_ = id(self.value)",
          "            elif isinstance(self.value, (int, float, str, bytes)):\n                self.id_ = hash(self.value)\n            else:\n                self.id_ = id(self.value)", rule="VALUE-IDENTITY"),
    ]
    replay = [
        V("replayed-false-rows-all-dropped", S, "BinaryOperator.yield_final_output_from_cache", "if (is_false or suppress_true_duplicates) and self._is_duplicate_output_(output):",
          "if is_false or suppress_true_duplicates and self._is_duplicate_output_(output):", rule="REPLAY-DEDUP"),
        V("replay-hands-on-unasked-false-rows", S, "BinaryOperator.yield_final_output_from_cache", "            if is_false and not yield_when_false:\n                continue\n", "", rule="REPLAY-FALSE-ASKED"),
        V("comparison-replay-not-told-the-request", S, "Comparator._evaluate__", "yield from self.yield_final_output_from_cache(sources, yield_when_false=yield_when_false)", "yield from self.yield_final_output_from_cache(sources)", rule="REPLAY-FALSE-ASKED"),
        V("twin-replay-skip-phrased-otherwise", S, "BinaryOperator.yield_final_output_from_cache", "            if is_false and not yield_when_false:\n                continue\n", "            if not yield_when_false and is_false:\n                continue\n", kind="twin"),
    ]
    parent = [
        V("descriptor-does-not-tell-its-condition-who-evaluates-it", S, "QueryObjectDescriptor._evaluate_", "            self._child_._eval_parent_ = self\n", "", rule="EVAL-PARENT-SET"),
        V("duplicate-store-selected-by-the-node-itself", S, "SymbolicExpression._is_duplicate_output_", "parent_id = self._parent_._id_", "parent_id = self._id_", rule="DEDUP-PER-PARENT"),
    ]
    concrete = [
        V("predicate-arguments-renamed-before-the-ordinary-call", PR, "predicate.wrapper", "        if in_symbolic_mode():\n", "        kwargs.update(dict(zip([p for p in inspect.signature(function).parameters], args)))\n        args = ()\n        if in_symbolic_mode():\n", rule="MODE-BRANCH"),
        V("allocator-only-when-the-class-defines-it", PR, "symbol", "    original_new = find_original_new(cls)\n", "    original_new = cls.__new__ if '__new__' in cls.__dict__ else object.__new__\n", rule="ALLOC-AS-UNDECORATED"),
        V("allocator-called-without-the-arguments", PR, "instantiate_class_and_update_cache", "        instance = original_new(symbolic_cls, *args, **kwargs)", "        instance = original_new(symbolic_cls)", rule="ALLOC-AS-UNDECORATED"),
        V("own-parameter-in-the-users-namespace", PR, "update_domain_and_kwargs_from_args", "(symbolic_cls: Type, /, *args, **kwargs)", "(symbolic_cls: Type, *args, **kwargs)", rule="KWARGS-NAMESPACE"),
    ]
    values = [
        V("for-all-skips-falsy-universal-values", S, "ForAll._evaluate__", "            ctx = {**sources, **var_val}\n", "            if self.variable._is_false_:\n                continue\n            ctx = {**sources, **var_val}\n", rule="VALUE-FLAG-NOT-READ"),
    ]
    neg = [
        V("not-asks-the-expression-for-the-flag", S, "Not", "    elif not hasattr(type(operand), '_invert_'):", "    elif not hasattr(operand, '_invert_'):", rule="NEG-HONOURED"),
    ]
    ctx = [
        V("fresh-context-stack-per-step", S, "An.evaluate", "with symbolic_mode(mode=None, _evaluation_stack=blocks_opened_by_user_code):\n                    try:", "with symbolic_mode(mode=None):\n                    try:", rule="EVAL-NO-CONTEXT"),
        V("user-class-called-under-the-current-mode", S, "Variable._call_user_code_", "        with symbolic_mode(mode=None):\n            return function(**kwargs)", "        return function(**kwargs)", rule="EVAL-NO-CONTEXT"),
    ]
    concl = [
        V("completion-only-over-variables-with-a-domain", S, "QueryObjectDescriptor._unbound_conclusion_variables_", "                            and (var._domain_ or not var._predicate_type_):", "                            and var._domain_:", rule="CONCLUSION-VARS-BOUND"),
        V("completion-ignores-flattened-expressions", S, "QueryObjectDescriptor._unbound_conclusion_variables_", "                    elif isinstance(var, Flatten):\n                        # one row per element\n                        unbound.append(var)\n", "", rule="CONCLUSION-VARS-BOUND"),
        V("every-selected-variable-marked-inferred", S, "QueryObjectDescriptor._inform_selected_variables_that_they_should_be_inferred_",
          "                if self._keeps_ranging_over_its_domain_(selected_variable, concluded_on):\n                    continue\n", "", rule="INFER-MARK"),
        V("infer-marks-at-construction", S, "Infer.__post_init__", "        self._node_.wrap_subtree = False\n", "        for v in self._child_.selected_variables:\n            v._is_inferred_ = True\n        self._node_.wrap_subtree = False\n", rule="INFER-MARK"),
        V("infer-mark-not-taken-back", S, "Infer._evaluate__", "        finally:\n            for v in marked:\n                v._is_inferred_ = False\n", "        finally:\n            pass\n", rule="EVAL-STATE-RESET"),
    ]
    delegate = [
        V("set-of-drops-the-request-for-false-rows", S, "SetOf._evaluate__", "sol_gen = self._evaluate_(self.selected_variables, sources, yield_when_false=yield_when_false)", "sol_gen = self._evaluate_(self.selected_variables, sources)", rule="REQUEST-DELEGATED"),
    ]
    return {
        "C01": bound + index[:1] + tail[:1] + replay + parent,
        "C02": replay[:1] + parent + delegate,
        "C03": bound[:2] + neg,
        "C04": tail + live + replay[1:3] + concl[3:],
        "C05": index + replay,
        "C06": the,
        "C07": tail,
        "C08": concrete + ctx[:1],
        "C09": ctx,
        "C10": values + replay[1:2],
        "C11": bound[1:2] + parent,
        "C12": relink + concl,
        "C13": tail[1:] + concrete[3:],
        "C14": live + concl[3:] + concrete[1:3],
        "C15": parent[:1] + delegate,
        "C16": ident + concl[:3],
        "C18": delegate,
        "C19": values + bound[1:2],
        "C20": index[1:],
    }


for _pid, _vs in _batch9().items():
    REGISTRY[_pid] = _merged(REGISTRY[_pid], (lambda vs: (lambda: vs))(_vs))


# --------------------------------------------------------------------------------------------------------------------
# batch 10: the mechanisms of round 6 (each next to a behaviour-preserving twin where one exists)
def _batch10() -> Dict[str, List[V]]:
    index = [
        V("retrieve-asks-the-coverage-record-first", CD, "IndexedCache.retrieve", "        if cache is None:\n            cache = self.cache\n",
          "        if cache is None:\n            if not self.check(assignment):\n                return\n            cache = self.cache\n", rule="RETRIEVE-TRIE-ONLY"),
        V("coverage-record-drops-the-more-general-bindings", CD, "SeenSet.add", "            self.seen.append(assignment)\n",
          "            self.seen = [c for c in self.seen if not all(k in assignment and assignment[k] == v for k, v in c.items())]\n            self.seen.append(assignment)\n",
          rule="COVERAGE-MONOTONE"),
        V("twin-coverage-record-rebound-to-itself-plus-the-binding", CD, "SeenSet.add", "            self.seen.append(assignment)\n", "            self.seen = self.seen + [assignment]\n", kind="twin"),
        V("twin-coverage-record-drops-what-the-new-binding-subsumes", CD, "SeenSet.add", "            self.seen.append(assignment)\n",
          "            self.seen = [c for c in self.seen if not all(k in c and c[k] == v for k, v in assignment.items())]\n            self.seen.append(assignment)\n",
          kind="twin"),
    ]
    live = [
        V("conclusion-reset-visits-the-concluded-variable-only", "conclusion", "Conclusion._reset_cache_", "for variable in self.value._all_variable_instances_:",
          "for variable in self.var._all_variable_instances_:", rule="REG-LIVE"),
        V("twin-conclusion-reset-visits-all-its-variables", "conclusion", "Conclusion._reset_cache_", "for variable in self.value._all_variable_instances_:",
          "for variable in self._all_variable_instances_:", kind="twin"),
        V("registry-domain-kept-when-nothing-was-pulled", S, "Variable._reset_only_my_cache_", "        if self._domain_is_the_registry_:\n",
          "        if self._domain_is_the_registry_ and self._domain_.values:\n", rule="REG-LIVE"),
    ]
    table = [
        V("indexable-object-taken-for-a-collection", "utils", "is_iterable", "return hasattr(obj, \"__iter__\") and not isinstance",
          "return (hasattr(obj, \"__iter__\") or hasattr(obj, \"__getitem__\")) and not isinstance", rule="COLLECTION-TABLE"),
        V("strings-are-collections", "utils", "is_iterable", "(str, type, bytes, bytearray)", "(type, bytes, bytearray)", rule="COLLECTION-TABLE"),
        V("twin-collection-test-operands-swapped", "utils", "is_iterable", "return hasattr(obj, \"__iter__\") and not isinstance(obj, (str, type, bytes, bytearray))",
          "return not isinstance(obj, (str, type, bytes, bytearray)) and hasattr(obj, \"__iter__\")", kind="twin"),
    ]
    sentinel = [
        V("none-result-taken-for-the-end-of-results", S, "An.evaluate",
          "                    try:\n                        result = next(results)\n                    except StopIteration:\n                        break\n                    result = self._process_result_(result)\n                yield result\n",
          "                    result = next(results, None)\n                    if result is not None:\n                        result = self._process_result_(result)\n                if result is None:\n                    break\n                yield result\n",
          rule="VALUE-NOT-TESTED"),
        V("twin-end-of-results-tested-on-the-row", S, "An.evaluate",
          "                    try:\n                        result = next(results)\n                    except StopIteration:\n                        break\n                    result = self._process_result_(result)\n",
          "                    result = next(results, None)\n                    if result is None:\n                        break\n                    result = self._process_result_(result)\n",
          kind="twin"),
        V("none-entry-taken-for-no-entry", S, "Index._apply_mapping_", "        yield HashedValue(id_=value.id_, value=value.value[self._key_])\n",
          "        item = value.value.get(self._key_) if isinstance(value.value, dict) else value.value[self._key_]\n        if item is None:\n            return\n        yield HashedValue(id_=value.id_, value=item)\n",
          rule="VALUE-NOT-TESTED"),
        V("completion-of-for-all-rows-in-condition-mode", S, "ForAll._bind_unbound_condition_variables_", "var.value._evaluate_as_value_(copy(binding))", "var.value._evaluate__(copy(binding))",
          rule="VALUE-TRUTH"),
    ]
    head = [
        V("quantified-head-argument-replaced-by-its-variable", PR, "symbol.symbolic_new", "            var = Variable(symbolic_cls.__name__, symbolic_cls, _kwargs_=kwargs,",
          "            kwargs = {k: v._var_ if isinstance(v, ResultQuantifier) else v for k, v in kwargs.items()}\n            var = Variable(symbolic_cls.__name__, symbolic_cls, _kwargs_=kwargs,",
          rule="QUANT-NOT-STRIPPED"),
    ]
    selector = [
        V("alternative-drops-rows-by-the-variables-of-the-conclusions", "conclusion_selector", "Alternative",
          "    def _is_duplicate_output_(self, output: Dict[int, HashedValue]) -> bool:\n        # For alternatives, avoid suppressing outputs based solely on variable values,\n        # as different branches may yield different conclusions for the same bindings.\n        # Let ConclusionSelector.update_conclusion handle deduplication of conclusions.\n        return False\n",
          "", rule="SELECTOR-ROW-DEDUP"),
    ]
    replay = [
        V("and-evaluates-as-well-after-a-replay", S, "AND._evaluate__",
          "                                                                  yield_when_false=yield_when_false)\n                    continue\n",
          "                                                                  yield_when_false=yield_when_false)\n", rule="REPLAY-OR-EVALUATE"),
        V("and-ends-after-a-replay", S, "AND._evaluate__",
          "                                                                  yield_when_false=yield_when_false)\n                    continue\n",
          "                                                                  yield_when_false=yield_when_false)\n                    return\n", rule="REPLAY-OR-EVALUATE"),
    ]
    args = [
        V("selected-list-copied-only-when-it-is-not-a-list", "entity", "_extract_variables_and_expression", "    selected_variables = list(selected_variables)\n",
          "    if not isinstance(selected_variables, list):\n        selected_variables = list(selected_variables)\n", rule="ARG-NOT-MUTATED"),
        V("twin-selected-list-copied-by-a-comprehension", "entity", "_extract_variables_and_expression", "    selected_variables = list(selected_variables)\n",
          "    selected_variables = [v for v in selected_variables]\n", kind="twin"),
    ]
    rows = [
        V("variable-hands-out-memoised-binding-dicts", S, "Variable.__iter__", "            yield {self._id_: HashedValue(v)}\n",
          "            memo = self.__dict__.setdefault(\"_bindings_\", {})\n            if v.id_ not in memo:\n                memo[v.id_] = {self._id_: HashedValue(v)}\n            yield memo[v.id_]\n",
          rule="ROW-NOT-RETAINED"),
        V("twin-variable-builds-the-binding-in-a-local", S, "Variable.__iter__", "            yield {self._id_: HashedValue(v)}\n",
          "            row = {self._id_: HashedValue(v)}\n            yield row\n", kind="twin"),
    ]
    trackers = [
        V("one-tracker-for-true-and-false-rows", S, "SymbolicExpression._is_duplicate_output_", "{True: SeenSet(), False: SeenSet()})", "dict.fromkeys((True, False), SeenSet()))",
          rule="DEDUP-TRACKERS-DISTINCT"),
        V("twin-trackers-by-comprehension", S, "SymbolicExpression._is_duplicate_output_", "{True: SeenSet(), False: SeenSet()})", "{truth: SeenSet() for truth in (True, False)})",
          kind="twin"),
    ]
    forall = [
        V("for-all-accumulates-the-uncompleted-row", S, "ForAll._evaluate__", "for k, v in complete_val.items() if k in self.condition_unique_variable_ids}",
          "for k, v in condition_val.items() if k in self.condition_unique_variable_ids}", rule="FORALL-TOTAL-ROWS"),
        V("completion-stops-after-one-variable", S, "ForAll._bind_unbound_condition_variables_", "                    yield from self._bind_unbound_condition_variables_(extended_binding)\n",
          "                    yield extended_binding\n", rule="FORALL-TOTAL-ROWS"),
    ]
    failure = [
        V("multiple-solutions-message-looks-keys-up", "failures", "MultipleSolutionFound.__init__",
          "        super(MultipleSolutionFound, self).__init__(\n            f\"Multiple solutions found, the first two are {first_val}\\n{second_val}\"\n        )",
          "        differing = {var_id: (value, second_val[var_id]) for var_id, value in first_val.items() if second_val[var_id] != value}\n        super(MultipleSolutionFound, self).__init__(f\"Multiple solutions found, the first two differ in {differing}\")",
          rule="FAILURE-CTOR-TOTAL"),
        V("twin-multiple-solutions-message-with-get", "failures", "MultipleSolutionFound.__init__",
          "        super(MultipleSolutionFound, self).__init__(\n            f\"Multiple solutions found, the first two are {first_val}\\n{second_val}\"\n        )",
          "        differing = {var_id: (value, second_val.get(var_id)) for var_id, value in first_val.items() if second_val.get(var_id) != value}\n        super(MultipleSolutionFound, self).__init__(f\"Multiple solutions found, the first two differ in {differing}\")",
          kind="twin"),
    ]
    ident = [
        V("identifier-taken-from-any-object-that-has-an-id-attribute", HD, "HashedValue.__post_init__", "            elif isinstance(self.value, IdentifiedByItself):\n",
          "            elif hasattr(self.value, \"_id_\"):\n", rule="VALUE-IDENTITY"),
    ]
    stack = [
        V("context-stack-aliased-at-import", PR, None, "symbols_registry: List[Type] = []\n",
          "symbols_registry: List[Type] = []\n\n_open_queries = SymbolicExpression._symbolic_expression_stack_\n",
          also=[("        node = SymbolicExpression._current_parent_()\n        args = bind_first_argument_of_predicate_if_in_query_context(node, predicate_type, *args)\n        domain, kwargs",
                 "        node = _open_queries[-1] if _open_queries else None\n        args = bind_first_argument_of_predicate_if_in_query_context(node, predicate_type, *args)\n        domain, kwargs")],
          rule="STACK-READ-LIVE"),
        V("context-stack-as-a-default-argument", S, "SymbolicExpression._current_parent_", "    def _current_parent_(cls) -> Optional[SymbolicExpression]:\n",
          "    def _current_parent_(cls, stack=_initial_stack_) -> Optional[SymbolicExpression]:\n", rule=None, kind="twin"),
    ][:1] + [
        V("an-closed-in-the-callers-environment", S, "An.evaluate", "            with symbolic_mode(mode=None, _evaluation_stack=blocks_opened_by_user_code):\n                results.close()\n",
          "            results.close()\n", rule="MODE-OFF-DOM"),
    ]
    memo = [
        V("flatten-elements-memoised-per-parent", S, "Flatten", "    def _apply_mapping_(self, value: HashedValue) -> Iterable[HashedValue]:\n        inner = value.value\n        # Treat non-iterables as singletons\n        if not is_iterable(inner):\n            inner_iter = [inner]\n        else:\n            inner_iter = inner\n        for inner_v in inner_iter:\n            yield HashedValue(inner_v)\n",
          "    def _apply_mapping_(self, value: HashedValue) -> Iterable[HashedValue]:\n        yield from self._elements_of_(value)\n\n    @lru_cache(maxsize=None)\n    def _elements_of_(self, value: HashedValue):\n        inner = value.value\n        if not is_iterable(inner):\n            inner = [inner]\n        return tuple(HashedValue(inner_v) for inner_v in inner)\n",
          rule="MAPPING-NOT-MEMOISED"),
    ]
    return {
        "C08": stack,
        "C09": stack,
        "C15": replay[:0],
        "C01": ident + replay + trackers,
        "C02": replay + args + rows + trackers + ident,
        "C03": trackers + replay[:1],
        "C04": replay,
        "C05": replay + trackers,
        "C06": failure + ident + live[2:],
        "C10": forall + ident + replay[:1] + live[2:],
        "C11": head,
        "C12": selector,
        "C13": table + args + ident,
        "C14": live + ident,
        "C16": table[:1] + memo,
        "C18": forall + replay,
        "C19": sentinel + memo,
        "C20": index,
    }


for _pid, _vs in _batch10().items():
    REGISTRY[_pid] = _merged(REGISTRY[_pid], (lambda vs: (lambda: vs))(_vs))


# --------------------------------------------------------------------------------------------------------------------
# batch 11: the mechanisms of round 7
def _batch11() -> Dict[str, List[V]]:
    CS = "conclusion_selector"
    parent = [
        V("eval-parent-not-wiped-by-the-reset", S, "SymbolicExpression._reset_only_my_cache_", "        self._eval_parent_ = None\n", "", rule="EVAL-PARENT-RESET"),
        V("for-all-does-not-tell-its-operands", S, "ForAll._evaluate__", "        self.variable._eval_parent_ = self\n        self.condition._eval_parent_ = self\n", "", rule="EVAL-PARENT-SET"),
        V("predicate-argument-not-told-who-evaluates-it", S, "Variable._bind_child_vars_", "        var._eval_parent_ = self\n", "", rule="EVAL-PARENT-SET"),
        V("parent-asked-about-the-child", S, "ResultQuantifier._required_variables_from_child_", "vars = self._parent_._required_variables_from_child_(self, when_true=when_true)",
          "vars = self._parent_._required_variables_from_child_(child, when_true=when_true)", rule="REQUIRED-ASK-AS-SELF"),
    ]
    dedup = [
        V("duplicate-test-on-the-left-row", S, "ElseIf._evaluate__", "                                if self._is_duplicate_output_(output):\n                                    continue\n                            self.update_cache(right_value, self.right_cache)",
          "                                if self._is_duplicate_output_(left_value):\n                                    continue\n                            self.update_cache(right_value, self.right_cache)", rule="DEDUP-TESTS-YIELDED-ROW"),
        V("bound-again-comparison-falls-through", S, "Comparator._evaluate__", "            if yield_when_false or not self._is_false_:\n                yield sources\n            return\n",
          "            if yield_when_false or not self._is_false_:\n                yield sources\n", rule="BOUND-AGAIN-ONCE"),
        V("and-replay-suppresses-true-duplicates", S, "AND._evaluate__", "yield from self.yield_final_output_from_cache(left_value, self.right_cache,\n                                                                  yield_when_false=yield_when_false)",
          "yield from self.yield_final_output_from_cache(left_value, self.right_cache, suppress_true_duplicates=True,\n                                                                  yield_when_false=yield_when_false)", rule="REPLAY-DEDUP"),
        V("predicate-rows-filtered-by-the-stored-request", S, "Variable._evaluate__", "                    if yield_when_false or not self._is_false_:\n                        yield v\n",
          "                    if self._yield_when_false_ or not self._is_false_:\n                        yield v\n", rule="REENTRANT-FLAG"),
    ]
    record = [
        V("record-emptied-when-the-source-is-exhausted", HD, "HashedIterable.__iter__", "                if position >= len(self.pulled):\n                    return",
          "                if position >= len(self.pulled):\n                    self.pulled.clear()\n                    return", rule="PULLED-RECORD"),
        V("added-value-recorded-as-pulled", HD, "HashedIterable.add", "            self.values[value.id_] = value\n", "            self.values[value.id_] = value\n            self.pulled.append(value)\n", rule="PULLED-RECORD"),
        V("stores-read-one-after-the-other", CD, "yield_class_values_from_cache", "    found = [list(cache[t].retrieve(assignment, from_index=from_index)) for t in cache_keys]\n    for rows in found:\n        yield from rows\n",
          "    for t in cache_keys:\n        yield from cache[t].retrieve(assignment, from_index=from_index)\n", rule="REG-SNAPSHOT"),
        V("twin-stores-read-in-a-loop-first", CD, "yield_class_values_from_cache", "    found = [list(cache[t].retrieve(assignment, from_index=from_index)) for t in cache_keys]\n",
          "    found = []\n    for t in cache_keys:\n        found.append(list(cache[t].retrieve(assignment, from_index=from_index)))\n", kind="twin"),
    ]
    lazy_ = [
        V("required-variables-iterate-a-variable", S, "QueryObjectDescriptor._required_variables_from_child_", "        required_vars.update(self.selected_variables)\n        for var in self.selected_variables:\n",
          "        for var in self.selected_variables:\n            required_vars.update(var)\n", rule="EXPRESSION-NOT-ITERATED"),
    ]
    tree = [
        V("refinement-slot-chosen-by-equality", "rule", "refinement", "if prev_parent.left is current_node:", "if prev_parent.left == current_node:", rule="EXPR-IDENTITY"),
        V("node-looked-up-among-ancestors-by-equality", S, "Variable._replace_expression_with_", "if not any(new_expression._node_ is ancestor for ancestor in p.ancestors)]", "if new_expression._node_ not in p.ancestors]", rule="EXPR-IDENTITY"),
        V("conclusions-of-the-children-only", S, "SymbolicExpression._conclusions_of_all_descendants_", "for child in self._descendants_ for conc", "for child in self._children_ for conc", rule="DEDUP-CONCLUSIONS"),
        V("refinement-does-not-take-back", CS, "ExceptIf._evaluate__", "                if not right_yielded and isinstance(self.left, ConclusionSelector):\n                    # the refinement fires: what the refined branch selected for this row is not drawn.\n                    self.left._take_back_conclusions_of_this_row_()\n", "",
          rule="CONCLUDED-WHEN-KEPT"),
        V("refinement-rows-keyed-by-the-conclusions-only", CS, "ExceptIf._required_variables_from_child_", "                required_vars.update(self.left._unique_variables_)\n", "", rule="REFINEMENT-PER-ROW"),
        V("conclusion-marks-the-variable-it-is-drawn-on", "conclusion", "Conclusion.__post_init__", "        self.value._is_inferred_ = True\n", "        self.value._is_inferred_ = True\n        self.var._var_._is_inferred_ = True\n", rule="INFER-MARK"),
        V("already-inferred-variable-recorded-for-un-marking", S, "QueryObjectDescriptor._inform_selected_variables_that_they_should_be_inferred_",
          "if not isinstance(selected_variable, Variable) or selected_variable._is_inferred_:", "if not isinstance(selected_variable, Variable):", rule="INFER-MARK"),
        V("implicit-predicate-not-linked", PR, "update_query_child_expression_if_in_query_context", "        node._child_._update_child_()\n", "", rule="SLOT-STORE-LINKED"),
    ]
    subq = [
        V("sub-query-a-conjunct-only-when-it-has-conditions", "entity", "_extract_variables_and_expression", "            expression_list.append(result_quantifier)\n",
          "            if result_quantifier._child_._child_ is not None:\n                expression_list.append(result_quantifier)\n", rule="QUANT-NOT-STRIPPED"),
        V("short-form-drops-the-conditions", "entity", "select_one_or_select_many_or_infer", "q = quantifier(set_of(entity_, *properties))", "q = quantifier(set_of(entity_))", rule="CONDITIONS-FORWARDED"),
    ]
    vars_ = [
        V("variables-of-variable-arguments-only", S, "Variable._all_variable_instances_", "            variables.extend(v._all_variable_instances_)\n", "            if isinstance(v, Variable):\n                variables.extend(v._all_variable_instances_)\n", rule="VARS-COMPLETE"),
        V("concatenation-counts-itself", S, "Concatenate._all_variable_instances_", "        return self._child_._all_variable_instances_\n", "        return self._child_._all_variable_instances_ + [self]\n", rule="VARS-COMPLETE"),
        V("for-all-key-only-for-true-rows", S, "ForAll._required_variables_from_child_", "        if child is self.right:\n", "        if child is self.right and when_true:\n", rule="FORALL-KEY"),
    ]
    ident = [
        V("literal-copies-container-constants", S, "Literal.__init__", "        data = [data]\n", "        data = [copy(data) if is_iterable(data) else data]\n", rule="ID-KEEP"),
        V("positional-names-keyed-by-the-class-name", PR, "update_domain_and_kwargs_from_args", "init_args = cls_args[symbolic_cls]", "init_args = cls_args[symbolic_cls.__qualname__]", rule="CLS-ARGS-SIGNATURE"),
    ]
    return {
        "C01": parent + dedup + record[:2],
        "C02": parent + dedup[:3] + subq + vars_[:1],
        "C03": dedup[3:],
        "C04": parent[:2] + record + tree[6:7],
        "C05": dedup[:1] + dedup[2:3],
        "C06": dedup[:1],
        "C07": record[:2] + lazy_,
        "C10": parent[:2] + vars_,
        "C11": record + vars_[:1] + ident[:1] + tree[1:2],
        "C12": tree,
        "C13": ident[1:],
        "C14": record + tree[1:2] + tree[5:6] + tree[7:],
        "C15": parent[2:] + dedup[1:2] + dedup[3:] + subq[:1],
        "C16": tree[:1] + dedup[2:3],
        "C17": subq[1:] + vars_[1:2],
        "C18": dedup[3:] + subq + vars_[2:],
        "C19": dedup[3:],
    }


for _pid, _vs in _batch11().items():
    REGISTRY[_pid] = _merged(REGISTRY[_pid], (lambda vs: (lambda: vs))(_vs))


# --------------------------------------------------------------------------------------------------------------------
# batch 12: the mechanisms of round 8 and the repairs made after it (each next to a behaviour-preserving twin where one exists)
def _batch12() -> Dict[str, List[V]]:
    index = [
        V("bound-key-miss-falls-back-to-every-entry", CD, "IndexedCache.retrieve", "            if not branches:\n                self.search_count += 1\n",
          "            if not branches:\n                self.search_count += 1\n                branches = list(cache.items())\n", rule="RETRIEVE-ALL-BRANCHES"),
        V("twin-branch-list-started-before-the-case-split", CD, "IndexedCache.retrieve",
          "        if key in assignment:\n            # presence is membership: what is stored under a key may be any output, None included.\n            branches = []\n",
          "        branches = []\n        if key in assignment:\n            # presence is membership: what is stored under a key may be any output, None included.\n", kind="twin"),
        V("entry-handed-out-with-the-accumulator", CD, "IndexedCache.retrieve", "                yield copy(local_result), cache_val\n", "                yield local_result, cache_val\n",
          rule="RESULT-NO-ALIAS"),
        V("twin-entry-handed-out-as-a-new-dict", CD, "IndexedCache.retrieve", "                yield copy(local_result), cache_val\n", "                yield dict(local_result), cache_val\n",
          kind="twin"),
    ]
    stack = [
        V("evaluation-stack-as-a-shared-default", S, "symbolic_mode", "                  _evaluation_stack: Optional[List[SymbolicExpression]] = None):",
          "                  _evaluation_stack: List[SymbolicExpression] = []):", rule="NO-SHARED-DEFAULT",
          also=[("SymbolicExpression._symbolic_expression_stack_ = [] if _evaluation_stack is None else _evaluation_stack", "SymbolicExpression._symbolic_expression_stack_ = _evaluation_stack")]),
        V("twin-fresh-stack-by-a-call", S, "symbolic_mode", "SymbolicExpression._symbolic_expression_stack_ = [] if _evaluation_stack is None else _evaluation_stack",
          "SymbolicExpression._symbolic_expression_stack_ = list() if _evaluation_stack is None else _evaluation_stack", kind="twin"),
        V("infer-returns-the-unstarted-generator-from-its-bracket", S, "Infer._evaluate__", "            yield from super()._evaluate__(sources, yield_when_false=yield_when_false)\n",
          "            return super()._evaluate__(sources, yield_when_false=yield_when_false)\n", rule="STREAM-UNDER-CLEANUP"),
    ]
    members = [
        V("type-filter-judges-an-attribute-of-the-member", PR, "extract_selected_variable_and_expression", "lambda v: isinstance(v, symbolic_cls), domain.domain",
          "lambda v: isinstance(getattr(v, 'value', v), symbolic_cls), domain.domain", rule="DECL-FILTER"),
        V("twin-type-filter-with-another-parameter-name", PR, "extract_selected_variable_and_expression", "lambda v: isinstance(v, symbolic_cls), domain.domain",
          "lambda member: isinstance(member, symbolic_cls), domain.domain", kind="twin"),
        V("dict-is-a-single-value", "utils", "is_iterable", "(str, type, bytes, bytearray)", "(str, type, bytes, bytearray, dict)", rule="COLLECTION-TABLE"),
    ]
    link = [
        V("graph-link-only-when-the-predicate-is-the-first-condition", PR, "update_query_child_expression_if_in_query_context",
          "        else:\n            node._child_._child_ = var\n", "        else:\n            node._child_._child_ = var\n            node._child_._update_child_()\n",
          rule="SLOT-STORE-LINKED", also=[("        # the registry anew only when the reset reaches it.\n        node._child_._update_child_()\n", "        # the registry anew only when the reset reaches it.\n")]),
        V("children-of-a-node-by-primary-parent-only", "rxnode", "RWXNode.children", "        return self._graph.successors(self.id)\n",
          "        return [c for c in self._graph.successors(self.id) if c._primary_parent_id == self.id]\n", rule="GRAPH-TRAVERSAL-ALL"),
        V("twin-children-as-a-list", "rxnode", "RWXNode.children", "        return self._graph.successors(self.id)\n", "        return list(self._graph.successors(self.id))\n", kind="twin"),
        V("reset-drops-the-tracking-of-one-parent-only", S, "SymbolicExpression._reset_only_my_cache_", "        self._seen_parent_values_by_parent_ = {}\n",
          "        if self._parent_ is not None:\n            self._seen_parent_values_by_parent_.pop(self._parent_._id_, None)\n        else:\n            self._seen_parent_values_by_parent_ = {}\n",
          rule="EVAL-STATE-RESET"),
    ]
    quant = [
        V("requantified-by-the-selected-variable-alone", "entity", "select_one_or_select_many_or_infer", "quantifier(entity_._child_)", "quantifier(entity(entity_._var_))",
          rule="REQUANTIFY-DESCRIPTION"),
        V("conditions-next-to-a-description-dropped", "entity", "select_one_or_select_many_or_infer",
          "        if properties:\n            # they would be dropped without a word, and the query would answer for fewer conditions than were written.\n            raise ValueError(f'Conditions given next to a description are not part of it: write them inside '\n                             f'entity(...) / set_of(...), got {len(properties)} outside.')\n",
          "", rule="CONDITIONS-NOT-DROPPED"),
        V("the-keeps-its-solution-for-the-rest-of-the-evaluation", S, "The._evaluate_", "        if self._id_ in sources:\n            return sources\n",
          "        if self._id_ in sources:\n            return sources\n        if getattr(self, '_solution_', None) is not None:\n            result = copy(self._solution_)\n            result.update(sources)\n            return result\n",
          rule="ROW-NOT-MEMOISED", also=[("            result[self._id_] = result[self._var_._id_]\n", "            result[self._id_] = result[self._var_._id_]\n            self._solution_ = result\n")]),
    ]
    flags = [
        V("description-copies-the-truth-only-when-false-rows-are-asked", S, "QueryObjectDescriptor._evaluate_", "            if self._child_:\n                self._is_false_ = self._child_._is_false_\n",
          "            if self._child_ and yield_when_false:\n                self._is_false_ = self._child_._is_false_\n", rule="FLAG-PER-ROW"),
        V("else-if-counts-a-left-row-at-the-end-of-the-iteration", S, "ElseIf._evaluate__", "                any_left = True\n                left_value.update(sources)\n",
          "                left_value.update(sources)\n", rule="LOOP-RAN-FLAG",
          also=[("                else:\n                    self._is_false_ = False\n                    yield left_value\n", "                else:\n                    self._is_false_ = False\n                    yield left_value\n                any_left = True\n")]),
        V("replayed-rows-not-recorded", S, "BinaryOperator.yield_final_output_from_cache", "            replayed.add(row)\n", "", rule="SEEN-RECORDED"),
        V("and-completes-the-false-row-too-late", S, "AND._evaluate__", "                left_value.update(sources)\n                if yield_when_false and self.left._is_false_:\n",
          "                if yield_when_false and self.left._is_false_:\n", rule="BIND-THREAD",
          also=[("                    yield left_value\n                    continue\n\n", "                    yield left_value\n                    continue\n\n                left_value.update(sources)\n")]),
        V("and-completes-only-the-false-row", S, "AND._evaluate__", "                left_value.update(sources)\n                if yield_when_false and self.left._is_false_:\n",
          "                if yield_when_false and self.left._is_false_:\n                    left_value.update(sources)\n", rule="BIND-THREAD"),
    ]
    selector = [
        V("drawn-store-keyed-by-the-set-object", "conclusion_selector", "ConclusionSelector.update_conclusion", "frozenset(id(conclusion) for conclusion in conclusions), SeenSet())",
          "id(conclusions), SeenSet())", rule="CONCLUDED-PER-CONCLUSION"),
        V("refinement-draws-its-conclusions-for-the-first-row-only", "conclusion_selector", "ExceptIf._evaluate__",
          "                right_yielded = True\n                self._conclusion_.update(self.right._conclusion_)\n",
          "                if not right_yielded:\n                    self._conclusion_.update(self.right._conclusion_)\n                right_yielded = True\n", rule="SELECT-EVERY-ROW"),
    ]
    registry = [
        V("stores-read-through-a-generator-expression", CD, "yield_class_values_from_cache", "    found = [list(cache[t].retrieve(assignment, from_index=from_index)) for t in cache_keys]\n",
          "    found = (list(cache[t].retrieve(assignment, from_index=from_index)) for t in cache_keys)\n", rule="REG-SNAPSHOT"),
        V("factory-instance-filed-under-the-called-class", PR, "instantiate_class_and_update_cache", "        symbolic_cls = type(instance)\n", "", rule="REG-OWN-CLASS"),
        V("twin-factory-instance-class-read-from-dunder-class", PR, "instantiate_class_and_update_cache", "        symbolic_cls = type(instance)\n", "        symbolic_cls = instance.__class__\n", kind="twin"),
        V("supplied-domain-decided-by-what-was-pulled", S, "QueryObjectDescriptor._keeps_ranging_over_its_domain_", "supplied_domain = selected_variable._domain_source_ and not",
          "supplied_domain = selected_variable._domain_.values and not", rule="PULLED-SO-FAR-NOT-ASKED"),
        V("infer-marks-every-selected-variable", S, "Infer._evaluate__", "\n                  and not self._child_._keeps_ranging_over_its_domain_(v, concluded_on)]", "]", rule="INFER-MARK"),
        V("expression-domain-kept-across-evaluations", S, "Variable._reset_only_my_cache_", "            self._domain_source_.domain._reset_cache_()\n            self._domain_ = HashedIterable()\n            self._update_domain_(self._domain_source_.domain)\n",
          "            pass\n", rule="MEMO-SOURCE-FAILURE"),
        V("source-wrapped-in-a-generator-expression", HD, "HashedIterable._wrapped_lazily_", "        return map(lambda v: v if isinstance(v, HashedValue) else HashedValue(v), iterable)\n",
          "        return (v if isinstance(v, HashedValue) else HashedValue(v) for v in iterable)\n", rule="MEMO-SOURCE-FAILURE"),
    ]
    values = [
        V("negated-membership-asks-the-container-for-its-truth", S, "not_contains", "    return not operator.contains(a, b)\n", "    return not a or not operator.contains(a, b)\n", rule="OPERATION-ON-VALUES"),
        V("predicate-as-a-value-drops-its-false-rows", S, "Variable._falsy_value_is_false_", "        return self._predicate_type_ is not None\n", "        return False\n", rule="VALUE-TRUTH"),
        V("twin-predicate-value-flag-by-truthiness", S, "Variable._falsy_value_is_false_", "        return self._predicate_type_ is not None\n", "        return bool(self._predicate_type_)\n", kind="twin"),
        V("predicate-without-arguments-is-never-called", S, "Variable._evaluate__", "        elif self._child_vars_ or self._predicate_type_:\n", "        elif self._child_vars_:\n", rule="VARIABLE-DISPATCH"),
    ]
    return {
        "C01": flags[1:] + quant[1:2] + link[1:3],
        "C02": quant[1:] + link[1:3] + flags[3:],
        "C03": flags[3:] + values[:1] + index[:2],
        "C04": flags[1:3] + link[1:] + registry[5:],
        "C05": flags[1:3] + index[:2],
        "C06": quant[:1] + quant[2:] + registry[:1] + flags[4:],
        "C07": registry[3:4] + registry[6:],
        "C08": stack[:2],
        "C09": stack + values[3:] + registry[4:5],
        "C10": flags[3:],
        "C11": stack[2:] + registry[:1] + registry[3:5],
        "C12": selector,
        "C13": members + quant[:1] + values[3:],
        "C14": link[:3] + registry[:3] + registry[5:6],
        "C15": quant[:1] + quant[2:] + flags[:1],
        "C16": members[2:] + selector[1:],
        "C17": values[:1],
        "C18": flags[1:2] + flags[3:] + index[:2],
        "C19": values[:3],
        "C20": index,
    }


for _pid, _vs in _batch12().items():
    REGISTRY[_pid] = _merged(REGISTRY[_pid], (lambda vs: (lambda: vs))(_vs))
