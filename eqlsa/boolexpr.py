"""Truth-table evaluation of boolean expressions over named atoms, and guard extraction."""
from __future__ import annotations

import ast
import itertools
from typing import Callable, Dict, List, Optional, Tuple, Iterable

from .db import unparse, AnalysisError

AtomFn = Callable[[ast.AST], Optional[str]]


def eval_bool(e: ast.AST, atom_of: AtomFn, env: Dict[str, bool]):
    """Python value of expression `e` restricted to booleans, under assignment env of atoms."""
    a = atom_of(e)
    if a is not None:
        if a.startswith("!"):
            return not env[a[1:]]
        return env[a]
    if isinstance(e, ast.Constant) and isinstance(e.value, (bool, type(None))):
        return bool(e.value)
    if isinstance(e, ast.UnaryOp) and isinstance(e.op, ast.Not):
        return not eval_bool(e.operand, atom_of, env)
    if isinstance(e, ast.BoolOp):
        vals = [eval_bool(v, atom_of, env) for v in e.values]
        return all(vals) if isinstance(e.op, ast.And) else any(vals)
    if isinstance(e, ast.IfExp):
        return eval_bool(e.body, atom_of, env) if eval_bool(e.test, atom_of, env) else eval_bool(e.orelse, atom_of, env)
    if isinstance(e, ast.Compare) and len(e.ops) == 1 and isinstance(e.ops[0], (ast.Eq, ast.NotEq, ast.Is, ast.IsNot)):
        l = eval_bool(e.left, atom_of, env)
        r = eval_bool(e.comparators[0], atom_of, env)
        return (l == r) if isinstance(e.ops[0], (ast.Eq, ast.Is)) else (l != r)
    if isinstance(e, ast.Call) and isinstance(e.func, ast.Name) and e.func.id == "bool" and len(e.args) == 1:
        return eval_bool(e.args[0], atom_of, env)
    if isinstance(e, ast.NamedExpr):
        return eval_bool(e.value, atom_of, env)
    raise AnalysisError(f"expression `{unparse(e)}` is not a boolean combination of the rule's atoms")


def truth_table(e: ast.AST, atom_of: AtomFn, atoms: List[str]) -> Dict[Tuple[bool, ...], bool]:
    out = {}
    for vals in itertools.product([False, True], repeat=len(atoms)):
        env = dict(zip(atoms, vals))
        out[vals] = bool(eval_bool(e, atom_of, env))
    return out


def table_of(fn: Callable[..., bool], atoms: List[str]) -> Dict[Tuple[bool, ...], bool]:
    return {vals: bool(fn(**dict(zip(atoms, vals)))) for vals in itertools.product([False, True], repeat=len(atoms))}


def fmt_table(t: Dict[Tuple[bool, ...], bool], atoms: List[str]) -> str:
    return "; ".join(",".join(f"{a}={'T' if v else 'F'}" for a, v in zip(atoms, k)) + f"->{'T' if r else 'F'}"
                     for k, r in sorted(t.items()))


# ------------------------------------------------------------------ guards
def _is_exit_stmt(s: ast.stmt) -> bool:
    return isinstance(s, (ast.Continue, ast.Break, ast.Return, ast.Raise))


def _always_exits(body: List[ast.stmt]) -> bool:
    return bool(body) and _is_exit_stmt(body[-1])


def guards_of(target: ast.AST, root_body: List[ast.stmt]) -> Optional[List[Tuple[ast.AST, bool]]]:
    """
    The list of (test, polarity) under which `target` (a statement or an expression inside one) is
    reached from the start of `root_body`, considering only structured `if`s:
      * enclosing `if T:` / `else:` blocks,
      * earlier siblings `if T: ...; continue|break|return|raise` (then the rest runs under not T),
    at every nesting level between root_body and the target.  Loops / with / try between them are
    transparent.  Returns None if the target is not inside root_body.
    """
    def search(body: List[ast.stmt], acc: List[Tuple[ast.AST, bool]]):
        local = list(acc)
        for s in body:
            if s is target:
                return local
            if _contains(s, target):
                if isinstance(s, ast.If):
                    if _in_expr(s.test, target):
                        return local
                    if any(_contains(x, target) for x in s.body):
                        return search(s.body, local + [(s.test, True)])
                    return search(s.orelse, local + [(s.test, False)])
                if isinstance(s, (ast.For, ast.AsyncFor, ast.While)):
                    if any(_contains(x, target) for x in s.body):
                        return search(s.body, local)
                    if any(_contains(x, target) for x in s.orelse):
                        return search(s.orelse, local)
                    return local
                if isinstance(s, (ast.With, ast.AsyncWith)):
                    if any(_contains(x, target) for x in s.body):
                        return search(s.body, local)
                    return local
                if isinstance(s, ast.Try):
                    for blk in (s.body, s.orelse, s.finalbody):
                        if any(_contains(x, target) for x in blk):
                            return search(blk, local)
                    for h in s.handlers:
                        if any(_contains(x, target) for x in h.body):
                            return search(h.body, local)
                    return local
                return local   # target is an expression inside simple statement s
            # earlier sibling that exits on some branch
            if isinstance(s, ast.If):
                if _always_exits(s.body) and not s.orelse:
                    local.append((s.test, False))
                elif s.orelse and _always_exits(s.orelse) and not _always_exits(s.body):
                    local.append((s.test, True))
                elif s.orelse and _always_exits(s.body) and not _always_exits(s.orelse):
                    local.append((s.test, False))
        return None

    res = search(root_body, [])
    if res is None:
        return None
    # tests without a leading negation: (not T, p) is (T, not p)
    out = []
    for t, pol in res:
        while isinstance(t, ast.UnaryOp) and isinstance(t.op, ast.Not):
            t, pol = t.operand, not pol
        out.append((t, pol))
    return out


def _contains(s: ast.AST, target: ast.AST) -> bool:
    if s is target:
        return True
    for n in ast.walk(s):
        if n is target:
            return True
    return False


def _in_expr(e: ast.AST, target: ast.AST) -> bool:
    return _contains(e, target)


def guard_table(guards: List[Tuple[ast.AST, bool]], atom_of: AtomFn, atoms: List[str]) -> Dict[Tuple[bool, ...], bool]:
    out = {}
    for vals in itertools.product([False, True], repeat=len(atoms)):
        env = dict(zip(atoms, vals))
        ok = True
        for test, pol in guards:
            if bool(eval_bool(test, atom_of, env)) != pol:
                ok = False
                break
        out[vals] = ok
    return out



def regions_guarded_by(root: ast.AST, pred) -> List[Tuple[ast.AST, List[ast.stmt]]]:
    """[(the if statement, the statements that run when pred(test) holds)] for every `if` below root whose (un-negated) test satisfies
    pred: the body of `if T:`, the else-branch of `if not T: … else:`, or the statements that follow `if not T: continue/return/…`
    in the same block."""
    out = []
    for node in ast.walk(root):
        for fld in ("body", "orelse", "finalbody"):
            blk = getattr(node, fld, None)
            if not (isinstance(blk, list) and blk and isinstance(blk[0], ast.stmt)):
                continue
            for i, st in enumerate(blk):
                if not isinstance(st, ast.If):
                    continue
                t, pol = st.test, True
                while isinstance(t, ast.UnaryOp) and isinstance(t.op, ast.Not):
                    t, pol = t.operand, not pol
                if not pred(t):
                    continue
                if pol:
                    out.append((st, list(st.body)))
                elif st.orelse:
                    out.append((st, list(st.orelse)))
                elif _always_exits(st.body):
                    out.append((st, list(blk[i + 1:])))
    return out
