"""
Statement-level control-flow graph for one function, with three edge kinds:

  'n'  normal control flow
  'e'  exceptional: from every node that may raise to the innermost handler / finally,
       else to the RAISE exit
  's'  suspension: from every node containing ``yield`` / ``yield from``: the generator is
       closed (GeneratorExit), thrown into, or garbage-collected while suspended there.
       Runs the enclosing ``finally`` / ``with`` exits and ends in the CLOSED exit.

``finally`` bodies and ``with`` exits are *inlined once per continuation kind* (normal,
exception, suspension, return, break, continue), so a path through the graph is a real
path of the function and "X happens on every exit" is plain reachability.
"""
from __future__ import annotations

import ast
from dataclasses import dataclass, field
from typing import Dict, List, Optional, Tuple, Callable, Iterable, Set, Any

from .db import FuncInfo, unparse, own_nodes, AnalysisError


@dataclass
class Node:
    id: int
    kind: str           # entry exit raise closed stmt return raise_stmt test for with_enter with_exit
                        # match case except join
    ast: Optional[ast.AST] = None      # the statement / expression evaluated at this node
    stmt: Optional[ast.stmt] = None    # owning statement
    region: Tuple[str, ...] = ()       # e.g. ('finally:e',) when inside an inlined finally copy
    has_yield: bool = False
    item: Any = None                   # with-item for with_enter/with_exit, handler for except

    @property
    def lineno(self) -> int:
        for a in (self.ast, self.stmt):
            if a is not None and hasattr(a, "lineno"):
                return a.lineno
        return 0

    def src(self) -> str:
        if self.kind in ("entry", "exit", "raise", "closed", "join"):
            return f"<{self.kind}>"
        if self.kind == "with_enter":
            return "with-enter " + unparse(self.item.context_expr)
        if self.kind == "with_exit":
            return "with-exit " + unparse(self.item.context_expr)
        if self.kind == "except":
            return "except " + (unparse(self.item.type) if self.item.type else "")
        if self.kind == "for":
            return f"for {unparse(self.ast.target)} in {unparse(self.ast.iter)}"
        if self.kind == "test":
            return "test " + unparse(self.ast)
        s = unparse(self.ast)
        return s.split("\n")[0][:160]


@dataclass(frozen=True)
class Edge:
    src: int
    dst: int
    kind: str            # 'n' | 'e' | 's'
    label: Optional[str] = None   # 'T' 'F' 'iter' 'done' 'case' 'nocase'
    resume: bool = False          # a pending exception / close / return continuing after an inlined finally or with-exit


CATCH_ALL = {"BaseException"}
CATCH_GENEXIT = {"BaseException", "GeneratorExit"}


def _handler_names(h: ast.ExceptHandler) -> Optional[Set[str]]:
    """None for a bare except, else the set of (last component of) class names."""
    if h.type is None:
        return None
    elts = h.type.elts if isinstance(h.type, ast.Tuple) else [h.type]
    out = set()
    for e in elts:
        while isinstance(e, ast.Attribute):
            e = ast.Name(id=e.attr)
        out.add(e.id if isinstance(e, ast.Name) else "?")
    return out


def _contains_yield(node: ast.AST) -> bool:
    if isinstance(node, (ast.Yield, ast.YieldFrom)):
        return True
    for n in own_nodes(node):
        if isinstance(n, (ast.Yield, ast.YieldFrom)):
            return True
    return False


def may_raise(node: Optional[ast.AST]) -> bool:
    """Conservative: anything that calls, indexes, reads an attribute of something other than
    ``self``, does arithmetic/comparison (user ``__eq__``...), raises, asserts or yields."""
    if node is None:
        return False
    for n in [node] + list(own_nodes(node)):
        if isinstance(n, ast.Compare) and all(isinstance(o, (ast.Is, ast.IsNot)) for o in n.ops):
            continue   # identity tests cannot raise
        if isinstance(n, (ast.Call, ast.Subscript, ast.BinOp, ast.Compare, ast.Raise, ast.Assert, ast.Yield,
                          ast.YieldFrom, ast.Await, ast.UnaryOp, ast.Starred, ast.Delete, ast.Import,
                          ast.ImportFrom, ast.ListComp, ast.SetComp, ast.DictComp, ast.For)):
            return True
        if isinstance(n, ast.Attribute) and isinstance(n.ctx, ast.Load):
            if not (isinstance(n.value, ast.Name) and n.value.id in ("self", "cls")):
                return True
    return False


class _Frame:
    pass


class _LoopFrame(_Frame):
    def __init__(self, head: int):
        self.head = head
        self.breaks: List[Tuple[int, Optional[str], str]] = []   # dangling (node, label, kind)


class _TryFrame(_Frame):
    def __init__(self, handlers: List[Tuple[ast.ExceptHandler, int]]):
        self.handlers = handlers     # (handler ast, entry node id)


class _FinallyFrame(_Frame):
    """try/finally body, or the exit of one with-item."""
    def __init__(self, body: Optional[List[ast.stmt]], with_item=None, stmt=None):
        self.body = body
        self.with_item = with_item
        self.stmt = stmt
        self.copies: Dict[str, Tuple[int, Any]] = {}   # continuation key -> (join node id, exits)


Dangling = Tuple[int, Optional[str]]   # (node id, edge label) waiting for a normal successor


class CFG:
    def __init__(self, fn: FuncInfo):
        self.fn = fn
        self.nodes: List[Node] = []
        self.edges: List[Edge] = []
        self.succ: Dict[int, List[Edge]] = {}
        self.pred: Dict[int, List[Edge]] = {}
        self._region: Tuple[str, ...] = ()
        self.entry = self._new("entry")
        self.exit = self._new("exit")
        self.raise_exit = self._new("raise")
        self.closed_exit = self._new("closed")
        self.is_generator = fn.is_generator
        frames: List[_Frame] = []
        out = self._block(fn.node.body, [(self.entry, None)], frames)
        self._connect(out, self.exit)

    # ------------------------------------------------------------------ construction
    def _new(self, kind, ast_=None, stmt=None, item=None) -> int:
        n = Node(len(self.nodes), kind, ast_, stmt, self._region, False, item)
        if ast_ is not None and kind not in ("with_exit",):
            if kind == "with_enter":
                n.has_yield = _contains_yield(item.context_expr)
            elif kind == "for":
                n.has_yield = _contains_yield(ast_.iter)
            elif kind in ("stmt", "return", "raise_stmt", "test", "match", "case"):
                if not isinstance(ast_, (ast.FunctionDef, ast.AsyncFunctionDef, ast.ClassDef)):
                    n.has_yield = _contains_yield(ast_)
        self.nodes.append(n)
        self.succ[n.id] = []
        self.pred[n.id] = []
        return n.id

    def _edge(self, a: int, b: int, kind="n", label=None, resume=False):
        e = Edge(a, b, kind, label, resume)
        for x in self.succ[a]:
            if x == e:
                return
        self.edges.append(e)
        self.succ[a].append(e)
        self.pred[b].append(e)

    def _connect(self, dangling: List[Dangling], target: int, kind="n", resume=False):
        for nid, label in dangling:
            self._edge(nid, target, kind, label, resume)

    def _block(self, stmts: List[ast.stmt], preds: List[Dangling], frames: List[_Frame]) -> List[Dangling]:
        for s in stmts:
            if not preds:
                # unreachable code after return/raise/continue/break: still build it (detached) so that
                # nodes exist for lookup, but give it no predecessor.
                pass
            preds = self._stmt(s, preds, frames)
        return preds

    def _simple(self, kind, node_ast, stmt, preds, frames, raise_ast=None) -> int:
        nid = self._new(kind, node_ast, stmt)
        self._connect(preds, nid)
        self._exc_edges(nid, node_ast if raise_ast is None else raise_ast, frames)
        return nid

    def _exc_edges(self, nid: int, node_ast, frames: List[_Frame], force=False):
        n = self.nodes[nid]
        if force or may_raise(node_ast):
            self._unwind([(nid, None)], "e", frames)
        if n.has_yield:
            self._unwind([(nid, None)], "s", frames)

    def _unwind(self, preds: List[Dangling], kind: str, frames: List[_Frame], loop_target: _LoopFrame = None,
                resume: bool = False):
        """Route a non-local transfer of control.  kind: 'e' exception, 's' suspension/close,
        'r' return, 'b' break, 'c' continue (the last two stop at `loop_target`)."""
        ekind = kind if kind in ("e", "s") else "n"
        # resume: the transfer continues after an inlined finally / with-exit completed; the edges are marked so that
        # rules can tell "the pending exception propagates on" from "the cleanup statement itself raised"
        R = resume
        i = len(frames)
        while i > 0:
            i -= 1
            fr = frames[i]
            if isinstance(fr, _LoopFrame):
                if kind in ("b", "c") and fr is loop_target:
                    if kind == "b":
                        fr.breaks.extend((p, l, ekind) for p, l in preds)
                    else:
                        for p, l in preds:
                            self._edge(p, fr.head, "n", l, R)
                    return
                continue
            if isinstance(fr, _TryFrame):
                if kind == "e":
                    catch_all = False
                    for h, entry in fr.handlers:
                        for p, l in preds:
                            self._edge(p, entry, "e", l, R)
                        names = _handler_names(h)
                        if names is None or names & CATCH_ALL:
                            catch_all = True
                            break
                    if catch_all:
                        return
                elif kind == "s":
                    caught = False
                    for h, entry in fr.handlers:
                        names = _handler_names(h)
                        if names is None or names & CATCH_GENEXIT:
                            for p, l in preds:
                                self._edge(p, entry, "s", l, R)
                            caught = True
                            break
                    if caught:
                        return
                continue
            if isinstance(fr, _FinallyFrame):
                key = kind if kind not in ("b", "c") else f"{kind}{id(loop_target)}"
                if key in fr.copies:
                    join = fr.copies[key]
                    for p, l in preds:
                        self._edge(p, join, ekind, l, R)
                    return
                saved = self._region
                self._region = saved + ((f"finally:{kind}") if fr.with_item is None else f"withexit:{kind}",)
                join = self._new("join", None, fr.stmt)
                fr.copies[key] = join
                for p, l in preds:
                    self._edge(p, join, ekind, l, R)
                outer = frames[:i]
                if fr.with_item is not None:
                    x = self._new("with_exit", fr.stmt, fr.stmt, item=fr.with_item)
                    self._edge(join, x)
                    self._unwind([(x, None)], "e", outer)     # __exit__ itself may raise
                    outs = [(x, None)]
                else:
                    outs = self._block(fr.body, [(join, None)], outer)
                self._region = saved
                # continue the same transfer below this frame
                self._unwind(outs, kind, outer, loop_target, resume=True)
                return
        # fell off the frame stack
        if kind == "e":
            self._connect(preds, self.raise_exit, "e", R)
        elif kind == "s":
            self._connect(preds, self.closed_exit, "s", R)
        elif kind == "r":
            self._connect(preds, self.exit, "n", R)
        else:  # pragma: no cover
            raise AnalysisError(f"{self.fn.qualname}: break/continue outside loop")

    def _innermost_loop(self, frames) -> _LoopFrame:
        for fr in reversed(frames):
            if isinstance(fr, _LoopFrame):
                return fr
        raise AnalysisError(f"{self.fn.qualname}: break/continue outside loop")

    def _stmt(self, s: ast.stmt, preds: List[Dangling], frames: List[_Frame]) -> List[Dangling]:
        if isinstance(s, (ast.FunctionDef, ast.AsyncFunctionDef, ast.ClassDef)):
            nid = self._new("stmt", s, s)
            self._connect(preds, nid)
            return [(nid, None)]
        if isinstance(s, ast.Return):
            nid = self._simple("return", s, s, preds, frames, raise_ast=s.value)
            self._unwind([(nid, None)], "r", frames)
            return []
        if isinstance(s, ast.Raise):
            nid = self._new("raise_stmt", s, s)
            self._connect(preds, nid)
            self._unwind([(nid, None)], "e", frames)
            return []
        if isinstance(s, ast.Break):
            nid = self._new("stmt", s, s)
            self._connect(preds, nid)
            self._unwind([(nid, None)], "b", frames, self._innermost_loop(frames))
            return []
        if isinstance(s, ast.Continue):
            nid = self._new("stmt", s, s)
            self._connect(preds, nid)
            self._unwind([(nid, None)], "c", frames, self._innermost_loop(frames))
            return []
        if isinstance(s, ast.If):
            t = self._simple("test", s.test, s, preds, frames)
            const = _const_truth(s.test)
            outs: List[Dangling] = []
            if const is not False:
                outs += self._block(s.body, [(t, "T")], frames)
            if const is not True:
                if s.orelse:
                    outs += self._block(s.orelse, [(t, "F")], frames)
                else:
                    outs.append((t, "F"))
            return outs
        if isinstance(s, ast.While):
            t = self._simple("test", s.test, s, preds, frames)
            const = _const_truth(s.test)
            loop = _LoopFrame(t)
            frames.append(loop)
            body_out = self._block(s.body, [(t, "T")], frames) if const is not False else []
            frames.pop()
            self._connect(body_out, t)
            outs: List[Dangling] = []
            if const is not True:
                if s.orelse:
                    outs += self._block(s.orelse, [(t, "F")], frames)
                else:
                    outs.append((t, "F"))
            for p, l, k in loop.breaks:
                outs.append((p, l))
            return outs
        if isinstance(s, (ast.For, ast.AsyncFor)):
            h = self._new("for", s, s)
            self._connect(preds, h)
            self._exc_edges(h, s.iter, frames, force=True)   # next() on the iterator may raise
            loop = _LoopFrame(h)
            frames.append(loop)
            body_out = self._block(s.body, [(h, "iter")], frames)
            frames.pop()
            self._connect(body_out, h)
            outs: List[Dangling] = []
            if s.orelse:
                outs += self._block(s.orelse, [(h, "done")], frames)
            else:
                outs.append((h, "done"))
            for p, l, k in loop.breaks:
                outs.append((p, l))
            return outs
        if isinstance(s, (ast.With, ast.AsyncWith)):
            return self._with(s, 0, preds, frames)
        if isinstance(s, ast.Try) or s.__class__.__name__ == "TryStar":
            return self._try(s, preds, frames)
        if isinstance(s, ast.Match):
            m = self._simple("match", s.subject, s, preds, frames)
            outs: List[Dangling] = []
            cur: List[Dangling] = [(m, None)]
            irrefutable = False
            for case in s.cases:
                c = self._new("case", case.pattern, s, item=case)
                self.nodes[c].has_yield = False
                self._connect(cur, c)
                if case.guard is not None and may_raise(case.guard):
                    self._unwind([(c, None)], "e", frames)
                outs += self._block(case.body, [(c, "case")], frames)
                cur = [(c, "nocase")]
                if case.guard is None and _irrefutable(case.pattern):
                    irrefutable = True
                    break
            if not irrefutable:
                outs += cur
            return outs
        # simple statements
        nid = self._simple("stmt", s, s, preds, frames)
        return [(nid, None)]

    def _with(self, s, idx: int, preds, frames) -> List[Dangling]:
        item = s.items[idx]
        enter = self._new("with_enter", s, s, item=item)
        self._connect(preds, enter)
        self._exc_edges(enter, item.context_expr, frames, force=True)
        fr = _FinallyFrame(None, with_item=item, stmt=s)
        frames.append(fr)
        if idx + 1 < len(s.items):
            outs = self._with(s, idx + 1, [(enter, None)], frames)
        else:
            outs = self._block(s.body, [(enter, None)], frames)
        frames.pop()
        # normal exit copy
        saved = self._region
        self._region = saved + ("withexit:n",)
        x = self._new("with_exit", s, s, item=item)
        self._region = saved
        self._connect(outs, x)
        self._unwind([(x, None)], "e", frames)
        return [(x, None)] if outs else []

    def _try(self, s, preds, frames) -> List[Dangling]:
        fin = None
        if s.finalbody:
            fin = _FinallyFrame(s.finalbody, stmt=s)
            frames.append(fin)
        handler_entries = []
        for h in s.handlers:
            hid = self._new("except", h, s, item=h)
            handler_entries.append((h, hid))
        tf = _TryFrame(handler_entries) if s.handlers else None
        if tf:
            frames.append(tf)
        outs = self._block(s.body, preds, frames)
        if tf:
            frames.pop()
        if s.orelse:
            outs = self._block(s.orelse, outs, frames)
        for h, hid in handler_entries:
            if self.pred[hid]:
                outs += self._block(h.body, [(hid, None)], frames)
            else:
                # handler unreachable (try body cannot raise by our may_raise rule): still build, detached
                self._block(h.body, [(hid, None)], frames)
        if fin:
            frames.pop()
            if outs:
                saved = self._region
                self._region = saved + ("finally:n",)
                join = self._new("join", None, s)
                self._connect(outs, join)
                outs = self._block(s.finalbody, [(join, None)], frames)
                self._region = saved
        return outs

    # ------------------------------------------------------------------ queries
    def node_of_stmt(self, stmt: ast.AST, region_free=True) -> List[Node]:
        return [n for n in self.nodes if n.ast is stmt or (n.stmt is stmt and n.kind in ("test", "for", "match"))]

    def nodes_where(self, pred: Callable[[Node], bool]) -> List[Node]:
        return [n for n in self.nodes if pred(n)]

    def reachable(self, starts: Iterable[int], kinds=("n", "e", "s"), blocked: Callable[[Node], bool] = None,
                  include_starts=True, edge_ok: Callable[[Edge], bool] = None) -> Set[int]:
        """Forward reachability.  A blocked node is not entered (and is not in the result)."""
        seen: Set[int] = set()
        work = []
        for s in starts:
            if include_starts:
                if blocked and blocked(self.nodes[s]):
                    continue
                seen.add(s)
            work.append(s)
        first = set(work)
        while work:
            n = work.pop()
            for e in self.succ[n]:
                if e.kind not in kinds:
                    continue
                if edge_ok and not edge_ok(e):
                    continue
                if e.dst in seen:
                    continue
                if blocked and blocked(self.nodes[e.dst]):
                    continue
                seen.add(e.dst)
                work.append(e.dst)
        return seen

    def backward_reachable(self, starts: Iterable[int], kinds=("n", "e", "s"),
                           blocked: Callable[[Node], bool] = None) -> Set[int]:
        seen: Set[int] = set(starts)
        work = list(starts)
        while work:
            n = work.pop()
            for e in self.pred[n]:
                if e.kind not in kinds or e.src in seen:
                    continue
                if blocked and blocked(self.nodes[e.src]):
                    continue
                seen.add(e.src)
                work.append(e.src)
        return seen

    def find_path(self, start: int, goal: Callable[[Node], bool], kinds=("n", "e", "s"),
                  blocked: Callable[[Node], bool] = None,
                  edge_ok: Callable[[Edge], bool] = None) -> Optional[List[Edge]]:
        """Shortest path (BFS) from start to a node satisfying goal, avoiding blocked nodes."""
        from collections import deque
        prev: Dict[int, Edge] = {}
        dq = deque([start])
        seen = {start}
        while dq:
            n = dq.popleft()
            if n != start and goal(self.nodes[n]):
                path = []
                while n != start:
                    e = prev[n]
                    path.append(e)
                    n = e.src
                return list(reversed(path))
            for e in self.succ[n]:
                if e.kind not in kinds or e.dst in seen:
                    continue
                if edge_ok is not None and not edge_ok(e):
                    continue
                if blocked and blocked(self.nodes[e.dst]) and not goal(self.nodes[e.dst]):
                    continue
                seen.add(e.dst)
                prev[e.dst] = e
                dq.append(e.dst)
        return None

    def no_cleanup_exc(self, e: Edge) -> bool:
        """Edge filter: statements of cleanup code itself (inlined finally bodies / with exits) are assumed not to
        raise, so exceptional edges leaving them are not followed."""
        return not (e.kind == "e" and self.nodes[e.src].region and not e.resume)

    def dominators(self, kinds=("n", "e", "s")) -> Dict[int, Set[int]]:
        reach = self.reachable([self.entry], kinds)
        order = sorted(reach)
        dom: Dict[int, Set[int]] = {n: set(reach) for n in order}
        dom[self.entry] = {self.entry}
        changed = True
        while changed:
            changed = False
            for n in order:
                if n == self.entry:
                    continue
                ps = [e.src for e in self.pred[n] if e.kind in kinds and e.src in reach]
                if not ps:
                    continue
                new = set.intersection(*(dom[p] for p in ps)) | {n}
                if new != dom[n]:
                    dom[n] = new
                    changed = True
        return dom

    def describe_path(self, path: List[Edge]) -> List[str]:
        out = []
        for e in path:
            n = self.nodes[e.dst]
            tag = {"n": "->", "e": "=exc=>", "s": "=close=>"}[e.kind]
            lab = f"[{e.label}]" if e.label else ""
            out.append(f"{tag}{lab} L{n.lineno} {n.src()}" + (f"  {{{','.join(n.region)}}}" if n.region else ""))
        return out

    def dump(self) -> str:
        lines = []
        for n in self.nodes:
            outs = ", ".join(f"{e.kind}{'['+e.label+']' if e.label else ''}->{e.dst}" for e in self.succ[n.id])
            lines.append(f"{n.id:3d} {n.kind:10s} L{n.lineno:<5d} {n.src()[:70]:70s} {'Y' if n.has_yield else ' '} "
                         f"{','.join(n.region):12s} | {outs}")
        return "\n".join(lines)


def _const_truth(test: ast.AST) -> Optional[bool]:
    if isinstance(test, ast.Constant):
        return bool(test.value)
    return None


def _irrefutable(p: ast.AST) -> bool:
    if isinstance(p, ast.MatchAs) and p.pattern is None:
        return True
    if isinstance(p, ast.MatchOr):
        return any(_irrefutable(x) for x in p.patterns)
    return False


# ---------------------------------------------------------------------- abstract interpretation
def run_forward(cfg: CFG, init, transfer: Callable[[Node, Any], Any],
                edge_transfer: Callable[[Edge, Node, Any, Any], Any] = None,
                join: Callable[[Any, Any], Any] = None,
                kinds=("n", "e", "s"), max_iter=200000) -> Dict[int, Set[Any]]:
    """
    Generic forward analysis with *sets of abstract states* per node (a powerset domain over
    a finite state space: path-insensitive at joins only in that equal states merge).

    transfer(node, state_in) -> state_out (state after executing the node normally)
    edge_transfer(edge, src_node, state_in, state_out) -> state to propagate along this edge or
        None to kill the edge.  Default: 'n' edges carry state_out, 'e'/'s' edges carry state_in
        (the node did not complete).
    Returns: node id -> set of states at node entry.
    """
    IN: Dict[int, Set[Any]] = {n.id: set() for n in cfg.nodes}
    IN[cfg.entry].add(init)
    work = [(cfg.entry, init)]
    it = 0
    while work:
        it += 1
        if it > max_iter:
            raise AnalysisError(f"{cfg.fn.qualname}: abstract interpretation did not converge")
        nid, st = work.pop()
        node = cfg.nodes[nid]
        out = transfer(node, st)
        for e in cfg.succ[nid]:
            if e.kind not in kinds:
                continue
            if edge_transfer is not None:
                s2 = edge_transfer(e, node, st, out)
            else:
                s2 = out if e.kind == "n" else st
            if s2 is None:
                continue
            if s2 not in IN[e.dst]:
                IN[e.dst].add(s2)
                work.append((e.dst, s2))
    return IN
