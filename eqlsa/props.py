"""Registry: property id -> PropertySpec (rules, floors, explanation)."""
from __future__ import annotations

from typing import Dict

from .framework import PropertySpec, Rule

SPECS: Dict[str, PropertySpec] = {}


def register(spec: PropertySpec):
    SPECS[spec.id] = spec
    return spec


def load_all():
    from .rules import specs  # noqa: F401  (registers everything)
    return SPECS
