"""Shared syntactic/semantic fact extraction used by several rules."""
from __future__ import annotations

import ast
from typing import Dict, List, Optional, Tuple, Iterable, Set, Union

from .db import ProgramDB, FuncInfo, ClassInfo, own_nodes, dotted, unparse, AnalysisError


def own_calls(fn: FuncInfo) -> List[ast.Call]:
    return [n for n in own_nodes(fn.node) if isinstance(n, ast.Call)]


def call_attr(call: ast.Call) -> Optional[str]:
    return call.func.attr if isinstance(call.func, ast.Attribute) else None


def call_name(call: ast.Call) -> Optional[str]:
    if isinstance(call.func, ast.Attribute):
        return call.func.attr
    if isinstance(call.func, ast.Name):
        return call.func.id
    return None


def returns_of(fn: FuncInfo) -> List[ast.Return]:
    return [n for n in own_nodes(fn.node) if isinstance(n, ast.Return)]


def bind_args(params: List[Tuple[str, bool]], call: ast.Call) -> Dict[str, ast.AST]:
    """Map parameter name -> argument expression.  params: (name, keyword_only)."""
    out: Dict[str, ast.AST] = {}
    pos = [p for p, kw in params if not kw]
    for i, a in enumerate(call.args):
        if isinstance(a, ast.Starred):
            raise AnalysisError(f"star-args in {unparse(call)}")
        if i < len(pos):
            out[pos[i]] = a
    for k in call.keywords:
        if k.arg is None:
            raise AnalysisError(f"**kwargs in {unparse(call)}")
        out[k.arg] = k.value
    return out


def fn_params(fn: FuncInfo, drop_self=True) -> List[Tuple[str, bool]]:
    a = fn.node.args
    pos = [(x.arg, False) for x in a.posonlyargs + a.args]
    if drop_self and fn.cls is not None and "staticmethod" not in fn.decorators and pos:
        pos = pos[1:]
    return pos + [(x.arg, True) for x in a.kwonlyargs]


def resolve_call_target(db: ProgramDB, fn: FuncInfo, call: ast.Call):
    """Resolve the callee of a call whose func is a bare name / dotted module path / nested def.
    Returns FuncInfo | ClassInfo | ('ext', dotted) | None."""
    f = call.func
    if isinstance(f, ast.Name):
        g = fn
        while g is not None:
            if f.id in g.nested:
                return g.nested[f.id]
            g = g.parent
    return db.resolve_dotted(fn.module, f)


def enclosing_function(db: ProgramDB, node: ast.AST) -> Optional[ast.AST]:
    p = db.parent(node)
    while p is not None and not isinstance(p, (ast.FunctionDef, ast.AsyncFunctionDef, ast.Lambda)):
        p = db.parent(p)
    return p


def strip_docstring(body: List[ast.stmt]) -> List[ast.stmt]:
    if body and isinstance(body[0], ast.Expr) and isinstance(body[0].value, ast.Constant) \
            and isinstance(body[0].value.value, str):
        return body[1:]
    return body


def names_in(e: ast.AST) -> Set[str]:
    return {n.id for n in ast.walk(e) if isinstance(n, ast.Name)}


def mentions_self_attr(e: ast.AST, attr: str) -> bool:
    for n in ast.walk(e):
        if isinstance(n, ast.Attribute) and n.attr == attr and isinstance(n.value, ast.Name) and n.value.id == "self":
            return True
    return False


def self_attrs_in(e: ast.AST) -> Set[str]:
    return {n.attr for n in ast.walk(e)
            if isinstance(n, ast.Attribute) and isinstance(n.value, ast.Name) and n.value.id == "self"}


def local_defs(fn: FuncInfo) -> Dict[str, List[ast.AST]]:
    """name -> list of value expressions assigned to it anywhere in the function (flow-insensitive).
    Loop targets map to ('iter', expr) tuples; with-as to ('with', expr); parameters are not included."""
    out: Dict[str, List] = {}
    for n in own_nodes(fn.node):
        if isinstance(n, ast.Assign):
            for t in n.targets:
                _bind_target(t, n.value, out)
        elif isinstance(n, ast.AnnAssign) and n.value is not None:
            _bind_target(n.target, n.value, out)
        elif isinstance(n, ast.AugAssign):
            _bind_target(n.target, ("aug", n.value), out)
        elif isinstance(n, (ast.For, ast.AsyncFor)):
            _bind_target(n.target, ("iter", n.iter), out)
        elif isinstance(n, ast.comprehension):
            _bind_target(n.target, ("iter", n.iter), out)
        elif isinstance(n, ast.withitem) and n.optional_vars is not None:
            _bind_target(n.optional_vars, ("with", n.context_expr), out)
        elif isinstance(n, ast.NamedExpr):
            _bind_target(n.target, n.value, out)
    return out


def _bind_target(t, value, out):
    if isinstance(t, ast.Name):
        out.setdefault(t.id, []).append(value)
    elif isinstance(t, (ast.Tuple, ast.List)):
        for i, x in enumerate(t.elts):
            if isinstance(value, (ast.Tuple, ast.List)) and len(value.elts) == len(t.elts):
                _bind_target(x, value.elts[i], out)
            else:
                _bind_target(x, ("unpack", value, i), out)
    elif isinstance(t, ast.Starred):
        _bind_target(t.value, ("unpack", value, -1), out)


def is_cache_switch_call(db: ProgramDB, fn: FuncInfo, call: ast.Call) -> bool:
    """`is_caching_enabled()` or a method through which the operators ask for it: every implementation of that method
    in the receiver's hierarchy returns `is_caching_enabled()` or a constant False (a class that opts out)."""
    t = resolve_call_target(db, fn, call)
    if isinstance(t, FuncInfo) and t.qualname == "cache_data:is_caching_enabled":
        return True
    f = call.func
    if isinstance(f, ast.Attribute) and isinstance(f.value, ast.Name) and f.value.id == "self" and fn.cls is not None \
            and not call.args and not call.keywords:
        impls = []
        root = fn.cls
        # all implementations in the whole hierarchy of the class that declares the method
        decl = None
        for c in fn.cls.mro:
            if f.attr in c.methods:
                decl = c
        if decl is None:
            return False
        for c in decl.all_subclasses():
            if f.attr in c.methods:
                impls.append(c.methods[f.attr])
        if not impls:
            return False
        for m in impls:
            body = strip_docstring(m.node.body)
            body = [s for s in body if not isinstance(s, ast.Pass)]
            if len(body) != 1 or not isinstance(body[0], ast.Return):
                return False
            v = body[0].value
            if isinstance(v, ast.Constant) and v.value is False:
                continue
            if isinstance(v, ast.Call):
                tt = resolve_call_target(db, m, v)
                if isinstance(tt, FuncInfo) and tt.qualname == "cache_data:is_caching_enabled":
                    continue
            return False
        return True
    return False


def cache_switch_value_for(db: ProgramDB, cls: ClassInfo, method_name: str) -> Optional[str]:
    """'switch' if cls's effective implementation returns is_caching_enabled(), 'off' if it returns False."""
    m = cls.lookup(method_name)
    if m is None:
        return None
    body = [s for s in strip_docstring(m.node.body) if not isinstance(s, ast.Pass)]
    if len(body) == 1 and isinstance(body[0], ast.Return):
        v = body[0].value
        if isinstance(v, ast.Constant) and v.value is False:
            return "off"
        if isinstance(v, ast.Call):
            return "switch"
    return None



def alias_closure(fn: FuncInfo, seeds: Set[str]) -> Set[str]:
    """Local names that stand for one of the seed expressions (given as unparsed text, e.g. 'self.keys'): assigned from a seed
    or from another alias, directly.  Independent of how the locals are called."""
    names: Set[str] = set()
    defs = local_defs(fn)
    changed = True
    while changed:
        changed = False
        for n, vals in defs.items():
            if n in names:
                continue
            for v in vals:
                if isinstance(v, ast.AST) and (unparse(v) in seeds or (isinstance(v, ast.Name) and v.id in names)):
                    names.add(n)
                    changed = True
    return names


def is_len_minus_one(fn: FuncInfo, e: ast.AST, of: Set[str]) -> bool:
    """e is `len(X) - 1` for an X in `of` (texts / alias names), or a local assigned exactly that."""
    def direct(x):
        return isinstance(x, ast.BinOp) and isinstance(x.op, ast.Sub) and isinstance(x.right, ast.Constant) and x.right.value == 1 \
            and isinstance(x.left, ast.Call) and dotted(x.left.func) == "len" and x.left.args and unparse(x.left.args[0]) in of
    if direct(e):
        return True
    if isinstance(e, ast.Name):
        return any(isinstance(d, ast.AST) and direct(d) for d in local_defs(fn).get(e.id, []))
    return False



def passthrough_helpers(cls: ClassInfo) -> Set[str]:
    """methods of the class (or its bases) that do nothing but call their first parameter with the keyword arguments they were
    given (possibly inside a `with` block): `def h(function, **kwargs): with …: return function(**kwargs)`"""
    out: Set[str] = set()
    for k in [cls] + list(cls.mro):
        for name, m in k.methods.items():
            ps = [a.arg for a in list(m.node.args.posonlyargs) + list(m.node.args.args) if a.arg not in ("self", "cls")]
            kw = m.node.args.kwarg.arg if m.node.args.kwarg else None
            if len(ps) != 1 or kw is None:
                continue
            rets = [r for r in own_nodes(m.node) if isinstance(r, ast.Return) and r.value is not None]
            if len(rets) == 1 and isinstance(rets[0].value, ast.Call) and isinstance(rets[0].value.func, ast.Name) and rets[0].value.func.id == ps[0] \
                    and not rets[0].value.args and len(rets[0].value.keywords) == 1 and rets[0].value.keywords[0].arg is None \
                    and unparse(rets[0].value.keywords[0].value) == kw:
                out.add(name)
    return out


def user_type_calls(fn: FuncInfo, attr: str = "_type_") -> List[ast.Call]:
    """calls in fn that run `self.<attr>(…)`: directly, or through a pass-through helper of the class"""
    res = []
    helpers = passthrough_helpers(fn.cls) if fn.cls is not None else set()
    for c in own_calls(fn):
        f = c.func
        if isinstance(f, ast.Attribute) and f.attr == attr and isinstance(f.value, ast.Name) and f.value.id == "self":
            res.append(c)
        elif isinstance(f, ast.Attribute) and f.attr in helpers and isinstance(f.value, ast.Name) and f.value.id in ("self", fn.cls.name if fn.cls else "") \
                and c.args and unparse(c.args[0]) == f"self.{attr}":
            res.append(c)
    return res
