"""
Check runner: rule instances, three-valued verdicts, evidence, known findings, replay.

Exit codes: 0 property held on everything analysed; 1 a violation that known_findings.json does
not list (prints ``VIOLATION property=<id> replay=<report>``); 2 analysis broken / undecided
(prints ``ANALYSIS-ERROR ...``) - never reported as a violation, never silently passed.
"""
from __future__ import annotations

import hashlib
import json
import os
import sys
import time
import traceback
from dataclasses import dataclass, field, asdict
from typing import Dict, List, Optional, Callable, Any

from .db import ProgramDB, AnalysisError, PKG_REL

VERIF = os.path.dirname(os.path.dirname(os.path.abspath(__file__)))

HOLDS, VIOLATION, UNDECIDED, INFO = "HOLDS", "VIOLATION", "UNDECIDED", "INFO"


@dataclass
class Instance:
    rule: str
    verdict: str
    construct: str                 # stable key: qualified function + normalised construct, never a line
    reason: str
    file: str = ""
    line: int = 0
    function: str = ""
    detail: Any = None
    prop: str = ""

    @property
    def key(self) -> str:
        return f"{self.rule}:{self.construct}"

    def to_json(self):
        d = asdict(self)
        return d

    def where(self) -> str:
        return f"{self.file}:{self.line}" if self.file else ""


@dataclass
class Rule:
    name: str
    fn: Callable[[ProgramDB], List[Instance]]
    floor: int                      # minimum number of decided instances confirmed by reading today's tree
    doc: str
    props: List[str] = field(default_factory=list)


@dataclass
class PropertySpec:
    id: str
    title: str
    rules: List[Rule]
    explanation: str
    assumptions: List[str]
    design_ref: str = ""
    sensitivity: Optional[Callable] = None   # thorough tier: () -> list of Variant
    level_text: str = ""
    level_note: str = ""
    technique: str = ""


def inst(rule, verdict, fn_or_file, construct, reason, line=0, detail=None) -> Instance:
    """Convenience constructor; `fn_or_file` is a FuncInfo / ClassInfo (file, qualname taken from it) or a str."""
    file, function = "", ""
    if hasattr(fn_or_file, "file"):
        file = fn_or_file.file
        function = getattr(fn_or_file, "qualname", "")
        if not line:
            line = getattr(fn_or_file, "lineno", 0) or getattr(getattr(fn_or_file, "node", None), "lineno", 0)
    elif isinstance(fn_or_file, str):
        file = fn_or_file
    # keys are single-line (a construct quoted from a compound statement would otherwise carry its body's first lines)
    construct = " ".join(str(construct).split())
    return Instance(rule, verdict, construct, reason, file, line, function, detail)


# ------------------------------------------------------------------------------ known findings
def load_known() -> Dict[str, Any]:
    p = os.path.join(VERIF, "known_findings.json")
    if not os.path.exists(p):
        return {"findings": [], "fixed": []}
    with open(p) as fh:
        return json.load(fh)


def known_match(known, prop: str, i: Instance) -> Optional[dict]:
    for f in known.get("findings", []):
        if f.get("property") == prop and f.get("rule") == i.rule and f.get("construct") == i.construct:
            return f
    return None


# ------------------------------------------------------------------------------ running
def run_rules(db: ProgramDB, spec: PropertySpec) -> List[Instance]:
    out: List[Instance] = []
    for r in spec.rules:
        try:
            got = r.fn(db)
        except AnalysisError as e:
            got = [Instance(r.name, UNDECIDED, "rule", f"analysis could not decide: {e}")]
        except Exception as e:  # analyser bug: never a violation
            tb = traceback.format_exc(limit=6)
            got = [Instance(r.name, UNDECIDED, "rule", f"analyser exception {type(e).__name__}: {e}", detail=tb)]
        decided = [g for g in got if g.verdict in (HOLDS, VIOLATION)]
        if len(decided) < r.floor and not any(g.verdict == UNDECIDED for g in got):
            got.append(Instance(r.name, UNDECIDED, "floor",
                                f"rule matched {len(decided)} instance(s), fewer than the {r.floor} confirmed by "
                                f"reading the tree: an anchor has vanished or changed shape; the rule would pass vacuously"))
        for g in got:
            g.prop = spec.id
            if not g.rule:
                g.rule = r.name
        out.extend(got)
    return out


def write_report(spec_id: str, i: Instance) -> str:
    d = os.path.join(VERIF, "reports", spec_id)
    os.makedirs(d, exist_ok=True)
    dig = hashlib.sha1(i.key.encode()).hexdigest()[:10]
    p = os.path.join(d, f"{i.rule}-{dig}.json")
    with open(p, "w") as fh:
        json.dump({"property": spec_id, "instance": i.to_json(), "key": i.key,
                   "replay": f"./run replay {p}"}, fh, indent=1, default=str)
    return p


def evidence(spec: PropertySpec, tier: str, seed: int, instances: List[Instance], wall: float, db: Optional[ProgramDB],
             known_hits: List[str], sens: Optional[dict]) -> dict:
    decided = [i for i in instances if i.verdict in (HOLDS, VIOLATION)]
    distinct = sorted({i.key for i in decided})
    viol = [i for i in instances if i.verdict == VIOLATION]
    und = [i for i in instances if i.verdict == UNDECIDED]
    samples = []
    per_rule: Dict[str, int] = {}
    for i in instances:
        per_rule[i.rule] = per_rule.get(i.rule, 0) + (1 if i.verdict in (HOLDS, VIOLATION) else 0)
    shown: Dict[str, int] = {}
    for i in instances:
        if shown.get(i.rule, 0) >= (6 if tier == "quick" else 40) and i.verdict == HOLDS:
            continue
        shown[i.rule] = shown.get(i.rule, 0) + 1
        samples.append({"rule": i.rule, "verdict": i.verdict, "file": i.file, "line": i.line,
                        "function": i.function, "construct": i.construct, "reason": i.reason})
    cov = {
        "explanation": spec.explanation,
        "obligations": len(decided),
        "discharged": len([i for i in decided if i.verdict == HOLDS]),
        "evaluations": len(decided),
        "distinct_nontrivial": len(distinct),
        "rule": "one evaluation = one rule instance decided on a construct of /repo's current source; distinct = "
                "distinct (rule, construct key); an instance is non-trivial when the rule had to inspect the construct "
                "to decide it (instances that merely record context are INFO and are not counted)",
        "samples": samples,
        "rules": [{"name": r.name, "floor": r.floor, "decided": per_rule.get(r.name, 0), "what": r.doc}
                  for r in spec.rules],
        "undecided": len(und),
        "info": len([i for i in instances if i.verdict == INFO]),
        "known_findings_matched": known_hits,
        "exhaustive": True,
        "checker_cmd": f"./run check {spec.id} --tier {tier}",
        "trusted_base": ["CPython ast module (parser of the interpreter the package runs under)",
                         "eqlsa engine (db/cfg/rules) in /verif"],
    }
    if db is not None:
        cov["analysed"] = {"modules": len(db.modules), "classes": len(db.classes), "functions": len(db.functions),
                           "source_digest": db.digest(), "package": os.path.join(db.repo, PKG_REL)}
    if sens is not None:
        cov["sensitivity"] = sens
    return {
        "property_id": spec.id,
        "tier": tier,
        "seed": seed,
        "level": "other",
        "coverage": cov,
        "assumptions": spec.assumptions,
        "wall_s": round(wall, 3),
        "violations": len(viol),
    }


def check_main(spec: PropertySpec, tier: str) -> int:
    t0 = time.time()
    seed = int(os.environ.get("VERIF_SEED", "0") or 0)
    ev_path = os.path.join(VERIF, "evidence", f"{spec.id}.json")
    os.makedirs(os.path.dirname(ev_path), exist_ok=True)
    db = None
    try:
        db = ProgramDB()
        instances = run_rules(db, spec)
    except AnalysisError as e:
        instances = [Instance("ENGINE", UNDECIDED, "load", f"{e}", prop=spec.id)]
    except Exception as e:
        instances = [Instance("ENGINE", UNDECIDED, "load", f"analyser exception {type(e).__name__}: {e}",
                              detail=traceback.format_exc(limit=8), prop=spec.id)]
    known = load_known()
    rc = 0
    known_hits: List[str] = []
    print(f"== {spec.id} {spec.title} [{tier}]")
    by_rule: Dict[str, List[Instance]] = {}
    for i in instances:
        by_rule.setdefault(i.rule, []).append(i)
    for rname, lst in by_rule.items():
        n_h = sum(1 for i in lst if i.verdict == HOLDS)
        n_v = sum(1 for i in lst if i.verdict == VIOLATION)
        n_u = sum(1 for i in lst if i.verdict == UNDECIDED)
        n_i = sum(1 for i in lst if i.verdict == INFO)
        print(f"  rule {rname}: {n_h} hold, {n_v} violated, {n_u} undecided, {n_i} info")
        for i in lst:
            if i.verdict == HOLDS and tier == "quick" and n_h > 12:
                continue
            print(f"    [{i.verdict}] {i.where()} {i.function} :: {i.construct} -- {i.reason}")
    violations = [i for i in instances if i.verdict == VIOLATION]
    undecided = [i for i in instances if i.verdict == UNDECIDED]
    out_lines = []
    for i in violations:
        k = known_match(known, spec.id, i)
        if k is not None:
            known_hits.append(i.key)
            out_lines.append(f"KNOWN-FINDING: property={spec.id} {i.rule} {i.construct}: {k.get('what', i.reason)}")
        else:
            p = write_report(spec.id, i)
            out_lines.append(f"VIOLATION property={spec.id} replay={p}")
            out_lines.append(f"  {i.where()} {i.function} rule={i.rule} construct={i.construct}: {i.reason}")
            rc = 1
    sens = None
    if tier == "thorough" and spec.sensitivity is not None and db is not None and not undecided:
        try:
            from .sensitivity import run_sensitivity
            sens = run_sensitivity(db, spec, seed)
            print(f"  sensitivity: {sens['caught']}/{sens['broken_variants']} broken variants reported, "
                  f"{sens['silent_on_twins']}/{sens['twin_variants']} behaviour-preserving twins silent, "
                  f"{sens['skipped']} skipped")
            for m in sens.get("missed", []):
                print(f"    MISSED-VARIANT {m}")
            for m in sens.get("undecided", []):
                print(f"    UNDECIDED-VARIANT (exit 2 instead of a report) {m}")
            for m in sens.get("twin_alarms", []):
                print(f"    TWIN-ALARM {m}")
        except Exception as e:
            sens = {"error": f"{type(e).__name__}: {e}", "trace": traceback.format_exc(limit=6)}
            print(f"  sensitivity run failed: {sens['error']}")
    for i in undecided:
        print(f"ANALYSIS-ERROR property={spec.id} rule={i.rule} construct={i.construct}: {i.reason}")
        if i.detail:
            print("   " + str(i.detail).replace("\n", "\n   "))
    if undecided and rc == 0:
        rc = 2
    for l in out_lines:
        print(l)
    ev = evidence(spec, tier, seed, instances, time.time() - t0, db, known_hits, sens)
    if not os.environ.get("EQL_VERIF_DRY"):       # dry runs (trying a seeded change) leave the committed evidence alone
        with open(ev_path, "w") as fh:
            json.dump(ev, fh, indent=1, default=str)
    decided = [i for i in instances if i.verdict in (HOLDS, VIOLATION)]
    print(f"-- {spec.id}: {len(decided)} obligations, {len(decided) - len(violations)} discharged, "
          f"{len(violations)} violated ({len(known_hits)} known), {len(undecided)} undecided, "
          f"{time.time() - t0:.2f}s, exit {rc}")
    return rc


def replay_main(path: str, specs: Dict[str, PropertySpec]) -> int:
    with open(path) as fh:
        rep = json.load(fh)
    spec = specs[rep["property"]]
    try:
        db = ProgramDB()
        instances = run_rules(db, spec)
    except AnalysisError as e:
        print(f"ANALYSIS-ERROR property={spec.id}: {e}")
        return 2
    hits = [i for i in instances if i.key == rep["key"]]
    if not hits:
        print(f"instance {rep['key']} no longer exists on the current tree (construct gone or renamed)")
        return 0
    rc = 0
    for i in hits:
        print(f"[{i.verdict}] {i.where()} {i.function}\n  rule      : {i.rule}\n  construct : {i.construct}\n"
              f"  reason    : {i.reason}")
        if i.detail:
            print("  detail    : " + json.dumps(i.detail, indent=1, default=str).replace("\n", "\n              "))
        if i.verdict == VIOLATION:
            rc = 1
    return rc
