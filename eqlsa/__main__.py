from __future__ import annotations

import os
import sys
import traceback


def main(argv):
    from .props import load_all
    from .framework import check_main, replay_main
    if not argv:
        print("usage: run check <ID> [--tier quick|thorough] | run replay <report> | run list")
        return 2
    cmd = argv[0]
    specs = load_all()
    if cmd == "list":
        for k, s in sorted(specs.items()):
            print(k, s.title, [r.name for r in s.rules])
        return 0
    if cmd == "check":
        pid = argv[1]
        tier = os.environ.get("VERIF_TIER", "quick")
        if "--tier" in argv:
            tier = argv[argv.index("--tier") + 1]
        if pid not in specs:
            print(f"ANALYSIS-ERROR property={pid}: no check registered")
            return 2
        return check_main(specs[pid], tier)
    if cmd == "replay":
        return replay_main(argv[1], specs)
    print(f"unknown command {cmd}")
    return 2


if __name__ == "__main__":
    try:
        rc = main(sys.argv[1:])
    except SystemExit:
        raise
    except BaseException as e:  # analyser crash is never a violation
        print(f"ANALYSIS-ERROR analyser crashed: {type(e).__name__}: {e}")
        traceback.print_exc()
        rc = 2
    sys.stdout.flush()
    sys.exit(rc)
