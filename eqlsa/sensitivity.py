"""
Thorough tier: checker sensitivity.

For each rule set, a list of single edits of the *current* package source (computed on the source text of the function
they anchor in, in memory - nothing is written under /repo or /verif), each byte-compiled with compile() to prove it
still builds (never executed), then analysed with the same rules.  A `broken` variant must be reported (VIOLATION, by
the expected rule when one is named); a `twin` (behaviour-preserving re-write) must leave the rules silent (no
VIOLATION, no UNDECIDED).  An edit whose anchor no longer exists is skipped and listed.

Sensitivity results go into the evidence; a missed variant lowers the reported confidence but is not a property
violation and does not fail the run.
"""
from __future__ import annotations

import ast
import os
import random
from concurrent.futures import ProcessPoolExecutor
from dataclasses import dataclass, field
from typing import Callable, Dict, List, Optional, Tuple

from .db import ProgramDB, AnalysisError
from .framework import PropertySpec, run_rules, VIOLATION, UNDECIDED, HOLDS


@dataclass
class Variant:
    name: str
    module: str                    # module short name, e.g. 'symbolic'
    function: Optional[str]        # qualname suffix of the function the edit is anchored in (None: whole module)
    old: str
    new: str
    kind: str = "broken"           # 'broken' | 'twin'
    rule: Optional[str] = None     # rule expected to report it
    note: str = ""
    also: Optional[list] = None    # further (old, new) edits in the same function, applied with the first


def function_span(src: str, qual: str) -> Optional[Tuple[int, int]]:
    """(start, end) character offsets of the function `Class.method` / `func` / `outer.inner` / `Class.prop@setter`."""
    tree = ast.parse(src)
    found = {}

    def visit(body, prefix):
        for n in body:
            if isinstance(n, ast.ClassDef):
                found.setdefault(".".join(prefix + [n.name]), n)
                visit(n.body, prefix + [n.name])
            elif isinstance(n, (ast.FunctionDef, ast.AsyncFunctionDef)):
                is_set = any(isinstance(d, ast.Attribute) and d.attr == "setter" for d in n.decorator_list)
                q = ".".join(prefix + [n.name]) + ("@setter" if is_set else "")
                found.setdefault(q, n)
                inner = [x for x in ast.walk(n) if isinstance(x, (ast.FunctionDef, ast.AsyncFunctionDef)) and x is not n]
                for x in inner:
                    found.setdefault(".".join(prefix + [n.name, x.name]), x)
            elif isinstance(n, (ast.If, ast.Try)):
                visit([c for c in ast.iter_child_nodes(n) if isinstance(c, ast.stmt)], prefix)
    visit(tree.body, [])
    node = found.get(qual)
    if node is None:
        return None
    lines = src.splitlines(keepends=True)
    start_line = min([node.lineno] + [d.lineno for d in getattr(node, "decorator_list", [])])
    start = sum(len(l) for l in lines[:start_line - 1])
    end = sum(len(l) for l in lines[:node.end_lineno])
    return start, end


def apply_variant(db: ProgramDB, v: Variant) -> Optional[str]:
    mod = db.modules.get(v.module)
    if mod is None:
        return None
    src = mod.source
    if v.function:
        span = function_span(src, v.function)
        if span is None:
            return None
        s, e = span
        seg = src[s:e]
        if seg.count(v.old) != 1:
            return None
        seg = seg.replace(v.old, v.new, 1)
        for o2, n2 in (v.also or []):
            if seg.count(o2) != 1:
                return None
            seg = seg.replace(o2, n2, 1)
        return src[:s] + seg + src[e:]
    if src.count(v.old) != 1:
        return None
    return src.replace(v.old, v.new, 1)


def _run_one(args):
    repo, spec_id, v, baseline = args
    from .props import load_all
    spec = load_all()[spec_id]
    db = ProgramDB(repo=repo)
    new_src = apply_variant(db, v)
    if new_src is None:
        return (v.name, v.kind, "skipped", "anchor text not found exactly once", [])
    try:
        compile(new_src, f"<variant {v.name}>", "exec")
    except SyntaxError as e:
        return (v.name, v.kind, "skipped", f"variant does not compile: {e}", [])
    try:
        db2 = ProgramDB(repo=repo, overrides={v.module: new_src})
        instances = run_rules(db2, spec)
    except Exception as e:  # pragma: no cover
        return (v.name, v.kind, "error", f"{type(e).__name__}: {e}", [])
    # only what the edit ADDS counts: violations of the unmodified tree (the recorded known findings) are not the variant's
    viol = [i for i in instances if i.verdict == VIOLATION and (i.rule, i.construct) not in baseline]
    und = [i for i in instances if i.verdict == UNDECIDED]
    fired = sorted({i.rule for i in viol})
    first = [f"{i.rule}:{i.construct}" for i in viol[:3]]
    if v.kind == "broken":
        if viol and (v.rule is None or v.rule in fired):
            return (v.name, v.kind, "caught", ", ".join(first), fired)
        if und and not viol:
            return (v.name, v.kind, "undecided", "; ".join(f"{i.rule}: {i.reason[:80]}" for i in und[:2]), fired)
        return (v.name, v.kind, "missed", f"fired={fired} expected={v.rule}", fired)
    else:
        if viol:
            return (v.name, v.kind, "alarm", ", ".join(first), fired)
        if und:
            return (v.name, v.kind, "undecided", "; ".join(f"{i.rule}: {i.reason[:80]}" for i in und[:2]), fired)
        return (v.name, v.kind, "silent", "", fired)


def run_sensitivity(db: ProgramDB, spec: PropertySpec, seed: int) -> dict:
    variants: List[Variant] = list(spec.sensitivity())
    rnd = random.Random(seed)
    rnd.shuffle(variants)
    baseline = frozenset((i.rule, i.construct) for i in run_rules(db, spec) if i.verdict == VIOLATION)
    jobs = [(db.repo, spec.id, v, baseline) for v in variants]
    workers = min(16, max(1, len(jobs)))
    results = []
    if len(jobs) <= 2:
        results = [_run_one(j) for j in jobs]
    else:
        with ProcessPoolExecutor(max_workers=workers) as ex:
            results = list(ex.map(_run_one, jobs))
    broken = [r for r in results if r[1] == "broken" and r[2] != "skipped"]
    twins = [r for r in results if r[1] == "twin" and r[2] != "skipped"]
    out = {
        "broken_variants": len(broken),
        "caught": len([r for r in broken if r[2] == "caught"]),
        "undecided_on_broken": len([r for r in broken if r[2] == "undecided"]),
        "twin_variants": len(twins),
        "silent_on_twins": len([r for r in twins if r[2] == "silent"]),
        "skipped": len([r for r in results if r[2] == "skipped"]),
        "missed": [f"{r[0]}: {r[3]}" for r in broken if r[2] in ("missed", "error")],
        "undecided": [f"{r[0]}: {r[3]}" for r in broken if r[2] == "undecided"],
        "twin_alarms": [f"{r[0]}: {r[2]} {r[3]}" for r in twins if r[2] != "silent"],
        "variants": [{"name": r[0], "kind": r[1], "outcome": r[2], "detail": r[3]} for r in sorted(results)],
    }
    return out
