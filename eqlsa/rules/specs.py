"""All property specifications."""
from __future__ import annotations

from ..framework import PropertySpec, Rule
from ..props import register
from . import opden, logic
import importlib


def _lazy(mod, fn):
    def call(db):
        return getattr(importlib.import_module(f"eqlsa.rules.{mod}"), fn)(db)
    return call

register(PropertySpec(
    id="C01",
    title="single-variable query is an exact, ordered, duplicate-free domain filter",
    rules=[
        Rule("OPDEN", opden.rule_opden, 8,
             "each comparison hook of CanBehaveLikeAVariable and entity.in_/contains, composed with "
             "Comparator.apply_operation, denotes the Python relation of the same name on (self, other)"),
        Rule("CMP-TRUTH", opden.rule_cmp_truth, 4,
             "abstract interpretation of Comparator._evaluate__ for every (operation result, yield_when_false): a row "
             "is emitted iff result or yield_when_false, and _is_false_ == not result at the yield"),
        Rule("OPERAND-VALUES", opden.rule_operand_values, 2,
             "each operand value handed to the operation is that operand's own entry of its binding"),
        Rule("OPERAND-IN-ROW", opden.rule_operand_in_row, 1,
             "the emitted row maps each operand to the value that was compared"),
        Rule("LOGIC-TRUTH", logic.rule_logic_truth, 12,
             "abstract interpretation of AND._evaluate__ and ElseIf._evaluate__ for every (left false, right false, "
             "yield_when_false): the _is_false_ flag carried by each emitted row is the truth table of the connective, "
             "false rows only when requested, and ElseIf asks its left side for false rows"),
        Rule("APPLY-ALWAYS", _lazy("extra", "rule_apply_always"), 1,
             "Comparator.apply_operation returns the operator applied to the operand values on every path"),
        Rule("LITERAL-WRAP", _lazy("extra", "rule_literal_wrap"), 1,
             "a literal operand is a one-element domain whatever its value (wrapped on every path of Literal.__init__)"),
        Rule("BIND-THREAD", _lazy("binding", "rule_bind_thread"), 30,
             "(shared with C02) operands are evaluated under the binding already established - a condition that "
             "mentions the variable twice must see the same object on both sides"),
        Rule("BIND-KEEP", _lazy("binding", "rule_bind_keep"), 12,
             "(shared with C02) rows keep everything their operands bound"),
        Rule("VALUE-TRUTH", _lazy("values", "rule_value_truth"), 10,
             "(shared with C19) operands are evaluated as values: objects whose attribute is 0, '', [] or None are "
             "compared, not dropped"),
        Rule("CACHE-FLAG-CONSISTENT", _lazy("cacheidx", "rule_cache_flag_consistent"), 5,
             "(shared with C05) a cached row is replayed with its own truth flag"),
        Rule("RESET-ALL-EXITS", _lazy("reset", "rule_reset_all_exits"), 2,
             "(shared with C04) the rows of an evaluation that follows an abandoned one are the rows of the query: the per-evaluation duplicate-suppression state is reset on every exit of evaluate()"),
        Rule("TRAVERSAL-TOTAL", _lazy("history", "rule_traversal_total"), 2,
             "(shared with C04) that reset reaches every node of the tree"),
        Rule("PRED-ARGS", _lazy("predform", "rule_predicate_args"), 1,
             "a @predicate call inside a block binds its positional arguments by position (also to parameters that have a default)"),
        Rule("CALL-FORWARD", _lazy("extra", "rule_call_forward"), 1,
             "a symbolic method call applies the method with all the positional and keyword arguments it was built with"),
        Rule("COVERAGE-SUBSUMPTION", _lazy("cacheidx", "rule_coverage_subsumption"), 4,
             "(shared with C20) result caches are on by default: a coverage test that over-approximates loses rows on re-evaluation of any query"),
        Rule("CLEAR-COMPLETE", _lazy("cacheidx", "rule_clear_complete"), 4,
             "(shared with C20) clearing an index (after an abandoned evaluation; a class's registry store) empties every store and withdraws the coverage marks"),
        Rule("REENTRANT-FLAG", _lazy("values", "rule_reentrant_flag"), 9,
             "(shared with C19) one attribute expression used as operand and as condition in the same query"),
        Rule("DECL-FILTER", _lazy("predform", "rule_decl_filter"), 5,
             "(shared with C13) the type filter of a supplied domain is lazy (an eagerly built empty list counts as no domain: the registry) and uses the class being constructed"),
        Rule("INSERT-RETRIEVABLE", _lazy("cacheidx", "rule_coverage_only_if_stored"), 1,
             "with an empty key list (a comparison between two literals) insert() records nothing as covered"),
        Rule("BOUND-AGAIN-TRUTH", _lazy("values", "rule_bound_again_truth"), 4,
             "an expression that finds itself bound already (a condition object used twice) sets its truth flag from the bound value before handing the binding on"),
        Rule("REPLAY-ONE-ENTRY", _lazy("cacheidx", "rule_replay_one_entry"), 1,
             "a lookup that leaves a cache key open is answered from the wildcard child or from the children that bind the key, not both (one result is stored under partial and full rows)"),
        Rule("DECL-FILTER", _lazy("predform", "rule_domain_builders"), 2,
             "only the confirmed builders hand a supplied domain to a Variable; anywhere else the domain is filtered by the variable's type first"),
        Rule("SOURCE-NOT-DELEGATED", _lazy("lazy", "rule_source_not_delegated"), 1,
             "an iteration over a lazily consumed domain does not delegate to the shared one-shot source (closing the iteration would close the source)"),
        Rule("MEMO-ON-PULL", _lazy("lazy", "rule_memo_on_pull"), 4,
             "the supplied domain is wrapped lazily, every member of it, and every member pulled is memoised before it is handed out"),
        Rule("RETRIEVE-MISS-WILDCARD", _lazy("cacheidx", "rule_retrieve_miss_wildcard"), 1,
             "a lookup that binds a key to a value nothing is stored under is still answered from the entries that leave the key open (rows stored under partial bindings are reported as covered)"),
        Rule("REPLAY-DEDUP", _lazy("cacheidx", "rule_replay_dedup"), 2,
             "rows replayed from a result cache are dropped only when they are duplicates (a false row is needed by an enclosing or_), and treated like freshly evaluated rows"),
        Rule("REPLAY-FALSE-ASKED", _lazy("cacheidx", "rule_replay_false_asked"), 5,
             "a replay from a result cache hands false rows on only to an evaluation that asked for them (the cache also holds the false rows of an evaluation that did)"),
        Rule("DEDUP-PER-PARENT", _lazy("binding", "rule_dedup_per_parent"), 1,
             "what a node has handed on is remembered per parent (a node used under two parents owes each its rows)"),
        Rule("SHARED-TAIL", _lazy("lazy", "rule_shared_tail"), 5,
             "two result iterators over one variable alive at once: each is handed what the other pulled from the shared one-shot domain (no qualifying object is lost)"),
        Rule("NEG-TRUTH", _lazy("negation", "rule_neg_truth"), 16,
             "the truth a mapping decides from a value (fresh or bound already) follows one table"),
        Rule("EVAL-PARENT-SET", _lazy("binding", "rule_eval_parent_set"), 9,
             "operators tell a shareable operand which of its parents evaluates it"),
        Rule("REPLAY-OR-EVALUATE", _lazy("cacheidx", "rule_replay_or_evaluate"), 2,
             "per row of its first operand an operator either replays the cached rows of the second or evaluates it, then goes on with the next row (CFG path rule at every per-row replay site)"),
        Rule("DEDUP-TRACKERS-DISTINCT", _lazy("binding", "rule_dedup_trackers_distinct"), 2,
             "the duplicate trackers for true and for false rows of a node are two objects wherever the by-truth mapping is built"),
        Rule("QUERY-FRESH-STATE", _lazy("history", "rule_query_fresh_state"), 2,
             "(shared with C04) every evaluation of a quantifier resets the duplicate-suppression state below it first: a suspended earlier iterator of the same query must not hide rows"),
        Rule("VALUE-IDENTITY", _lazy("extra", "rule_value_identity"), 8,
             "(shared with C20) a domain of distinct objects stays distinct: the identifier of a wrapped value is its identity, and an identifier carried in _id_ is believed only of the package's own expressions"),
        Rule("HOOK-SELF", _lazy("subquery", "rule_hook_self"), 3,
             "(shared with C15) the attribute hook builds a new node per mention: one memoised attribute node would be negated in place for every mention at once"),
        Rule("EVAL-PARENT-RESET", _lazy("binding", "rule_eval_parent_reset"), 1,
             "what an evaluation leaves in an operand's _eval_parent_ is wiped by the per-evaluation reset (evaluators that tell their operands nothing fall back to the graph parent)"),
        Rule("DEDUP-TESTS-YIELDED-ROW", _lazy("binding", "rule_dedup_tests_yielded_row"), 4,
             "the row the duplicate test looks at is the row that is handed on when it answers 'new' (path rule from every call of the test to the next yield)"),
        Rule("PULLED-RECORD", _lazy("lazy", "rule_pulled_record"), 3,
             "the record of what was pulled from a one-shot source is appended to only with the value just pulled, and emptied only by clear()"),
        Rule("REQUIRED-ASK-AS-SELF", _lazy("binding", "rule_required_ask_as_self"), 3,
             "a node asks its parent what to keep of its rows in its own name (the parent recognises the asking operand by identity)"),
        Rule("BOUND-AGAIN-ONCE", _lazy("values", "rule_bound_again_once"), 3,
             "an expression object that finds itself bound already answers once for that binding and ends (it does not fall through into the ordinary evaluation)"),
        Rule("CONDITIONS-FORWARDED", _lazy("subquery", "rule_conditions_forwarded"), 4,
             "the building functions pass the conditions they are given on to the function that builds the query, in every arm"),
        Rule("LOOP-RAN-FLAG", _lazy("flags", "rule_loop_ran_flag"), 3,
             "a flag that says 'the stream produced no row' (and starts a fallback evaluation) is set by every row: no continue, early exit or condition bypasses the assignment"),
        Rule("SEEN-RECORDED", _lazy("flags", "rule_seen_recorded"), 1,
             "a local collection that is asked 'seen before?' to drop a row is added to on every path from 'not seen' to the yield (the rows replayed from a result cache are replayed once)"),
        Rule("GRAPH-TRAVERSAL-ALL", _lazy("history", "rule_graph_traversal_all"), 4,
             "the walks over the expression graph (reset, cache invalidation, variable collection) see all children / descendants / parents of a node, also one that has another primary parent"),
        Rule("CONDITIONS-NOT-DROPPED", _lazy("the", "rule_conditions_not_dropped"), 3,
             "every case of the an()/the()/infer() dispatcher hands the written conditions on, is taken only when there are none, or refuses them: none builds the query for fewer conditions than were written"),
    ],
    explanation="Decides the clause 'the condition vocabulary denotes the ordinary Python operator': the node each "
                "public comparison/membership entry constructs (arguments mapped to dataclass fields through the MRO "
                "field order) composed with the order in which Comparator applies its operation, compared with Python's "
                "own relation table; plus the truth protocol of the comparator generator by finite abstract "
                "interpretation of its CFG. Necessary, not sufficient: ordering and de-duplication of rows are runtime "
                "protocols and are not decided.",
    assumptions=["operands are totally ordered where </<=/>/>= are used (mirrored forms are identified)",
                 "== and != are symmetric on user values"],
    design_ref="DESIGN.md §2 C01",
))

from . import negation

register(PropertySpec(
    id="C03",
    title="negation returns the exact complement, at any nesting depth",
    rules=[
        Rule("NEG-TABLE", negation.rule_neg_table, 21,
             "finite abstract evaluation of the Comparator._invert_ setter for each of the 7 operators: False->True gives "
             "the complement operator; re-assigning the same flag changes nothing"),
        Rule("NEG-INVOLUTION", negation.rule_neg_involution, 8,
             "the leaf arm of Not toggles the flag (f(f(b))=b, f(False)=True) and the setter maps every complemented "
             "operator back to the original on True->False"),
        Rule("NEG-DEMORGAN", negation.rule_neg_demorgan, 4,
             "Not(AND) builds an or-family node and Not(OR) an AND over Not(left), Not(right); Entity/SetOf are rebuilt "
             "over Not(child) with the same selected variables; arm order does not shadow"),
        Rule("LOGIC-TRUTH", logic.rule_logic_truth, 12,
             "the connectives negation rewrites into (AND, ElseIf) carry the truth table of the connective in the "
             "_is_false_ flag of each emitted row, for every (left false, right false, yield_when_false)"),
        Rule("NEG-TRUTH", negation.rule_neg_truth, 16,
             "for every (invert, value truthiness, yield_when_false) the mapped-value and predicate-output sites set "
             "_is_false_ = (truthy == invert) and emit iff yield_when_false or not _is_false_"),
        Rule("VALUE-TRUTH", _lazy("values", "rule_value_truth"), 10,
             "(shared with C19) the inner steps of an attribute / call chain are values: a falsy intermediate value is mapped on, not dropped"),
        Rule("PRED-ARGS", _lazy("predform", "rule_predicate_args"), 1,
             "a @predicate call inside a block binds its positional arguments by position (also to parameters that have a default)"),
        Rule("VOCAB-DENOTATION", _lazy("opden", "rule_vocab_denotation"), 4,
             "for_all / flatten / concatenate / not_ return, on every path, the node of their name built from their arguments themselves"),
        Rule("COVERAGE-SUBSUMPTION", _lazy("cacheidx", "rule_coverage_subsumption"), 4,
             "(shared with C20) result caches are on by default: a coverage test that over-approximates loses rows on re-evaluation of any query"),
        Rule("BOUND-AGAIN-TRUTH", _lazy("values", "rule_bound_again_truth"), 4,
             "an expression that finds itself bound already (a condition object used twice) sets its truth flag from the bound value before handing the binding on"),
        Rule("BIND-THREAD", _lazy("binding", "rule_bind_thread"), 30,
             "the operand a negated conjunction / disjunction evaluates under its sibling's row receives the incoming binding too (nesting under an operator that bound a variable already)"),
        Rule("NEG-HONOURED", _lazy("negation", "rule_neg_honoured"), 4,
             "the flag not_ flips on a leaf is read by every class that has it, and an operand without it is refused"),
        Rule("NEG-IN-PLACE", _lazy("negation", "rule_neg_in_place"), 1,
             "not_(c) leaves c what it was (a leaf is negated on a copy)"),
        Rule("REENTRANT-FLAG", _lazy("values", "rule_reentrant_flag"), 9,
             "a condition object placed twice (c and not_-free siblings of it) is evaluated re-entrantly: each evaluation reads the request for false rows from its own argument"),
        Rule("REG-BRANCH", _lazy("registry", "rule_reg_branch"), 2,
             "a predicate called symbolically denotes that predicate: the symbolic constructor returns the expression it built, not the condition it was conjoined into (not_ of it would negate the rest of the query)"),
        Rule("REPLAY-OR-EVALUATE", _lazy("cacheidx", "rule_replay_or_evaluate"), 2,
             "per row of its first operand an operator either replays the cached rows of the second or evaluates it, then goes on with the next row (CFG path rule at every per-row replay site)"),
        Rule("DEDUP-TRACKERS-DISTINCT", _lazy("binding", "rule_dedup_trackers_distinct"), 2,
             "the duplicate trackers for true and for false rows of a node are two objects wherever the by-truth mapping is built"),
        Rule("REPLAY-FALSE-ASKED", _lazy("cacheidx", "rule_replay_false_asked"), 5,
             "(shared with C05) a replay from a result cache hands on the false rows exactly when the evaluation it answers asked for them (below a negation every row of the original is a false row)"),
        Rule("HOOK-SELF", _lazy("subquery", "rule_hook_self"), 3,
             "(shared with C15) the attribute hook builds a new node per mention: not_(x.flag) must not invert the other bare uses of x.flag"),
        Rule("DEDUP-TRUTH-UP", _lazy("binding", "rule_dedup_truth_up"), 1,
             "(shared with C02) an operator asks its parent what to keep under the truth it can still have: below a negation the right side of the rewritten else-if must stay in the key"),
        Rule("OPERATION-ON-VALUES", _lazy("flags", "rule_operation_on_values"), 1,
             "(shared with C19) not_(contains(a, b)) is the complement of contains(a, b) for every value: the complement operation does not look at the truth of its operands"),
        Rule("RETRIEVE-ALL-BRANCHES", _lazy("cacheidx", "rule_retrieve_bound_branches"), 2,
             "(shared with C20) a lookup that binds a key follows the entry stored for that value AND the entry that leaves the key open: the rows of a negated conjunction whose sides mention different variables are stored both ways, and one of them is lost on a cache hit otherwise"),
        Rule("BIND-KEEP", _lazy("binding", "rule_bind_keep"), 10,
             "(shared with C01) a row an operator hands on is built from the whole row of its operand, not from the incoming binding alone: the rows of the complement keep what the first conjunct bound"),
    ],
    explanation="Negation is a rewrite at construction time, so it is a function on syntax and is decided from the "
                "source: the inverse-operator table is extracted by abstract evaluation of the setter's CFG (match / if "
                "chain / dict forms alike) over the finite operator alphabet and both flag transitions and compared "
                "with the complement table; the De Morgan arms are checked by resolved constructor and operands; the "
                "leaf transfer function is checked to be an involution; the two truth-inversion sites are checked "
                "against their truth tables by abstract interpretation.",
    assumptions=["operands of < <= > >= are totally ordered (the library's own inverse table assumes it)",
                 "function objects are identified by definition site"],
    design_ref="DESIGN.md §2 C03",
))

from . import modes, reset

register(PropertySpec(
    id="C08",
    title="symbolic mode is confined to its block",
    rules=[
        Rule("MODE-WRITER", modes.rule_mode_writer, 3,
             "who-may-call over the whole package: the mode context variable is written only by _set_symbolic_mode, "
             "which is called only by the symbolic_mode context manager"),
        Rule("MODE-PAIRING", modes.rule_mode_pairing, 6,
             "in symbolic_mode: previous mode saved before the write; the saved mode is restored on every normal, "
             "exceptional and generator-close path after the write and after the yield; query.__enter__/__exit__ "
             "paired; rule_mode delegates"),
        Rule("STACK-PAIRING", modes.rule_stack_pairing, 2,
             "__enter__ pushes exactly once and __exit__ pops exactly once on every path; nobody else mutates the "
             "expression-context stack"),
        Rule("NO-YIELD-UNDER-MODE", modes.rule_no_yield_under_mode, 20,
             "no generator other than the context managers themselves suspends (yield) inside a with "
             "symbolic_mode/rule_mode region"),
        Rule("MODE-SET-REQUESTED", modes.rule_mode_set_requested, 9,
             "symbolic_mode(mode=M) sets exactly M for every ambient mode"),
        Rule("OP-GUARD", modes.rule_op_guard, 13,
             "abstract interpretation of each of the 10 operator hooks with in_symbolic_mode() == False: no return is "
             "reachable (the hook raises), through helper calls too"),
        Rule("MODE-BRANCH", modes.rule_mode_branch, 4,
             "hybrid_new and the @predicate wrapper under each constant mode reach only their own arm"),
        Rule("EVAL-NO-CONTEXT", _lazy("modes", "rule_eval_no_context"), 5,
             "the mode-off switch of an evaluation also sets the expression context (open `with <query>` blocks) aside, so user code that builds a query during evaluation is not bound to the enclosing block's query"),
        Rule("ALLOC-AS-UNDECORATED", _lazy("registry", "rule_alloc_as_undecorated"), 2,
             "outside a block a decorated class is allocated by the __new__ the undecorated class would use, with the arguments of the call"),
        Rule("KWARGS-NAMESPACE", _lazy("predform", "rule_kwargs_namespace"), 6,
             "the functions that carry the user's field names in **kwargs keep their own parameters out of that namespace (positional-only)"),
        Rule("STACK-READ-LIVE", _lazy("modes", "rule_stack_read_live"), 1,
             "(shared with C09) the stack of open query blocks is read at call time only: leaving a block restores exactly the expression context for every reader"),
        Rule("MODE-OFF-DOM", _lazy("modes", "rule_mode_off_dom"), 2,
             "(shared with C09) the evaluation is advanced AND closed with the mode switched off and its own context stack: user code suspended inside it is finalised in the evaluation's environment, not in the caller's block"),
        Rule("NO-SHARED-DEFAULT", _lazy("modes", "rule_no_shared_default"), 1,
             "no parameter default creates a mutable object (the context stack of an evaluation, an accumulator) that the body stores, hands on or changes: such an object is one for all calls"),
        Rule("EXC-EXIT-ENV", _lazy("modes", "rule_exception_exit_env"), 2,
             "what an evaluation that ended with an exception left suspended is finalised in the evaluation's own environment, not in the caller's block when the exception is released"),
    ],
    explanation="The mode is a context variable with a closed set of writers, so confinement is a pairing property over "
                "all exits of the code that writes it. Decided on the CFG with exceptional and generator-suspension "
                "edges: save-before-write, restore on all exits, no suspension under an override anywhere in the "
                "package, guards on every operator hook (by abstract interpretation under the constant mode), and arm "
                "separation of the mode-dependent constructors.",
    assumptions=["thread/async interleavings are not modelled (the expression stack is a class-level list)",
                 "__exit__ of the context managers does not swallow exceptions (they are try/finally generators)"],
    design_ref="DESIGN.md §2 C08",
))

register(PropertySpec(
    id="C09",
    title="evaluation gives the same answer inside and outside a symbolic block",
    rules=[
        Rule("MODE-OFF-DOM", modes.rule_mode_off_dom, 2,
             "every program point of a public evaluate() that runs evaluation (calls a plain evaluator, or advances an "
             "evaluation generator) lies inside `with symbolic_mode(mode=None)`"),
        Rule("MODE-SET-REQUESTED", modes.rule_mode_set_requested, 9,
             "abstract interpretation of symbolic_mode for every (requested mode, ambient mode): the mode that is set is "
             "the requested one - mode=None switches symbolic mode off inside rule/query blocks too"),
        Rule("USERCODE-REACH", modes.rule_usercode_reach, 6,
             "the sites that run user code (predicate call, self._type_(**…), getattr/[]/() on user values, the "
             "comparison operator) are reachable only through the evaluation protocol, hence only under the entries"),
        Rule("MODE-BRANCH", _lazy("modes", "rule_mode_branch"), 4,
             "(shared with C08) with symbolic mode off the @predicate wrapper and @symbol constructor take the concrete arm, whatever else is active"),
        Rule("EVAL-NO-CONTEXT", _lazy("modes", "rule_eval_no_context"), 5,
             "the mode-off switch of an evaluation also sets the expression context (open `with <query>` blocks) aside, so user code that builds a query during evaluation is not bound to the enclosing block's query"),
        Rule("STACK-READ-LIVE", _lazy("modes", "rule_stack_read_live"), 1,
             "the stack of open query blocks is read at call time only (no module-level alias, class attribute or default argument holds the list; no alias is kept beyond a call): an evaluation rebinds the attribute"),
        Rule("RULE-ON-ENTER", _lazy("ruletree", "rule_rule_on_enter"), 2,
             "(shared with C12) only a RULE block opened on a query makes it a rule: a query-mode block on a rule leaves it a rule, so evaluating inside that block gives what evaluating outside gives"),
        Rule("MEMO-ON-PULL", _lazy("lazy", "rule_memo_on_pull"), 3,
             "(shared with C07) the source of a domain is wrapped lazily: a sub-query given as a domain is not evaluated when the variable is declared (inside the block, without the evaluation's mode override)"),
        Rule("NO-SHARED-DEFAULT", _lazy("modes", "rule_no_shared_default"), 1,
             "(shared with C08) the stack an evaluation works on is new per evaluation, never a parameter default shared by all calls"),
        Rule("STREAM-UNDER-CLEANUP", _lazy("flags", "rule_stream_under_cleanup"), 1,
             "a method that holds state for the duration of an evaluation in a try/finally or with bracket produces the rows inside it (yield from), it does not return an unstarted generator from inside the bracket"),
        Rule("VARIABLE-DISPATCH", _lazy("flags", "rule_variable_dispatch"), 4,
             "the cases of Variable._evaluate__ as a table: a predicate is executed with or without arguments, a constructor term is constructed, a variable inferred through conclusions only is not"),
        Rule("INFER-MARK", _lazy("ruletree", "rule_infer_mark"), 12,
             "(shared with C11) infer(...) and a rule written with an(...) mark the same selected variables as inferred"),
    ],
    explanation="User predicates and @symbol constructors consult the ambient mode; the result is mode-independent iff "
                "every public entry switches the mode off around every point at which evaluation runs. That is a "
                "region-containment fact on each entry, plus a call-graph closure showing user code is only run from "
                "evaluation methods.",
    assumptions=["C08's guarantees (the override is restored)", "user predicates are deterministic"],
    design_ref="DESIGN.md §2 C09",
))

from . import history

register(PropertySpec(
    id="C04",
    title="a query's answer does not depend on what was evaluated before it",
    rules=[
        Rule("RESET-ALL-EXITS", reset.rule_reset_all_exits, 2,
             "for every public evaluate(): from every point that runs evaluation, every normal, exceptional and "
             "generator-close path to an exit passes self._reset_cache_() (or the reset dominates the evaluation)"),
        Rule("EVAL-STATE-RESET", history.rule_eval_state_reset, 5,
             "every container field of an expression class that evaluation code mutates is re-created by the reset "
             "traversal, re-initialised per evaluation, persistent by type (result cache / domain memo) or benign"),
        Rule("COVERAGE-AFTER-COMPLETION", history.rule_coverage_after_completion, 6,
             "coverage writes into result caches that a yield can follow require every public entry to invalidate the "
             "tree's result caches on each exceptional / close exit"),
        Rule("INTERNAL-ABANDON", history.rule_internal_abandon, 1,
             "engine code that leaves a loop over an evaluation stream early (break/return) invalidates the result caches "
             "of the abandoned producer; next()-consumers are a frozen table of exceptions with reasons"),
        Rule("NO-DOMAIN-MUTATION", history.rule_no_domain_mutation, 3,
             "no mutating operation is applied to a value that is the user's domain object"),
        Rule("NO-USER-VALUE-MUTATION", history.rule_no_user_value_mutation, 5,
             "no value taken out of a binding (a user object or attribute value) is mutated in place, directly or through "
             "a local container slot that aliases it"),
        Rule("DUP-STABLE", _lazy("lazy", "rule_dup_stable"), 1,
             "a domain that lists the same object twice yields it the same number of times on the first pass (pulling) and on "
             "later passes (memo replay)"),
        Rule("MEMO-ON-PULL", _lazy("lazy", "rule_memo_on_pull"), 3,
             "(shared with C07) an element pulled from a lazily consumed domain is memoised before it is handed out, so "
             "an evaluation abandoned at that element does not lose it for later evaluations"),
        Rule("REPLAY-DEDUP", _lazy("cacheidx", "rule_replay_dedup"), 2,
             "(shared with C05) a second evaluation served from an operand cache returns each row as often as the first one"),
        Rule("TRAVERSAL-TOTAL", _lazy("history", "rule_traversal_total"), 2,
             "the recursive reset / invalidation traversals apply themselves to every child on every path (no subtree is skipped)"),
        Rule("CLEAR-COMPLETE", _lazy("cacheidx", "rule_clear_complete"), 4,
             "(shared with C20) invalidating a result cache after an abandoned evaluation also withdraws its coverage marks"),
        Rule("MEMO-SOURCE-FAILURE", _lazy("lazy", "rule_memo_source_failure"), 3,
             "a one-shot domain source that raised (user code inside a sub-query used as a domain) is not mistaken for an exhausted one"),
        Rule("EVAL-FLAG", _lazy("history", "rule_eval_flag"), 3,
             "scalar flags a node sets on itself during evaluation and reads back are assigned before they are read in every evaluation, "
             "or withdrawn on every exit of the function that sets them, or assigned by the reset"),
        Rule("CACHED-POSITION-RESET", _lazy("history", "rule_cached_position_reset"), 1,
             "memoised methods that depend on the position of a node in the tree are dropped with the per-evaluation state"),
        Rule("RESET-REACHES-EVALUATED", _lazy("history", "rule_reset_reaches_evaluated"), 6,
             "every sub-expression a node evaluates is linked below it in the node graph the reset and the invalidation walk"),
        Rule("CHECK-IS-PURE", _lazy("cacheidx", "rule_check_is_pure"), 2,
             "(shared with C20) asking whether a binding is covered does not mark it covered (a sub-query evaluated alone would hide its false rows from a later enclosing query)"),
        Rule("RULE-ON-ENTER", _lazy("ruletree", "rule_rule_on_enter"), 2,
             "a query is flagged as a rule both when it is written inside a rule block and when a rule block is opened on it"),
        Rule("SHARED-TAIL", _lazy("lazy", "rule_shared_tail"), 5,
             "an iteration over a lazily consumed domain is handed what other live iterations pulled from the shared source"),
        Rule("SOURCE-NOT-DELEGATED", _lazy("lazy", "rule_source_not_delegated"), 1,
             "an iteration over a lazily consumed domain does not delegate to the shared one-shot source (closing the iteration would close the source)"),
        Rule("QUERY-FRESH-STATE", _lazy("history", "rule_query_fresh_state"), 2,
             "every evaluation of a quantified query (nested, selected, used as a domain) starts by resetting the duplicate-suppression state below it"),
        Rule("REG-LIVE", _lazy("registry", "rule_reg_live"), 5,
             "the registry-backed domain of a variable does not survive from one evaluation to the next"),
        Rule("INSERT-RETRIEVABLE", _lazy("cacheidx", "rule_coverage_only_if_stored"), 1,
             "an index without keys (a comparison between two constants) records no coverage: later evaluations are not answered from an empty index"),
        Rule("REPLAY-FALSE-ASKED", _lazy("cacheidx", "rule_replay_false_asked"), 5,
             "a replay from a result cache hands false rows on only to an evaluation that asked for them (the cache also holds the false rows of an evaluation that did)"),
        Rule("REPLAY-CHILD-DEDUP", _lazy("cacheidx", "rule_replay_child_dedup"), 1,
             "the first evaluation (computed) and later ones (replayed) hand on the same rows: a replay goes through the duplicate suppression the operand applies to itself"),
        Rule("INFER-MARK", _lazy("ruletree", "rule_infer_mark_transient"), 1,
             "the inferred mark of a shared variable is given by evaluation code and taken back, never at construction time"),
        Rule("REG-LIVE", _lazy("registry", "rule_reg_live_conclusions"), 1,
             "the per-evaluation reset reaches variables that only a conclusion mentions"),
        Rule("REPLAY-OR-EVALUATE", _lazy("cacheidx", "rule_replay_or_evaluate"), 2,
             "per row of its first operand an operator either replays the cached rows of the second or evaluates it, then goes on with the next row (CFG path rule at every per-row replay site)"),
        Rule("EVAL-PARENT-RESET", _lazy("binding", "rule_eval_parent_reset"), 1,
             "what an evaluation leaves in an operand's _eval_parent_ is wiped by the per-evaluation reset (evaluators that tell their operands nothing fall back to the graph parent)"),
        Rule("INFER-MARK", _lazy("ruletree", "rule_infer_mark"), 5,
             "(shared with C12) a rule records as 'inferred for this evaluation' only what it marked itself: a variable that is inferred already is not un-marked by the reset after an abandoned evaluation"),
        Rule("PULLED-RECORD", _lazy("lazy", "rule_pulled_record"), 3,
             "the record of what was pulled from a one-shot source is appended to only with the value just pulled, and emptied only by clear()"),
        Rule("SLOT-STORE-LINKED", _lazy("history", "rule_slot_store_linked"), 3,
             "a node put into another node's operand / child slot after construction is linked below it in the graph as well (the reset and the cache invalidation follow the graph)"),
        Rule("REG-SNAPSHOT", _lazy("registry", "rule_reg_snapshot"), 1,
             "the stores of a class and of its subclasses are all read before the first instance is handed out: an evaluation that also constructs instances does not range over its own output"),
        Rule("EVAL-PARENT-SET", _lazy("binding", "rule_eval_parent_set"), 7,
             "(shared with C01) what a query answers does not depend on which other query was BUILT with the same condition object last"),
        Rule("LOOP-RAN-FLAG", _lazy("flags", "rule_loop_ran_flag"), 3,
             "a flag that says 'the stream produced no row' (and starts a fallback evaluation) is set by every row: no continue, early exit or condition bypasses the assignment"),
        Rule("SEEN-RECORDED", _lazy("flags", "rule_seen_recorded"), 1,
             "a local collection that is asked 'seen before?' to drop a row is added to on every path from 'not seen' to the yield (the rows replayed from a result cache are replayed once)"),
        Rule("GRAPH-TRAVERSAL-ALL", _lazy("history", "rule_graph_traversal_all"), 4,
             "the walks over the expression graph (reset, cache invalidation, variable collection) see all children / descendants / parents of a node, also one that has another primary parent"),
    ],
    explanation="History independence is absence of residue on the shared expression nodes. Decided: where residue is "
                "written (discovered mechanically from dataclass fields and mutation sites reachable from evaluation "
                "methods over the call graph) and that it is cleared on every exit (CFG with exceptional and "
                "generator-close edges); that result-cache coverage recorded before completion is rolled back on "
                "every abnormal exit; that user domains are never mutated. Not decided: equality of results across "
                "interleavings of different queries sharing variables (needs the runtime contents of the caches).",
    assumptions=["evaluation generators abandoned *inside* the engine (ForAll early exit, the() nested in a query) are "
                 "reported informationally only", "cleanup statements do not raise"],
    design_ref="DESIGN.md §2 C04",
))

from . import the as the_rules

register(PropertySpec(
    id="C06",
    title="`the` returns the unique solution or raises, consistently with `an`",
    rules=[
        Rule("THE-OUTCOME", the_rules.rule_the_outcome, 4,
             "typestate interpretation of the evaluator The.evaluate calls (constants of the call site propagated; "
             "solutions consumed in {0,1,>=2}; _is_false_ entry values closed under re-evaluation): outcomes are exactly "
             "0 -> raises NoSolutionFound, 1 -> returns the solution, >=2 -> raises MultipleSolutionFound"),
        Rule("RESET-ALL-EXITS", reset.rule_reset_all_exits_the, 1,
             "The.evaluate resets the per-evaluation state on every exit, including both exceptions it is specified to "
             "raise: the outcome is the same on re-evaluation"),
        Rule("COVERAGE-AFTER-COMPLETION", history.rule_coverage_the_only, 1,
             "(shared with C04) The.evaluate rolls the result caches back when it raises: `the` stops at the second "
             "solution, so the caches of its conditions are incomplete whenever MultipleSolutionFound is raised"),
        Rule("MEMO-ON-PULL", _lazy("lazy", "rule_memo_on_pull"), 3,
             "(shared with C07) `the` abandons the domain at the second solution; the element it stopped on must already be "
             "memoised or re-evaluation sees a smaller domain"),
        Rule("VAR-NULL-GUARD", the_rules.rule_var_null_guard, 1,
             "self._var_ (None for set_of descriptors) is dereferenced only under a guard - sibling cross-check An / The"),
        Rule("QUANTIFIER-KIND", the_rules.rule_quantifier_kind, 3,
             "the()/an()/infer() return a quantifier of the requested kind on every path of the constructor function"),
        Rule("PROJECTION-SHARED", the_rules.rule_projection_shared, 3,
             "The.evaluate and An.evaluate turn the evaluated binding into the user value through the same "
             "_process_result_ implementation"),
        Rule("TRAVERSAL-TOTAL", _lazy("history", "rule_traversal_total"), 2,
             "the recursive reset / invalidation traversals apply themselves to every child on every path (no subtree is skipped)"),
        Rule("DUP-STABLE", _lazy("lazy", "rule_dup_stable"), 1,
             "(shared with C04) a domain that lists the solution twice gives one solution on the first evaluation as on later ones"),
        Rule("CACHE-FLAG-CONSISTENT", _lazy("cacheidx", "rule_cache_flag_consistent"), 5,
             "(shared with C05) re-evaluating the() replays cached rows with their own truth flag"),
        Rule("FORALL-PER-VALUE", _lazy("forall", "rule_forall_per_value"), 1,
             "(shared with C10) a for_all under the() evaluates its condition under the incoming binding"),
        Rule("NO-DOMAIN-MUTATION", _lazy("history", "rule_no_domain_mutation"), 1,
             "(shared with C04) a From object shared by two variables is not rewritten by the first"),
        Rule("CACHED-POSITION-RESET", _lazy("history", "rule_cached_position_reset"), 1,
             "the memo of the position-dependent duplicate-suppression keys is dropped, for the class of the node being reset, with the per-evaluation state"),
        Rule("REPLAY-ONE-ENTRY", _lazy("cacheidx", "rule_replay_one_entry"), 1,
             "a lookup that leaves a cache key open is answered from the wildcard child or from the children that bind the key, not both (one result is stored under partial and full rows)"),
        Rule("QUANT-NOT-STRIPPED", _lazy("subquery", "rule_quant_not_stripped"), 1,
             "where a quantified sub-query is replaced by its selected variable, the quantifier (its conditions) is handed on as well"),
        Rule("QUERY-FRESH-STATE", _lazy("history", "rule_query_fresh_state"), 2,
             "every evaluation of a quantified query (nested, selected, used as a domain) starts by resetting the duplicate-suppression state below it"),
        Rule("MODE-OFF-DOM", _lazy("modes", "rule_mode_off_dom"), 2,
             "the(...) evaluates with the symbolic mode off: inside a block a Predicate subclass in the description would otherwise be built, not run, and every candidate would count as a solution"),
        Rule("REG-LIVE", _lazy("registry", "rule_reg_live"), 5,
             "(shared with C14) a variable without a domain reads the registry when it is evaluated, every time: the outcome of the(...) on re-evaluation follows the instances that exist then"),
        Rule("FLATTEN-EACH", _lazy("extra", "rule_flatten_paths"), 2,
             "(shared with C16) every element of a flattened collection has an identity of its own: the result caches and duplicate filters are keyed by it, so a result recorded for one element is not replayed for its siblings (a second solution appears / disappears)"),
        Rule("FAILURE-CTOR-TOTAL", _lazy("the", "rule_failure_ctor_total"), 2,
             "constructing MultipleSolutionFound / NoSolutionFound cannot itself raise (no keyed lookup on the rows, no next(), no assert)"),
        Rule("VALUE-IDENTITY", _lazy("extra", "rule_value_identity"), 8,
             "(shared with C20) a domain of distinct objects stays distinct: the identifier of a wrapped value is its identity, and an identifier carried in _id_ is believed only of the package's own expressions"),
        Rule("DECL-FILTER", _lazy("predform", "rule_decl_filter"), 4,
             "(shared with C13) a single object given as the domain is kept when it is an INSTANCE of the type (subclasses included)"),
        Rule("NEG-TRUTH", _lazy("negation", "rule_neg_truth"), 16,
             "(shared with C03) what a negated predicate yields is decided by its (inverted) truth, not by the truthiness of its output"),
        Rule("DEDUP-TESTS-YIELDED-ROW", _lazy("binding", "rule_dedup_tests_yielded_row"), 4,
             "the row the duplicate test looks at is the row that is handed on when it answers 'new' (path rule from every call of the test to the next yield)"),
        Rule("DECL-FILTER", _lazy("predform", "rule_decl_filter_paths"), 1,
             "(shared with C13) every supplied domain is filtered by isinstance (a single object of a subclass is a domain of one value)"),
        Rule("REQUANTIFY-DESCRIPTION", _lazy("the", "rule_requantify_description"), 1,
             "an already quantified predicate-form term handed to an()/the()/infer() is re-wrapped by its description (conditions included), never by its selected variable alone"),
        Rule("BIND-THREAD", _lazy("binding", "rule_bind_thread"), 30,
             "(shared with C01) every operand is evaluated under the binding of the enclosing row: a conjunct that enumerates an already bound variable afresh gives `the` a second, spurious solution"),
        Rule("REG-SNAPSHOT", _lazy("registry", "rule_reg_snapshot"), 1,
             "(shared with C14) the instances a variable without a domain ranges over are read from all stores before the first is handed out: what user code constructs during the evaluation is not a second solution"),
        Rule("ROW-NOT-MEMOISED", _lazy("flags", "rule_row_not_memoised"), 1,
             "no evaluation method keeps a row it produced in an attribute of the node and hands it out again on a later call (an operand is evaluated once per binding of the enclosing query)"),
    ],
    explanation="The three outcomes of `the` are decided by a typestate interpretation of its evaluator over the finite "
                "state space (result None/solution, solutions consumed 0/1/>=2, _is_false_), exception classes resolved "
                "through the import table to failures.py; repeatability by the reset-on-all-exits rule; agreement with "
                "`an` by showing both entries project through one function. Not decided: that the child generator "
                "enumerates each satisfying assignment exactly once (C02).",
    assumptions=["data is unchanged between evaluations", "the child generator yields one binding per satisfying assignment"],
    design_ref="DESIGN.md §2 C06",
))

from . import aggregates

register(PropertySpec(
    id="C17",
    title="concatenate yields a single value: all inner elements, in order",
    rules=[
        Rule("CONCAT-ONCE", aggregates.rule_concat_once, 3,
             "Concatenate._evaluate__ yields exactly one row on every path (counting domain {0,1,many} over the CFG), "
             "the row is yielded after the loop over child bindings, and accumulation is unconditional"),
        Rule("OPERAND-IN-ROW", opden.rule_operand_in_row, 1,
             "the row of a membership test maps each operand to the value that was compared (concatenate re-binds the other "
             "variables in its own row)"),
        Rule("VALUE-TRUTH", _lazy("values", "rule_value_truth"), 10,
             "(shared with C19) concatenate collects falsy elements too"),
        Rule("CLEAR-COMPLETE", _lazy("cacheidx", "rule_clear_complete"), 4,
             "(shared with C20) a membership test against a concatenation is a comparator entered with no bound variable: "
             "its cache is marked as covering everything, so clearing it after an abandoned evaluation must clear that mark"),
        Rule("EVAL-SIGNATURE", aggregates.rule_eval_signature, 15,
             "sibling agreement: every override of _evaluate__ accepts the parameters of the abstract declaration "
             "under the names its callers use"),
        Rule("VALUE-NOT-TESTED", _lazy("values", "rule_value_not_tested"), 8,
             "the payload of a bound value is tested for truth only where the test decides _is_false_ (condition position), never to "
             "decide whether to skip, wrap, flatten or accumulate it"),
        Rule("SCALAR-CLASSIFIER", _lazy("aggregates", "rule_scalar_classifier"), 1,
             "the collection / scalar classifier shared by flatten and concatenate excludes strings by isinstance (subclasses of str are scalars)"),
        Rule("VOCAB-DENOTATION", _lazy("opden", "rule_vocab_denotation"), 4,
             "for_all / flatten / concatenate / not_ return, on every path, the node of their name built from their arguments themselves"),
        Rule("DECL-FILTER", _lazy("predform", "rule_decl_filter"), 5,
             "(shared with C13) the type filter of a supplied domain is lazy (an eagerly built empty list counts as no domain: the registry) and uses the class being constructed"),
        Rule("DECL-FILTER", _lazy("predform", "rule_domain_builders"), 2,
             "only the confirmed builders hand a supplied domain to a Variable; anywhere else the domain is filtered by the variable's type first"),
        Rule("QUANT-NOT-STRIPPED", _lazy("subquery", "rule_quant_not_stripped"), 1,
             "where a quantified sub-query is replaced by its selected variable, the quantifier (its conditions) is handed on as well"),
        Rule("QUERY-FRESH-STATE", _lazy("history", "rule_query_fresh_state"), 2,
             "every evaluation of a quantified query (nested, selected, used as a domain) starts by resetting the duplicate-suppression state below it"),
        Rule("VARS-COMPLETE", _lazy("subquery", "rule_vars_complete"), 3,
             "a concatenation reports the variables of the expression it ranges over (the per-evaluation reset of a selected concatenation reaches its parent variable through them)"),
        Rule("DECL-FILTER", _lazy("predform", "rule_decl_filter_paths"), 1,
             "(shared with C13) a variable given as the domain of another variable reaches it untouched (it is iterable, but over bindings): concatenate over every parent domain"),
        Rule("COLLECTION-TABLE", _lazy("predform", "rule_collection_table"), 2,
             "(shared with C13) an inner scalar that is a class object is one element"),
        Rule("CONDITIONS-FORWARDED", _lazy("subquery", "rule_conditions_forwarded"), 4,
             "the building functions pass the conditions they are given on to the function that builds the query, in every arm"),
        Rule("OPERATION-ON-VALUES", _lazy("flags", "rule_operation_on_values"), 1,
             "(shared with C19) the negated membership test is exactly the complement of the membership test, whatever the truthiness of the container"),
        Rule("VALUE-IDENTITY", _lazy("extra", "rule_value_identity"), 8,
             "(shared with C20) two parents (or two tested values) that carry equal _id_ attributes of their own stay two values"),
    ],
    explanation="Decides: exactly-one-row by counting yields over all CFG paths; and interface agreement among the "
                "implementations of the evaluation protocol (a concatenate used where the protocol passes "
                "yield_when_false must accept it). Not decided: order and multiplicity inside the accumulated list and "
                "membership tests against it (list algebra on runtime values).",
    assumptions=[],
    design_ref="DESIGN.md §2 C17",
))

from . import ruletree

register(PropertySpec(
    id="C12",
    title="a rule tree selects, per match, the conclusion ripple-down rules prescribe",
    rules=[
        Rule("SELECTOR-NO-CACHE", _lazy("cacheidx", "rule_selector_no_cache"), 3,
             "for every conclusion-selector class, every result-cache read in the evaluation generators it dispatches to "
             "(own and inherited) is switched off: conclusions are a side effect of evaluating the operands"),
        Rule("EVAL-STATE-RESET", _lazy("history", "rule_eval_state_reset"), 5,
             "(shared with C04) the selectors' per-evaluation state (concluded_before, _conclusion_) is reset with the query"),
        Rule("EXCEPT-FIRED", _lazy("extra", "rule_except_fired"), 1,
             "ExceptIf asks the refinement side for true rows only ('produced a row' is taken for 'fired')"),
        Rule("BIND-NO-CLOBBER", _lazy("extra", "rule_bind_no_clobber"), 8,
             "(shared with C02) a selector does not modify the binding its operand's stream was started under"),
        Rule("TREE-SURGERY", ruletree.rule_tree_surgery, 2,
             "every function that wraps the current node in a conclusion selector: saves the node's parent, detaches, "
             "attaches the selector under the saved parent and - when that parent is a binary operator - re-points the "
             "operand slot that held the node (slot chosen by identity, or the other slot excluded by re-targeting)"),
        Rule("DEDUP-UNKNOWN", _lazy("binding", "rule_dedup_unknown"), 2,
             "a duplicate-suppression key computed for a row of unknown truth (when_true=None) contains whatever is required "
             "for a true or for a false row"),
        Rule("SELECT-PER-ROW", _lazy("ruletree", "rule_select_per_row"), 3,
             "the conclusions a selector exposes with a row are withdrawn before it produces the next row"),
        Rule("DEDUP-CONCLUSIONS", _lazy("binding", "rule_dedup_conclusions"), 2,
             "the failed rows of a rule are keyed by what the alternative tried next tests AND by what it concludes on"),
        Rule("CONCLUDED-PER-CONCLUSION", _lazy("ruletree", "rule_concluded_per_conclusion"), 2,
             "what a selector remembers as already concluded is remembered per conclusion, not only per binding of its variables"),
        Rule("CACHED-POSITION-RESET", _lazy("history", "rule_cached_position_reset"), 1,
             "memoised methods that depend on the position of a node in the tree are dropped with the per-evaluation state"),
        Rule("KEY-FILTER-KEEPS", _lazy("binding", "rule_key_filter_keeps"), 4,
             "filters that compute the variables identifying a row keep plain variables and one-to-many mappings"),
        Rule("RULE-ON-ENTER", _lazy("ruletree", "rule_rule_on_enter"), 2,
             "a query is flagged as a rule both when it is written inside a rule block and when a rule block is opened on it"),
        Rule("ALT-LEFT-TRUTH", _lazy("ruletree", "rule_alt_left_truth"), 1,
             "when the branches before an alternative yield no row at all, their truth flag is set to false before the alternative's rows are handed on"),
        Rule("DEDUP-UNDER-ROW-TRUTH", _lazy("binding", "rule_dedup_under_row_truth"), 5,
             "a row is tested for being a duplicate under the truth value it is handed on with (the flag is not assigned between the test and the yield)"),
        Rule("CONCLUSION-VARS-BOUND", _lazy("ruletree", "rule_conclusion_vars_bound"), 1,
             "the variables a conclusion mentions and the fired row lacks are bound (each value) before the conclusion is applied"),
        Rule("CONCLUSION-VARS-BOUND", _lazy("ruletree", "rule_conclusion_vars_which"), 6,
             "what a conclusion mentions and the fired row lacks is bound first: variables with or without a domain, flattened expressions (one conclusion per element)"),
        Rule("INFER-MARK", _lazy("ruletree", "rule_infer_mark"), 5,
             "a rule marks as inferred the selected variables it concludes on or that have no domain - not a flattened expression, not a domain variable selected next to them"),
        Rule("INFER-MARK", _lazy("ruletree", "rule_infer_mark_transient"), 1,
             "the inferred mark of a shared variable is given by evaluation code and taken back, never at construction time"),
        Rule("SELECTOR-ROW-DEDUP", _lazy("ruletree", "rule_selector_row_dedup"), 2,
             "the selectors built by refinement / alternative never drop a TRUE row because of the values of the variables the conclusions mention (two such assignments can select different conclusions)"),
        Rule("DESCRIPTOR-SIBLINGS", _lazy("ruletree", "rule_descriptor_siblings"), 3,
             "entity and set_of are one implementation: a type test on the kind of a descriptor covers every kind (same test or the arms of its chain), so a rule or query written with set_of takes the paths the same one written with entity takes"),
        Rule("EXPR-IDENTITY", _lazy("ruletree", "rule_expr_identity"), 1,
             "engine code compares nodes by identity: == / != on a node-valued slot would build a (truthy) comparison expression"),
        Rule("SLOT-STORE-LINKED", _lazy("history", "rule_slot_store_linked"), 3,
             "a node put into another node's operand / child slot after construction is linked below it in the graph as well (the reset and the cache invalidation follow the graph)"),
        Rule("CONCLUDED-WHEN-KEPT", _lazy("ruletree", "rule_concluded_when_kept"), 2,
             "what a selector records as concluded for a row is taken back when a refinement above fires for that row"),
        Rule("REFINEMENT-PER-ROW", _lazy("ruletree", "rule_refinement_per_row"), 1,
             "the true rows of a refinement are keyed by the variables of the branch it refines"),
        Rule("SELECT-EVERY-ROW", _lazy("ruletree", "rule_select_every_row"), 3,
             "a selector draws its conclusions for every row it hands on: no selection inside a row loop is guarded by a local carried from one row to the next (a 'first row' flag)"),
        Rule("OR-LEFT-TOTAL", _lazy("logic", "rule_or_left_total"), 1,
             "(shared with C18; recorded finding) an alternative is tried for every assignment for which the branch before it did not hold, also those for which that branch's condition yields no row at all (a flattened empty collection)"),
    ],
    explanation="Attaching a branch rewires the condition tree in place; evaluation follows the left/right fields, not "
                "the graph edges, so a selector that is attached in the graph but not stored in its parent's operand slot "
                "is never evaluated. The protocol is inferred from the two functions that perform it and checked on "
                "both (sibling cross-check). Not decided: conclusion selection at run time (ExceptIf/Alternative "
                "bookkeeping depends on runtime truth flags).",
    assumptions=["attachment points are the nodes pushed by `with rule_mode(query)` / `with refinement(...)` / "
                 "`with alternative(...)`"],
    design_ref="DESIGN.md §2 C12",
))

from . import predform

register(PropertySpec(
    id="C13",
    title="predicate-form terms equal the explicit form and filter by type",
    rules=[
        Rule("SLOT-ALIGN", predform.rule_slot_align, 5,
             "abstract run of update_domain_and_kwargs_from_args over positional lists with and without a leading "
             "From(...): the k-th field value is bound to __init__ parameter k+1 (self = 0), the From slot not counted"),
        Rule("CLS-ARGS-SIGNATURE", predform.rule_cls_args_signature, 1,
             "the name list positional values are bound against is inspect.signature(cls.__init__).parameters on every path"),
        Rule("DECL-FILTER", predform.rule_decl_filter_paths, 1,
             "abstract-state-aware path query: every path of extract_selected_variable_and_expression with a supplied "
             "(non-expression) domain passes an isinstance(…, runtime class) test before the Variable is built"),
        Rule("DECL-FILTER", predform.rule_decl_filter, 4,
             "the supplied domain is wrapped in a filter isinstance(v, <runtime class parameter>), the Variable is built "
             "for that class over the filtered domain, and the runtime class (not the closure's decorated class) is "
             "threaded from __new__ down"),
        Rule("NO-DOMAIN-MUTATION", history.rule_no_domain_mutation, 3,
             "the From(...) object and the domain supplied by the caller are never modified (a From shared by two "
             "variables must give each its own filtered view)"),
        Rule("FIELD-EQ", predform.rule_field_eq, 3,
             "properties_to_expression_tree builds one getattr(var, field) == value per given field, in symbolic mode, "
             "conjoined with AND"),
        Rule("DOMAIN-PRESENCE", predform.rule_domain_presence, 2,
             "whether a domain was supplied is decided by identity with None, never by the truthiness of the user's object"),
        Rule("KWARGS-KEPT", _lazy("extra", "rule_kwargs_kept"), 3,
             "no given keyword (field constraint / constructor argument) is dropped because of its value"),
        Rule("DECL-FILTER", _lazy("predform", "rule_domain_builders"), 2,
             "only the confirmed builders hand a supplied domain to a Variable; anywhere else the domain is filtered by the variable's type first"),
        Rule("MEMO-ON-PULL", _lazy("lazy", "rule_memo_on_pull"), 4,
             "the supplied domain is wrapped lazily, every member of it, and every member pulled is memoised before it is handed out"),
        Rule("SHARED-TAIL", _lazy("lazy", "rule_shared_tail"), 5,
             "an outer and a nested term over one pool variable iterate the same lazily consumed domain: each is handed what the other pulled"),
        Rule("KWARGS-NAMESPACE", _lazy("predform", "rule_kwargs_namespace"), 6,
             "the functions that carry the user's field names in **kwargs keep their own parameters out of that namespace (positional-only)"),
        Rule("COLLECTION-TABLE", _lazy("predform", "rule_collection_table"), 2,
             "is_iterable is exactly has-__iter__ and not a string / bytes / class (truth table over its atoms): an object that is only indexable is a domain of one value"),
        Rule("ARG-NOT-MUTATED", _lazy("predform", "rule_arg_not_mutated"), 4,
             "(shared with C02) a predicate-form term in a caller's list of selected variables is replaced by its variable in a copy, not in the caller's list"),
        Rule("VALUE-IDENTITY", _lazy("extra", "rule_value_identity"), 8,
             "(shared with C20) a domain of distinct objects stays distinct: the identifier of a wrapped value is its identity, and an identifier carried in _id_ is believed only of the package's own expressions"),
        Rule("BIND-THREAD", _lazy("binding", "rule_bind_thread"), 30,
             "(shared with C01) a nested term is evaluated under the binding of the enclosing term"),
        Rule("REQUANTIFY-DESCRIPTION", _lazy("the", "rule_requantify_description"), 1,
             "an already quantified predicate-form term handed to an()/the()/infer() is re-wrapped by its description (conditions included), never by its selected variable alone"),
        Rule("QUANTIFIER-KIND", _lazy("the", "rule_quantifier_kind"), 3,
             "(shared with C06) the(T(From(d), f=v)) is a The over the description of the term, as the(entity(x, x.f == v)) is"),
        Rule("VARIABLE-DISPATCH", _lazy("flags", "rule_variable_dispatch"), 4,
             "the cases of Variable._evaluate__ as a table: a predicate is executed with or without arguments, a constructor term is constructed, a variable inferred through conclusions only is not"),
    ],
    explanation="Decides the construction-time clauses: positional binding re-implemented by the library agrees with "
                "Python's (finite abstract evaluation of the loop over scenario argument lists), the type filter uses "
                "the class being constructed, and each given field becomes one equality. Not decided: equality of "
                "results with the explicit form for nested terms (C02/C15).",
    assumptions=["cls_args lists the parameters of __init__ with self first (update_cls_args)"],
    design_ref="DESIGN.md §2 C13",
))

from . import cacheidx

register(PropertySpec(
    id="C20",
    title="the result-cache index returns exactly the stored entries matching a lookup",
    rules=[
        Rule("CLEAR-COMPLETE", cacheidx.rule_clear_complete, 4,
             "writer/clearer agreement computed from field effects: every field IndexedCache.insert stores into is "
             "emptied by clear(); SeenSet and HashedIterable clear everything their mutators write"),
        Rule("INSERT-RETRIEVABLE", cacheidx.rule_insert_retrievable, 2,
             "abstract interpretation of insert(index=True) for an empty and a non-empty assignment: the output is stored "
             "in the index, where retrieve() looks, never only in the flat store"),
        Rule("CHECK-IS-PURE", cacheidx.rule_check_is_pure, 2,
             "the coverage checks (SeenSet.check, IndexedCache.check) do not write the coverage state"),
        Rule("RETRIEVE-ALL-BRANCHES", cacheidx.rule_retrieve_all_branches, 1,
             "at every level of the retrieval walk the wildcard branch is followed in addition to, never instead of, the "
             "branches that bind the key"),
        Rule("NONE-TEST", _lazy("extra", "rule_none_tests"), 2,
             "values read from the index with .get() are tested for presence by identity with None, never by truthiness"),
        Rule("LEAF-OVERWRITE", _lazy("extra", "rule_leaf_overwrite"), 1,
             "insert stores the output by assignment: re-inserting a binding overwrites"),
        Rule("RESULT-NO-ALIAS", cacheidx.rule_result_no_alias, 2,
             "in retrieve() a binding extended per cache branch is a fresh copy per branch, and the accumulator starts "
             "from a copy of the lookup"),
        Rule("COVERAGE-SUBSUMPTION", _lazy("cacheidx", "rule_coverage_subsumption"), 4,
             "a stored binding covers a lookup exactly when it is contained in it: per-key test evaluated for same / other / missing"),
        Rule("LEAF-OVERWRITE", _lazy("extra", "rule_insert_reaches_store"), 1,
             "every insert with index=True walks to the leaf and stores the output (no early return for a binding seen before)"),
        Rule("WILDCARD-DISTINCT", _lazy("extra", "rule_wildcard_distinct"), 1,
             "the wildcard sentinel, which equals everything, hashes by identity so that no stored key value shares its dict slot"),
        Rule("INSERT-RETRIEVABLE", _lazy("cacheidx", "rule_coverage_only_if_stored"), 1,
             "with an empty key list (a comparison between two literals) insert() records nothing as covered"),
        Rule("TRIE-NODE-TYPE", _lazy("cacheidx", "rule_trie_node_type"), 1,
             "the index writer creates inner levels of the type by which the reader tells an inner level from a stored output"),
        Rule("VALUE-IDENTITY", _lazy("extra", "rule_value_identity"), 8,
             "two wrapped values are the same exactly when their identifiers agree (equality = the identifier, which the hash is)"),
        Rule("KEYS-DERIVED-FRESH", _lazy("cacheidx", "rule_keys_derived_fresh"), 1,
             "whatever the index keeps that was computed from its key list is recomputed when the key list is assigned"),
        Rule("STORE-NO-ALIAS", _lazy("cacheidx", "rule_store_no_alias"), 1,
             "the coverage record of an insert is a copy of the binding, not the caller's dict"),
        Rule("RETRIEVE-TRIE-ONLY", _lazy("cacheidx", "rule_retrieve_trie_only"), 2,
             "retrieve() and the index methods it calls read none of the coverage state: agreement on shared keys is not containment"),
        Rule("COVERAGE-MONOTONE", _lazy("cacheidx", "rule_coverage_monotone"), 1,
             "outside clear() the coverage record is only added to (a drop is accepted only for records that contain the new binding)"),
    ],
    explanation="Decides 'clearing empties it' (the set of fields written by insert is contained in the set reset by "
                "clear, computed from effects with alias tracking) and one necessary condition of 'each entry paired "
                "with that entry's binding merged into the lookup' (no aliasing between the bindings of sibling "
                "entries). The coverage test, wildcard walk and merge are an algorithm over runtime dictionaries and "
                "are NOT decided.",
    assumptions=[],
    design_ref="DESIGN.md §2 C20",
))

register(PropertySpec(
    id="C05",
    title="result caching is transparent",
    rules=[
        Rule("INTERNAL-ABANDON", history.rule_internal_abandon, 1,
             "engine code that leaves a loop over an evaluation stream early invalidates the result caches of the "
             "abandoned producer (otherwise results differ between caching enabled and disabled)"),
        Rule("CACHE-FLAG-CONSISTENT", cacheidx.rule_cache_flag_consistent, 5,
             "the truth flag stored with a cached row is the flag the row is emitted with (no re-assignment of "
             "_is_false_ between the cache write and the yield)"),
        Rule("INSERT-RETRIEVABLE", cacheidx.rule_insert_retrievable, 2,
             "(shared with C20) what the operators store is stored where cache hits read"),
        Rule("CHECK-IS-PURE", cacheidx.rule_check_is_pure, 2,
             "(shared with C20) asking a result cache whether a binding is covered does not mark it covered"),
        Rule("COVERAGE-AFTER-COMPLETION", history.rule_coverage_after_completion, 6,
             "(shared with C04) coverage recorded before completion is rolled back on every abnormal exit of a public "
             "entry: otherwise an abandoned evaluation makes cached and uncached results differ for ever"),
        Rule("SELECTOR-NO-CACHE", cacheidx.rule_selector_no_cache, 3,
             "conclusion selectors never serve rows from result caches"),
        Rule("CACHE-SWITCH", cacheidx.rule_cache_switch, 6,
             "every result-cache read in an evaluation generator is reachable only when is_caching_enabled() holds "
             "(truth table of its guards), given that writes are suppressed when caching is disabled"),
        Rule("REPLAY-DEDUP", cacheidx.rule_replay_dedup, 2,
             "an operator that per row of one operand either evaluates the other operand or replays its rows from a "
             "cache suppresses duplicate true rows on the replay whenever the evaluating path does"),
        Rule("TRAVERSAL-TOTAL", _lazy("history", "rule_traversal_total"), 2,
             "the recursive reset / invalidation traversals apply themselves to every child on every path (no subtree is skipped)"),
        Rule("REPLAY-CONTEXT", cacheidx.rule_replay_context, 2,
             "an operand cache is consulted only under the operand truth values for which it is filled"),
        Rule("CLEAR-COMPLETE", _lazy("cacheidx", "rule_clear_complete"), 4,
             "(shared with C20) invalidating a result cache after an abandoned evaluation also withdraws its coverage marks"),
        Rule("COVERAGE-SUBSUMPTION", _lazy("cacheidx", "rule_coverage_subsumption"), 4,
             "a stored binding covers a lookup exactly when it is contained in it: per-key test evaluated for same / other / missing"),
        Rule("CACHE-OPERAND-AGREEMENT", _lazy("cacheidx", "rule_cache_operand_agreement"), 4,
             "an operand cache is keyed by the variables of its operand and stores the rows of its operand"),
        Rule("KEY-FILTER-KEEPS", _lazy("binding", "rule_key_filter_keeps"), 4,
             "filters that compute the variables identifying a row keep plain variables and one-to-many mappings"),
        Rule("INSERT-RETRIEVABLE", _lazy("cacheidx", "rule_coverage_only_if_stored"), 1,
             "with an empty key list (a comparison between two literals) insert() records nothing as covered"),
        Rule("SET-ALGEBRA", _lazy("lazy", "rule_set_algebra"), 3,
             "union / intersection / difference of the value container have the membership table their names say (they compute the variables an operator combines, caches and de-duplicates by)"),
        Rule("TRIE-NODE-TYPE", _lazy("cacheidx", "rule_trie_node_type"), 1,
             "the index writer creates inner levels of the type by which the reader tells an inner level from a stored output"),
        Rule("VALUE-IDENTITY", _lazy("extra", "rule_value_identity"), 8,
             "two wrapped values are the same exactly when their identifiers agree (equality = the identifier, which the hash is)"),
        Rule("KEYS-DERIVED-FRESH", _lazy("cacheidx", "rule_keys_derived_fresh"), 1,
             "whatever the index keeps that was computed from its key list is recomputed when the key list is assigned"),
        Rule("NEG-IN-PLACE", _lazy("negation", "rule_neg_in_place"), 1,
             "not_(c) leaves c (and the result caches filled for c) what they were: a leaf negated in place keeps caches that hold the truth values of its old meaning"),
        Rule("STORE-NO-ALIAS", _lazy("cacheidx", "rule_store_no_alias"), 1,
             "the coverage record of an insert is a copy of the binding, not the caller's dict"),
        Rule("RETRIEVE-MISS-WILDCARD", _lazy("cacheidx", "rule_retrieve_miss_wildcard"), 1,
             "a lookup that binds a key to a value nothing is stored under is still answered from the entries that leave the key open (rows stored under partial bindings are reported as covered)"),
        Rule("REPLAY-FALSE-ASKED", _lazy("cacheidx", "rule_replay_false_asked"), 5,
             "a replay from a result cache hands false rows on only to an evaluation that asked for them (the cache also holds the false rows of an evaluation that did)"),
        Rule("REPLAY-CHILD-DEDUP", _lazy("cacheidx", "rule_replay_child_dedup"), 1,
             "a replay of an operand's rows goes through the duplicate suppression that operand applies to itself when it is evaluated"),
        Rule("REPLAY-OR-EVALUATE", _lazy("cacheidx", "rule_replay_or_evaluate"), 2,
             "per row of its first operand an operator either replays the cached rows of the second or evaluates it, then goes on with the next row (CFG path rule at every per-row replay site)"),
        Rule("DEDUP-TRACKERS-DISTINCT", _lazy("binding", "rule_dedup_trackers_distinct"), 2,
             "the duplicate trackers for true and for false rows of a node are two objects wherever the by-truth mapping is built"),
        Rule("DEDUP-UNDER-ROW-TRUTH", _lazy("binding", "rule_dedup_under_row_truth"), 5,
             "(shared with C02) a replayed row is tested for duplicates under its own truth"),
        Rule("DEDUP-TESTS-YIELDED-ROW", _lazy("binding", "rule_dedup_tests_yielded_row"), 4,
             "the row the duplicate test looks at is the row that is handed on when it answers 'new' (path rule from every call of the test to the next yield)"),
        Rule("RETRIEVE-ALL-BRANCHES", _lazy("cacheidx", "rule_retrieve_bound_branches"), 2,
             "(shared with C20) a lookup that binds a key follows the entry stored for that value and the entry that leaves the key open: otherwise a row is lost on a cache hit, depending on the order in which the variables were declared"),
        Rule("LOOP-RAN-FLAG", _lazy("flags", "rule_loop_ran_flag"), 3,
             "a flag that says 'the stream produced no row' (and starts a fallback evaluation) is set by every row: no continue, early exit or condition bypasses the assignment"),
        Rule("SEEN-RECORDED", _lazy("flags", "rule_seen_recorded"), 1,
             "a local collection that is asked 'seen before?' to drop a row is added to on every path from 'not seen' to the yield (the rows replayed from a result cache are replayed once)"),
    ],
    explanation="Decides that the runtime switch governs reads and writes consistently: the asymmetric state (reads "
                "unguarded, writes guarded) changes results because an empty lookup marks everything covered. Not "
                "decided: that a cache hit returns what evaluation would have returned (subsumption test and wildcard "
                "walk over runtime bindings, see C20).",
    assumptions=["the claim is limited to the switch"],
    design_ref="DESIGN.md §2 C05",
))

from . import registry

register(PropertySpec(
    id="C14",
    title="a variable without a domain ranges over exactly the live registry of instances",
    rules=[
        Rule("REG-WRITER", registry.rule_reg_writer, 1,
             "who-may-write: the only construct that adds to / removes from / clears the instance registry is the "
             "insert in instantiate_class_and_update_cache"),
        Rule("REG-MUST", registry.rule_reg_must, 5,
             "concrete arm of hybrid_new: every path to return passes exactly one registering call; the writer allocates "
             "the runtime class, inserts the fresh instance exactly once on every path and returns it"),
        Rule("REG-KEY", registry.rule_reg_key, 1,
             "the registry key is the runtime class argument of __new__ (reported by REG-MUST's scan of the insert)"),
        Rule("REG-LOOKUP", registry.rule_reg_lookup, 2,
             "lookup selects stores by issubclass(stored, requested) and yields from all of them"),
        Rule("REG-READ-MODE", registry.rule_reg_read_mode, 2,
             "writer/reader agreement on the registry store: every Variable built for a @symbol class reads in the mode "
             "index_class_cache(cls) the writer stores in"),
        Rule("MEMO-ON-PULL", _lazy("lazy", "rule_memo_on_pull"), 3,
             "(shared with C07) the registry is consumed through a memoising iterable: an instance pulled while an "
             "evaluation is abandoned must already be stored or later evaluations of the query miss it"),
        Rule("ITER-SNAPSHOT", _lazy("lazy", "rule_iter_snapshot"), 1,
             "the registry store is replayed from a snapshot, so constructing instances while a domain-less variable is "
             "being iterated (user code, or a rule inferring the type it ranges over) cannot invalidate the iteration"),
        Rule("REG-AFTER-INIT", registry.rule_reg_after_init, 1,
             "an instance is registered only once its construction succeeded (not inside __new__, before __init__ ran)"),
        Rule("REG-BRANCH", registry.rule_reg_branch, 2,
             "call-graph closure of the symbolic arm reaches neither the writer nor the allocator; it returns only "
             "expression objects"),
        Rule("REG-INFER", registry.rule_reg_infer, 2,
             "rule inference constructs through the class call (registering arm); nothing else allocates user objects"),
        Rule("MODE-PAIRING", _lazy("modes", "rule_mode_pairing"), 6,
             "(shared with C08) which arm of the constructor runs is decided by the mode: it must be restored on every exit of a block"),
        Rule("CLEAR-COMPLETE", _lazy("cacheidx", "rule_clear_complete"), 4,
             "(shared with C20) clearing an index (after an abandoned evaluation; a class's registry store) empties every store and withdraws the coverage marks"),
        Rule("DECL-FILTER", _lazy("predform", "rule_decl_filter"), 5,
             "(shared with C13) the type filter of a supplied domain is lazy (an eagerly built empty list counts as no domain: the registry) and uses the class being constructed"),
        Rule("NO-YIELD-UNDER-MODE", _lazy("modes", "rule_no_yield_under_mode"), 1,
             "(shared with C08) the mode override of a result iterator is not held across a yield: between two results the caller's constructor calls take the caller's arm"),
        Rule("DECL-FILTER", _lazy("predform", "rule_domain_builders"), 2,
             "only the confirmed builders hand a supplied domain to a Variable; anywhere else the domain is filtered by the variable's type first"),
        Rule("EVAL-STATE-RESET", _lazy("history", "rule_eval_state_reset"), 5,
             "per-evaluation state (e.g. 'this selected variable is inferred') is reset by the end-of-evaluation reset on every exit, so later queries range over the registry again"),
        Rule("REG-LIVE", _lazy("registry", "rule_reg_live"), 5,
             "a variable without a domain ranges over the registry as it is when it is evaluated: nothing is read at declaration, and a registry-backed domain is dropped by the per-evaluation reset (which reaches selected-only variables)"),
        Rule("REG-NO-PROBE", _lazy("registry", "rule_reg_no_probe"), 1,
             "registration does not look attributes up on the instance before its __init__ has run"),
        Rule("REG-LIVE", _lazy("registry", "rule_reg_live_conclusions"), 1,
             "the per-evaluation reset reaches variables that only a conclusion mentions"),
        Rule("ALLOC-AS-UNDECORATED", _lazy("registry", "rule_alloc_as_undecorated"), 2,
             "outside a block a decorated class is allocated by the __new__ the undecorated class would use, with the arguments of the call"),
        Rule("INFER-MARK", _lazy("ruletree", "rule_infer_mark_transient"), 1,
             "the inferred mark of a shared variable is given by evaluation code and taken back, never at construction time"),
        Rule("VALUE-IDENTITY", _lazy("extra", "rule_value_identity"), 8,
             "(shared with C20) a domain of distinct objects stays distinct: the identifier of a wrapped value is its identity, and an identifier carried in _id_ is believed only of the package's own expressions"),
        Rule("PULLED-RECORD", _lazy("lazy", "rule_pulled_record"), 3,
             "the record of what was pulled from a one-shot source is appended to only with the value just pulled, and emptied only by clear()"),
        Rule("CONCLUSION-VARS-BOUND", _lazy("ruletree", "rule_conclusion_vars_bound"), 1,
             "(shared with C12) which variables a conclusion leaves unbound is looked up for every row that fires (a variable without a domain mentioned only by the conclusion of a later branch ranges over the registry too)"),
        Rule("EXPR-IDENTITY", _lazy("ruletree", "rule_expr_identity"), 1,
             "(shared with C12) engine code compares nodes by identity (== / in on a node reads an unset field of the graph node, or builds a comparison)"),
        Rule("SLOT-STORE-LINKED", _lazy("history", "rule_slot_store_linked"), 3,
             "a node put into another node's operand / child slot after construction is linked below it in the graph as well (the reset and the cache invalidation follow the graph)"),
        Rule("REG-ONLY-INSTANCES", _lazy("registry", "rule_reg_only_instances"), 1,
             "what a class's own __new__ returns is registered only when it is an instance of the class"),
        Rule("REG-SNAPSHOT", _lazy("registry", "rule_reg_snapshot"), 1,
             "the stores of a class and of its subclasses are all read before the first instance is handed out: an evaluation that also constructs instances does not range over its own output"),
        Rule("CONCLUSION-VARS-BOUND", _lazy("ruletree", "rule_conclusion_vars_which"), 6,
             "(shared with C12) a variable without a domain that only a conclusion mentions ranges over all registered instances for every firing row"),
        Rule("GRAPH-TRAVERSAL-ALL", _lazy("history", "rule_graph_traversal_all"), 4,
             "the walks over the expression graph (reset, cache invalidation, variable collection) see all children / descendants / parents of a node, also one that has another primary parent"),
        Rule("REG-OWN-CLASS", _lazy("registry", "rule_reg_own_class"), 1,
             "an instance the user's own __new__ allocated is filed in the store of type(instance), not of the class the constructor was called on (a factory __new__ may return a subclass)"),
        Rule("MEMO-SOURCE-FAILURE", _lazy("lazy", "rule_memo_source_failure"), 3,
             "(shared with C04) a variable without a domain that is the domain of another variable is read anew by every evaluation: the per-evaluation reset re-creates a domain given as an expression"),
    ],
    explanation="Registry discipline is ownership: a single writer, on a must-pass-through path of the concrete "
                "constructor arm, keyed by the runtime class; the symbolic arm provably (call-graph closure) cannot "
                "register or allocate; lookup includes subclasses. Not decided: that the class's own __init__ then "
                "succeeds for every construction style (Python's semantics).",
    assumptions=["C08/C09 (mode confinement) for which arm runs", "the flat store de-duplicates by identity (HashedIterable.add)"],
    design_ref="DESIGN.md §2 C14",
))

from . import forall

register(PropertySpec(
    id="C10",
    title="for_all yields exactly the bindings whose condition holds for every value",
    rules=[
        Rule("FORALL-MONOTONE", forall.rule_forall_monotone, 8,
             "typestate over the loop in ForAll._evaluate__ with a set-provenance lattice for the accumulated bindings "
             "(EMPTY / SEED / SUBSET-by-membership-in-current / OTHER) and a {first, later} iteration counter: reset at "
             "entry, first value seeds, later values intersect, nothing skipped, empty value empties, early exit only "
             "when empty, the accumulated set is what is yielded"),
        Rule("INTERNAL-ABANDON", history.rule_internal_abandon, 1,
             "(shared with C04/C05) the early exits of the loop over universal values invalidate the result caches of the "
             "universal expression: otherwise a later for_all sees only a cached prefix of the universal domain"),
        Rule("FORALL-KEY", forall.rule_forall_key, 1,
             "the duplicate-suppression key ForAll requires from its condition contains the universal variable"),
        Rule("FORALL-NONLITERAL", forall.rule_forall_nonliteral, 1,
             "the key the rows of different universal values are compared on excludes literal pseudo-variables "
             "(sibling cross-check of the key-variable computations)"),
        Rule("FORALL-TOTAL-ROWS", forall.rule_forall_total_rows, 1,
             "rows are completed over the non-universal variables they leave unbound before they are intersected"),
        Rule("FORALL-PER-VALUE", forall.rule_forall_per_value, 2,
             "the condition is evaluated inside the loop over universal values under sources extended with the value; "
             "false condition rows are skipped before accumulation"),
        Rule("MEMO-ON-PULL", _lazy("lazy", "rule_memo_on_pull"), 3,
             "(shared with C07) for_all leaves the universal domain at the value that falsifies the statement: that value must already be memoised"),
        Rule("VOCAB-DENOTATION", _lazy("opden", "rule_vocab_denotation"), 4,
             "for_all / flatten / concatenate / not_ return, on every path, the node of their name built from their arguments themselves"),
        Rule("CLEAR-COMPLETE", _lazy("cacheidx", "rule_clear_complete"), 4,
             "(shared with C20) clearing an index (after an abandoned evaluation; a class's registry store) empties every store and withdraws the coverage marks"),
        Rule("ROW-KEY-CANONICAL", _lazy("forall", "rule_row_key_canonical"), 2,
             "a hashable key built from the content of a row does not depend on the order in which the row was built (sorted / frozenset)"),
        Rule("TRIE-NODE-TYPE", _lazy("cacheidx", "rule_trie_node_type"), 1,
             "the index writer creates inner levels of the type by which the reader tells an inner level from a stored output"),
        Rule("VALUE-FLAG-NOT-READ", _lazy("values", "rule_value_flag_not_read"), 5,
             "the truth flag of an operand that was evaluated as a value is not consulted (falsy values are values)"),
        Rule("INSERT-RETRIEVABLE", _lazy("cacheidx", "rule_insert_retrievable"), 2,
             "what insert() records as covered is retrievable (a row that binds none of the keys - a for_all on the right of and_ whose condition mentions only the universal variable - included)"),
        Rule("REPLAY-FALSE-ASKED", _lazy("cacheidx", "rule_replay_false_asked"), 5,
             "a replay from a result cache hands false rows on only to an evaluation that asked for them (the cache also holds the false rows of an evaluation that did)"),
        Rule("REPLAY-OR-EVALUATE", _lazy("cacheidx", "rule_replay_or_evaluate"), 2,
             "per row of its first operand an operator either replays the cached rows of the second or evaluates it, then goes on with the next row (CFG path rule at every per-row replay site)"),
        Rule("REG-LIVE", _lazy("registry", "rule_reg_live"), 5,
             "(shared with C14) a universal variable without a domain ranges over the instances that exist when the for_all is evaluated"),
        Rule("VALUE-IDENTITY", _lazy("extra", "rule_value_identity"), 8,
             "(shared with C20) a domain of distinct objects stays distinct: the identifier of a wrapped value is its identity, and an identifier carried in _id_ is believed only of the package's own expressions"),
        Rule("SET-ALGEBRA", _lazy("lazy", "rule_set_algebra"), 3,
             "(shared with C02) union / difference build new sets: for_all computes its free variables as a difference of cached variable sets"),
        Rule("BIND-THREAD", _lazy("binding", "rule_bind_thread"), 30,
             "(shared with C01) the universal expression is evaluated under the incoming binding (a correlated universal ranges over the values of the bound variable only)"),
        Rule("EVAL-PARENT-RESET", _lazy("binding", "rule_eval_parent_reset"), 1,
             "what an evaluation leaves in an operand's _eval_parent_ is wiped by the per-evaluation reset (evaluators that tell their operands nothing fall back to the graph parent)"),
        Rule("VARS-COMPLETE", _lazy("subquery", "rule_vars_complete"), 8,
             "the variables of a node are those of every sub-expression it evaluates, of whatever kind; a node counts itself only if it takes several values under one binding"),
        Rule("EVAL-PARENT-SET", _lazy("binding", "rule_eval_parent_set"), 7,
             "(shared with C01) for_all tells the universal expression and the condition who evaluates them: a condition object shared with a plain query does not answer with that query's requirements"),
    ],
    explanation="Universal quantification is implemented as a running intersection; that the accumulated set can only "
                "shrink, is seeded once and is emptied by a value with no satisfying binding is a typestate property of "
                "one loop, decided by abstract interpretation on a finite provenance lattice. Not decided: which "
                "variables count as 'the other variables' and conditions that do not mention the universal variable "
                "(runtime variable sets).",
    assumptions=["the universal expression has a non-empty domain (as the property states)"],
    design_ref="DESIGN.md §2 C10",
))


from . import values

register(PropertySpec(
    id="C19",
    title="values are not truth: falsy values are handled like any other value",
    rules=[
        Rule("VALUE-TRUTH", values.rule_value_truth, 10,
             "filter sites (mapping generators that drop a row on the truthiness of the mapped value) are discovered; "
             "every evaluation call site is classified value/condition by the resolved field of its receiver; at every "
             "value-role site the callee is entered through a value-role entry whose per-class constant switches the "
             "filter off exactly for the filter-owning classes"),
        Rule("REENTRANT-FLAG", values.rule_reentrant_flag, 9,
             "a mapping generator reads the request for false rows from its own call's argument, not from the attribute a "
             "re-entrant evaluation of the same (shared) expression object overwrites"),
        Rule("APPLY-ALWAYS", _lazy("extra", "rule_apply_always"), 1,
             "the comparison / membership operator is applied to the operand values on every path, None included"),
        Rule("LITERAL-WRAP", _lazy("extra", "rule_literal_wrap"), 1,
             "a falsy literal (0, '', None, False) is a value: Literal.__init__ wraps the datum on every path"),
        Rule("VALUE-NOT-TESTED", _lazy("values", "rule_value_not_tested"), 8,
             "the payload of a bound value is tested for truth only where the test decides _is_false_ (condition position), never to "
             "decide whether to skip, wrap, flatten or accumulate it"),
        Rule("CALL-FORWARD", _lazy("extra", "rule_call_forward"), 1,
             "a symbolic method call applies the method with all the positional and keyword arguments it was built with"),
        Rule("KWARGS-KEPT", _lazy("extra", "rule_kwargs_kept"), 3,
             "no given keyword (field constraint / constructor argument) is dropped because of its value"),
        Rule("MEMO-ON-PULL", _lazy("lazy", "rule_memo_on_pull"), 4,
             "the supplied domain is wrapped lazily, every member of it, and every member pulled is memoised before it is handed out"),
        Rule("NEG-TRUTH", _lazy("negation", "rule_neg_truth"), 16,
             "the truth a mapping decides from a value (fresh or bound already) follows one table; as a value (false rows requested) every row is handed on, falsy or not"),
        Rule("VALUE-FLAG-NOT-READ", _lazy("values", "rule_value_flag_not_read"), 5,
             "the truth flag of an operand that was evaluated as a value is not consulted (falsy values are values)"),
        Rule("MAPPING-NOT-MEMOISED", _lazy("aggregates", "rule_mapping_not_memoised"), 4,
             "(shared with C16) the mappings read the user object when they are evaluated"),
        Rule("OPDEN", _lazy("opden", "rule_opden"), 8,
             "(shared with C01) == True / == False build comparisons with the singleton, they are not rewritten into the truth of the expression"),
        Rule("OPERATION-ON-VALUES", _lazy("flags", "rule_operation_on_values"), 1,
             "the package's own comparison operations (the complement of contains) only hand their operands to the operator: no operand is asked for its truth or for being None"),
    ],
    explanation="An effect property: in which positions may a value's truthiness decide whether a row survives. The "
                "positions are the evaluation call sites; their role is the resolved dataclass field of the receiver "
                "(annotation-derived, frozen overrides with reasons). The obligation is checked by constant propagation "
                "of the per-class flag into the callee's filter. If it holds at all sites the property reduces to "
                "C01/C02/C11/C13/C16 on data that happens to be falsy.",
    assumptions=["predicate-function / Predicate outputs are conditions by nature (their falsy outputs are 'false')"],
    design_ref="DESIGN.md §2 C19",
))


from . import binding

register(PropertySpec(
    id="C02",
    title="a multi-variable query returns exactly the satisfying assignments",
    rules=[
        Rule("BIND-THREAD", binding.rule_bind_thread, 30,
             "at each evaluation call site the binding handed to the operand derives from the incoming binding and, "
             "inside a loop over a sibling's results, from that sibling's result (def-use provenance)"),
        Rule("BIND-KEEP", binding.rule_bind_keep, 12,
             "in every loop over an evaluation stream that hands rows on, the whole binding of the loop variable flows "
             "into each row (copy/update/itself), never only a projection of it"),
        Rule("DEDUP-PARENT", binding.rule_dedup_parent, 5,
             "every implementation of the duplicate-suppression key merges in what the node's own parent requires, on "
             "every path (abstract-state-aware must-pass-through)"),
        Rule("DEDUP-KEY", binding.rule_dedup_key, 3,
             "every implementation of the duplicate-suppression key on a binary operator keys the rows of its left child "
             "by the right operand's variables"),
        Rule("CACHE-FLAG-CONSISTENT", _lazy("cacheidx", "rule_cache_flag_consistent"), 5,
             "(shared with C05) a cached row is replayed with its own truth flag"),
        Rule("BIND-NO-CLOBBER", _lazy("extra", "rule_bind_no_clobber"), 8,
             "while a child's stream is iterated, the binding it was started under is not modified in the loop body"),
        Rule("ROW-FRESH", _lazy("extra", "rule_row_fresh"), 1,
             "a row extended and yielded in a loop is created in that same loop (no aliasing between rows)"),
        Rule("PRODUCT-CORRELATED", binding.rule_product_correlated, 1,
             "several expressions bound into one row are evaluated one under the binding of the other, never as independent "
             "streams multiplied by a product combinator"),
        Rule("PRODUCT", binding.rule_product, 1,
             "the combinator completing unbound selected variables is of class all-combinations (itertools.product / "
             "recursive nested iteration), not lock-step (zip, islice, lone next)"),
        Rule("DEDUP-UNKNOWN", _lazy("binding", "rule_dedup_unknown"), 2,
             "a duplicate-suppression key computed for a row of unknown truth (when_true=None) contains whatever is required "
             "for a true or for a false row"),
        Rule("RESET-ALL-EXITS", _lazy("reset", "rule_reset_all_exits"), 2,
             "(shared with C04) the rows of an evaluation that follows an abandoned one are the rows of the query: the per-evaluation duplicate-suppression state is reset on every exit of evaluate()"),
        Rule("TRAVERSAL-TOTAL", _lazy("history", "rule_traversal_total"), 2,
             "(shared with C04) that reset reaches every node of the tree"),
        Rule("VALUE-TRUTH", _lazy("values", "rule_value_truth"), 10,
             "(shared with C19) the inner steps of an attribute / call chain are values: a falsy intermediate value is mapped on, not dropped"),
        Rule("DEDUP-TRUTH-UP", _lazy("binding", "rule_dedup_truth_up"), 1,
             "a conjunction reports its own truth to its parent as unknown when all that is known is that one operand is true"),
        Rule("COVERAGE-SUBSUMPTION", _lazy("cacheidx", "rule_coverage_subsumption"), 4,
             "a stored binding covers a lookup exactly when it is contained in it: per-key test evaluated for same / other / missing"),
        Rule("SHARED-TAIL", _lazy("lazy", "rule_shared_tail"), 5,
             "an iteration over a lazily consumed domain is handed what other live iterations pulled from the shared source"),
        Rule("CACHED-POSITION-RESET", _lazy("history", "rule_cached_position_reset"), 1,
             "the memo of the position-dependent duplicate-suppression keys is dropped, for the class of the node being reset, with the per-evaluation state"),
        Rule("SET-ALGEBRA", _lazy("lazy", "rule_set_algebra"), 3,
             "union / intersection / difference of the value container have the membership table their names say (they compute the variables an operator combines, caches and de-duplicates by)"),
        Rule("DEDUP-UNDER-ROW-TRUTH", _lazy("binding", "rule_dedup_under_row_truth"), 5,
             "a row is tested for being a duplicate under the truth value it is handed on with (the flag is not assigned between the test and the yield)"),
        Rule("SOURCE-NOT-DELEGATED", _lazy("lazy", "rule_source_not_delegated"), 1,
             "an iteration over a lazily consumed domain does not delegate to the shared one-shot source (closing the iteration would close the source)"),
        Rule("FLATTEN-EACH", _lazy("extra", "rule_flatten_paths"), 2,
             "each element of a flattened collection is a value of its own (own identifier), so rows for different elements are different rows"),
        Rule("REPLAY-DEDUP", _lazy("cacheidx", "rule_replay_dedup"), 2,
             "rows replayed from a result cache are dropped only when they are duplicates (a false row is needed by an enclosing or_), and treated like freshly evaluated rows"),
        Rule("EVAL-PARENT-SET", _lazy("binding", "rule_eval_parent_set"), 9,
             "the operators that evaluate shareable operands tell the operand which of its parents is evaluating it, on every path to the evaluation"),
        Rule("INSERT-RETRIEVABLE", _lazy("cacheidx", "rule_coverage_only_if_stored"), 1,
             "an index without keys (a comparison between two constants) records no coverage: later evaluations are not answered from an empty index"),
        Rule("REPLAY-FALSE-ASKED", _lazy("cacheidx", "rule_replay_false_asked"), 5,
             "a replay from a result cache hands false rows on only to an evaluation that asked for them (the cache also holds the false rows of an evaluation that did)"),
        Rule("REQUEST-DELEGATED", _lazy("subquery", "rule_request_delegated"), 4,
             "an evaluation method that delegates to another evaluation method of the same node hands the request for false rows on unchanged (entity and set_of sub-queries behave alike on the left of `|`)"),
        Rule("DEDUP-PER-PARENT", _lazy("binding", "rule_dedup_per_parent"), 1,
             "what a node has handed on is remembered per parent (a node used under two parents owes each its rows)"),
        Rule("REPLAY-OR-EVALUATE", _lazy("cacheidx", "rule_replay_or_evaluate"), 2,
             "per row of its first operand an operator either replays the cached rows of the second or evaluates it, then goes on with the next row (CFG path rule at every per-row replay site)"),
        Rule("ARG-NOT-MUTATED", _lazy("predform", "rule_arg_not_mutated"), 4,
             "the query-building functions never write into a collection the caller passed (a parameter is stored into only after it was rebound to a fresh copy on every path)"),
        Rule("ROW-NOT-RETAINED", _lazy("extra", "rule_row_not_retained"), 20,
             "no generator of the engine yields a dict it keeps in its own state (consumers complete rows in place)"),
        Rule("DEDUP-TRACKERS-DISTINCT", _lazy("binding", "rule_dedup_trackers_distinct"), 2,
             "the duplicate trackers for true and for false rows of a node are two objects wherever the by-truth mapping is built"),
        Rule("VALUE-IDENTITY", _lazy("extra", "rule_value_identity"), 8,
             "(shared with C20) a domain of distinct objects stays distinct: the identifier of a wrapped value is its identity, and an identifier carried in _id_ is believed only of the package's own expressions"),
        Rule("DESCRIPTOR-SIBLINGS", _lazy("ruletree", "rule_descriptor_siblings"), 3,
             "entity and set_of are one implementation: a type test on the kind of a descriptor covers every kind (same test or the arms of its chain), so a rule or query written with set_of takes the paths the same one written with entity takes"),
        Rule("EVAL-PARENT-RESET", _lazy("binding", "rule_eval_parent_reset"), 1,
             "what an evaluation leaves in an operand's _eval_parent_ is wiped by the per-evaluation reset (evaluators that tell their operands nothing fall back to the graph parent)"),
        Rule("DEDUP-TESTS-YIELDED-ROW", _lazy("binding", "rule_dedup_tests_yielded_row"), 4,
             "the row the duplicate test looks at is the row that is handed on when it answers 'new' (path rule from every call of the test to the next yield)"),
        Rule("QUANT-NOT-STRIPPED", _lazy("subquery", "rule_quant_not_stripped"), 1,
             "a sub-query in the list of selected variables is a conjunct of the enclosing query whenever it is replaced by its variable (handed on unconditionally)"),
        Rule("REQUIRED-ASK-AS-SELF", _lazy("binding", "rule_required_ask_as_self"), 3,
             "a node asks its parent what to keep of its rows in its own name (the parent recognises the asking operand by identity)"),
        Rule("OPDEN", _lazy("opden", "rule_opden"), 8,
             "(shared with C01) each comparison operator builds the comparison of the operator it is (>= is not >)"),
        Rule("BOUND-AGAIN-ONCE", _lazy("values", "rule_bound_again_once"), 3,
             "an expression object that finds itself bound already answers once for that binding and ends (it does not fall through into the ordinary evaluation)"),
        Rule("VARS-COMPLETE", _lazy("subquery", "rule_vars_complete"), 8,
             "the variables of a node are those of every sub-expression it evaluates, of whatever kind; a node counts itself only if it takes several values under one binding"),
        Rule("CONDITIONS-FORWARDED", _lazy("subquery", "rule_conditions_forwarded"), 4,
             "the building functions pass the conditions they are given on to the function that builds the query, in every arm"),
        Rule("RETRIEVE-ALL-BRANCHES", _lazy("cacheidx", "rule_retrieve_bound_branches"), 2,
             "(shared with C20) a lookup that binds a key follows the entry stored for that value and the entry that leaves the key open: otherwise a row is lost on a cache hit, depending on the order in which the variables were declared"),
        Rule("DECL-FILTER", _lazy("predform", "rule_decl_filter_paths"), 1,
             "(shared with C13) a variable ranges over members of its type only, also when its domain is a query or another variable: the values of an expression domain are filtered by the variable's type"),
        Rule("GRAPH-TRAVERSAL-ALL", _lazy("history", "rule_graph_traversal_all"), 4,
             "the walks over the expression graph (reset, cache invalidation, variable collection) see all children / descendants / parents of a node, also one that has another primary parent"),
        Rule("ROW-NOT-MEMOISED", _lazy("flags", "rule_row_not_memoised"), 1,
             "no evaluation method keeps a row it produced in an attribute of the node and hands it out again on a later call (an operand is evaluated once per binding of the enclosing query)"),
        Rule("CONDITIONS-NOT-DROPPED", _lazy("the", "rule_conditions_not_dropped"), 3,
             "every case of the an()/the()/infer() dispatcher hands the written conditions on, is taken only when there are none, or refuses them: none builds the query for fewer conditions than were written"),
    ],
    explanation="An implicit join is a join only if every operator threads the binding it received to its operands and "
                "keeps everything its operands bound. Both are provenance facts on the evaluation call sites and the "
                "loops around them, decided by def-use analysis; a projection (r[k]) of a child's binding silently "
                "discards variables which are later re-completed by a free product. Not decided: duplicate suppression, "
                "operand ordering, the two disjunction implementations.",
    assumptions=["consumers merge the incoming binding (Variable.__iter__ deliberately yields only its own id)"],
    design_ref="DESIGN.md §2 C02",
))


register(PropertySpec(
    id="C16",
    title="flatten behaves as UNNEST: one row per inner element, correlated with its parent",
    rules=[
        Rule("FLATTEN-EACH", aggregates.rule_flatten_each, 3,
             "Flatten._apply_mapping_ yields once per inner element on every path, unconditionally, iterating the inner "
             "value as it is; a non-iterable is wrapped as a singleton"),
        Rule("FLATTEN-KEYED", aggregates.rule_flatten_keyed, 1,
             "a one-to-many mapping is part of the variable set that keys result caches and duplicate suppression"),
        Rule("FLATTEN-EACH", _lazy("extra", "rule_flatten_paths"), 2,
             "every value reaches the loop over its elements (no early return), and each element is identified by itself, "
             "not by its parent"),
        Rule("ROW-FRESH", _lazy("extra", "rule_row_fresh"), 1,
             "each element's row is a fresh copy of the parent's binding, created in the per-element loop"),
        Rule("PRODUCT-CORRELATED", _lazy("binding", "rule_product_correlated"), 1,
             "(shared with C02/C11) a parent and its flattened attribute used as two arguments / selected expressions stay "
             "correlated"),
        Rule("BIND-KEEP", binding.rule_bind_keep, 12,
             "each yielded binding extends the child's binding for that element (DomainMapping._evaluate__), and the "
             "query descriptor keeps everything a selected expression bound (parent correlation when the parent is "
             "selected alongside)"),
        Rule("VALUE-NOT-TESTED", _lazy("values", "rule_value_not_tested"), 8,
             "the payload of a bound value is tested for truth only where the test decides _is_false_ (condition position), never to "
             "decide whether to skip, wrap, flatten or accumulate it"),
        Rule("SCALAR-CLASSIFIER", _lazy("aggregates", "rule_scalar_classifier"), 1,
             "the collection / scalar classifier shared by flatten and concatenate excludes strings by isinstance (subclasses of str are scalars)"),
        Rule("BIND-THREAD", _lazy("binding", "rule_bind_thread"), 30,
             "(shared with C02) a condition relating the element to its own parent evaluates the second operand under the row of the first"),
        Rule("FLATTEN-OCCURRENCE", _lazy("aggregates", "rule_flatten_occurrence"), 1,
             "two occurrences of the same object in one flattened collection are distinguishable rows wherever rows are de-duplicated"),
        Rule("VOCAB-DENOTATION", _lazy("opden", "rule_vocab_denotation"), 4,
             "for_all / flatten / concatenate / not_ return, on every path, the node of their name built from their arguments themselves"),
        Rule("KEY-FILTER-KEEPS", _lazy("binding", "rule_key_filter_keeps"), 4,
             "filters that compute the variables identifying a row keep plain variables and one-to-many mappings"),
        Rule("QUANT-NOT-STRIPPED", _lazy("subquery", "rule_quant_not_stripped"), 1,
             "where a quantified sub-query is replaced by its selected variable, the quantifier (its conditions) is handed on as well"),
        Rule("VALUE-IDENTITY", _lazy("extra", "rule_value_identity"), 8,
             "the elements of a flattened collection are told apart by identity: equality of wrapped values is the identifier, and the identifier never derives from the value"),
        Rule("VALUE-TRUTH", _lazy("values", "rule_value_truth"), 10,
             "a flattened element used as a value (selected, compared) is handed on whatever its truthiness"),
        Rule("CONCLUSION-VARS-BOUND", _lazy("ruletree", "rule_conclusion_vars_which"), 6,
             "what a conclusion mentions and the fired row lacks is bound first: variables with or without a domain, flattened expressions (one conclusion per element)"),
        Rule("INFER-MARK", _lazy("ruletree", "rule_infer_mark"), 5,
             "a rule marks as inferred the selected variables it concludes on or that have no domain - not a flattened expression, not a domain variable selected next to them"),
        Rule("COLLECTION-TABLE", _lazy("predform", "rule_collection_table"), 2,
             "(shared with C13) what flatten spreads is what has __iter__ and is not a string / bytes / class"),
        Rule("BIND-NO-CLOBBER", _lazy("extra", "rule_bind_no_clobber"), 8,
             "(shared with C02) a row handed on is not the dict the operand still being iterated runs under (one row per element of the flattened collection)"),
        Rule("MAPPING-NOT-MEMOISED", _lazy("aggregates", "rule_mapping_not_memoised"), 4,
             "the mappings read the user object when they are evaluated: nothing on the path of _apply_mapping_ is memoised per parent"),
        Rule("EXPR-IDENTITY", _lazy("ruletree", "rule_expr_identity"), 1,
             "engine code compares nodes by identity: == / != on a node-valued slot would build a (truthy) comparison expression"),
        Rule("REPLAY-DEDUP", _lazy("cacheidx", "rule_replay_dedup"), 3,
             "(shared with C05) a replay suppresses duplicate true rows exactly when the evaluating path it stands for does: the same object twice in one collection stays two rows on re-evaluation"),
        Rule("SELECT-EVERY-ROW", _lazy("ruletree", "rule_select_every_row"), 3,
             "a selector draws its conclusions for every row it hands on: no selection inside a row loop is guarded by a local carried from one row to the next (a 'first row' flag)"),
    ],
    explanation="UNNEST is 'one row per inner element, all other variables keep the binding that produced it': the "
                "first half is a path property of one small generator, the second is the BIND-KEEP provenance rule at "
                "the mapping generator and at the query descriptor. Falsy inner elements are C19's rule. Not decided: "
                "row multiplicity under additional conditions (duplicate suppression).",
    assumptions=[],
    design_ref="DESIGN.md §2 C16",
))


from . import lazy

register(PropertySpec(
    id="C07",
    title="evaluation is demand-driven and consumes lazily supplied domains only as needed",
    rules=[
        Rule("GEN-ENTRY", lazy.rule_gen_entry, 10,
             "An.evaluate is a generator function; no construction-time function iterates or pulls from the supplied domain"),
        Rule("LAZY-TAINT", lazy.rule_lazy_taint, 25,
             "taint analysis: evaluation streams and the supplied domain never reach an eager consumer (list/sorted/len/…, "
             "comprehensions, *-unpacking, `in`, itertools.product, loops that hand nothing out before finishing), except "
             "the frozen aggregation exceptions"),
        Rule("MEMO-ON-PULL", lazy.rule_memo_on_pull, 3,
             "the raw lazily-consumed source is read only inside HashedIterable; every loop over it stores the pulled "
             "element into `values` before handing it out; the source is wrapped lazily"),
        Rule("RESET-ALL-EXITS", _lazy("reset", "rule_reset_all_exits"), 2,
             "(shared with C04) the rows of an evaluation that follows an abandoned one are the rows of the query: the per-evaluation duplicate-suppression state is reset on every exit of evaluate()"),
        Rule("TRAVERSAL-TOTAL", _lazy("history", "rule_traversal_total"), 2,
             "(shared with C04) that reset reaches every node of the tree"),
        Rule("CLEAR-COMPLETE", _lazy("cacheidx", "rule_clear_complete"), 4,
             "(shared with C20) clearing an index (after an abandoned evaluation; a class's registry store) empties every store and withdraws the coverage marks"),
        Rule("SHARED-TAIL", _lazy("lazy", "rule_shared_tail"), 5,
             "an iteration over a lazily consumed domain is handed what other live iterations pulled from the shared source"),
        Rule("SOURCE-NOT-DELEGATED", _lazy("lazy", "rule_source_not_delegated"), 1,
             "an iteration over a lazily consumed domain does not delegate to the shared one-shot source (closing the iteration would close the source)"),
        Rule("QUERY-FRESH-STATE", _lazy("history", "rule_query_fresh_state"), 2,
             "(shared with C04) every evaluation of a quantifier resets the duplicate-suppression state below it first: with stale state the next evaluation pulls past the prefix it needs"),
        Rule("ITER-SNAPSHOT", _lazy("lazy", "rule_iter_snapshot"), 1,
             "(shared with C14) the replay of the memoised prefix iterates a snapshot, so that another evaluation pulling new elements meanwhile does not break a suspended one"),
        Rule("PULLED-RECORD", _lazy("lazy", "rule_pulled_record"), 3,
             "the record of what was pulled from a one-shot source is appended to only with the value just pulled, and emptied only by clear()"),
        Rule("EXPRESSION-NOT-ITERATED", _lazy("lazy", "rule_expression_not_iterated"), 5,
             "no expression object (an element of selected_variables / child variables, an expression parameter) is handed to something that iterates it: iterating a Variable enumerates its domain"),
        Rule("PULLED-SO-FAR-NOT-ASKED", _lazy("lazy", "rule_pulled_so_far_not_asked"), 1,
             "no condition outside the container reads what has been pulled from a variable's domain so far (the memo): what a query delivers does not depend on who advanced a shared iterator before"),
        Rule("VALUE-IDENTITY", _lazy("extra", "rule_value_identity"), 8,
             "(shared with C20) distinct elements of the iterator stay distinct in the memo: the identifier of a wrapped value is its identity, an _id_ attribute is believed only of the package's own expressions"),
        Rule("MEMO-SOURCE-FAILURE", _lazy("lazy", "rule_memo_source_failure"), 3,
             "(shared with C04) after a failed pull the elements the source still has are pulled by later evaluations: the wrapper between the memo and the source is not a generator"),
    ],
    explanation="Laziness is preserved iff nothing on the path from the user's domain to the user's next() materialises a "
                "stream. That is a may-materialise taint analysis over every function that handles evaluation streams or "
                "the domain. Not decided: the exact count 'prefix ending at the k-th qualifying element' (a look-ahead of "
                "one that uses none of the listed sinks is invisible).",
    assumptions=["a bare next() inside a generator body followed by a yield is streaming, not a drain"],
    design_ref="DESIGN.md §2 C07",
))


from . import infer as infer_rules

register(PropertySpec(
    id="C11",
    title="rule inference builds one instance per satisfying binding, from that binding",
    rules=[
        Rule("INFER-THREAD", infer_rules.rule_infer_thread, 1,
             "the evaluation sites of constructor arguments receive the current binding (BIND-THREAD instances)"),
        Rule("INFER-ONE-PER-BINDING", infer_rules.rule_infer_one, 3,
             "the construction self._type_(**…) runs exactly once per argument combination (counting domain over the "
             "CFG), and for an inferred variable the registry is never consulted instead (abstract interpretation with "
             "_is_inferred_ = True)"),
        Rule("PRODUCT-CORRELATED", _lazy("binding", "rule_product_correlated"), 1,
             "the arguments of a rule head that share a variable the body leaves unbound take their values from the same "
             "assignment: they are bound sequentially, not as independent streams multiplied"),
        Rule("INFER-NOT-TRUTH", infer_rules.rule_infer_not_truth, 4,
             "abstract interpretation of the output handler for a non-predicate variable: the row of a constructed instance is "
             "produced whatever the instance's truthiness"),
        Rule("BIND-KEEP", _lazy("binding", "rule_bind_keep"), 12,
             "(shared with C02) the rows the rule head is built from keep everything the body bound"),
        Rule("DEDUP-KEY", _lazy("binding", "rule_dedup_key"), 3, "(shared with C02) duplicate-suppression keys"),
        Rule("DEDUP-PARENT", _lazy("binding", "rule_dedup_parent"), 5,
             "(shared with C02) a satisfying assignment that differs only in a head variable is not a duplicate"),
        Rule("RESULT-NO-ALIAS", _lazy("cacheidx", "rule_result_no_alias"), 2,
             "(shared with C20) cache replays do not mix the bindings of different rows"),
        Rule("CACHE-FLAG-CONSISTENT", _lazy("cacheidx", "rule_cache_flag_consistent"), 5,
             "(shared with C05) a cached row is replayed with its own truth flag"),
        Rule("NEG-TABLE", _lazy("negation", "rule_neg_table"), 21,
             "(shared with C03) negated comparisons in rule bodies use the true inverse operator"),
        Rule("ID-KEEP", infer_rules.rule_id_keep, 10,
             "constructor keyword values are the .value of the bound HashedValues; every copy() in the package takes a "
             "binding dict, never a user object"),
        Rule("PRED-ARGS", _lazy("predform", "rule_predicate_args"), 1,
             "a @predicate call inside a block binds its positional arguments by position (also to parameters that have a default)"),
        Rule("CALL-FORWARD", _lazy("extra", "rule_call_forward"), 1,
             "a symbolic method call applies the method with all the positional and keyword arguments it was built with"),
        Rule("ROW-FRESH", _lazy("extra", "rule_row_fresh"), 1,
             "(shared with C02) incl. the exception for Union.evaluate_right, which stands only while or_ never builds a Union"),
        Rule("SHARED-TAIL", _lazy("lazy", "rule_shared_tail"), 5,
             "an iteration over a lazily consumed domain is handed what other live iterations pulled from the shared source"),
        Rule("CACHED-POSITION-RESET", _lazy("history", "rule_cached_position_reset"), 1,
             "the memo of the position-dependent duplicate-suppression keys is dropped, for the class of the node being reset, with the per-evaluation state"),
        Rule("REPLAY-ONE-ENTRY", _lazy("cacheidx", "rule_replay_one_entry"), 1,
             "a lookup that leaves a cache key open is answered from the wildcard child or from the children that bind the key, not both (one result is stored under partial and full rows)"),
        Rule("SET-ALGEBRA", _lazy("lazy", "rule_set_algebra"), 3,
             "union / intersection / difference of the value container have the membership table their names say (they compute the variables an operator combines, caches and de-duplicates by)"),
        Rule("COVERAGE-SUBSUMPTION", _lazy("cacheidx", "rule_coverage_subsumption"), 4,
             "the seen-set (which decides what a duplicate is) reports a binding as seen only through the per-key containment test"),
        Rule("DEDUP-UNDER-ROW-TRUTH", _lazy("binding", "rule_dedup_under_row_truth"), 5,
             "a row is tested for being a duplicate under the truth value it is handed on with (the flag is not assigned between the test and the yield)"),
        Rule("VALUE-IDENTITY", _lazy("extra", "rule_value_identity"), 8,
             "two wrapped values are the same exactly when their identifiers agree (equality = the identifier, which the hash is)"),
        Rule("EVAL-FLAG", _lazy("history", "rule_eval_flag"), 3,
             "flags that say 'this part is being evaluated' are cleared on every exit, also when the evaluation is abandoned - a stale flag changes which rows the next evaluation yields"),
        Rule("QUERY-FRESH-STATE", _lazy("history", "rule_query_fresh_state"), 2,
             "every evaluation of a quantified query (nested, selected, used as a domain) starts by resetting the duplicate-suppression state below it"),
        Rule("DEDUP-CONCLUSIONS", _lazy("binding", "rule_dedup_conclusions"), 2,
             "the duplicate key of an else-if covers what the right side concludes on, also below a selector (rows that differ only there are not duplicates)"),
        Rule("NEG-TRUTH", _lazy("negation", "rule_neg_truth"), 16,
             "the truth a mapping decides from a value (fresh or bound already) follows one table; as a value (false rows requested) every row is handed on, falsy or not"),
        Rule("EVAL-PARENT-SET", _lazy("binding", "rule_eval_parent_set"), 9,
             "the operators that evaluate shareable operands tell the operand which of its parents is evaluating it, on every path to the evaluation"),
        Rule("DUP-STABLE", _lazy("lazy", "rule_dup_stable"), 1,
             "a domain that lists an object twice yields it once in every pass (one inferred instance per assignment, the same number in every evaluation)"),
        Rule("INFER-MARK", _lazy("ruletree", "rule_infer_mark"), 5,
             "a rule marks as inferred the selected variables it concludes on or that have no domain - not a flattened expression, not a domain variable selected next to them"),
        Rule("KWARGS-NAMESPACE", _lazy("predform", "rule_kwargs_namespace"), 6,
             "the functions that carry the user's field names in **kwargs keep their own parameters out of that namespace (positional-only)"),
        Rule("DEDUP-PER-PARENT", _lazy("binding", "rule_dedup_per_parent"), 1,
             "what a node has handed on is remembered per parent (a node used under two parents owes each its rows)"),
        Rule("QUANT-NOT-STRIPPED", _lazy("subquery", "rule_quant_not_stripped"), 1,
             "(shared with C17) a quantified term given as a head argument keeps its conditions: nowhere is a quantifier replaced by the variable it selects"),
        Rule("FLATTEN-EACH", _lazy("extra", "rule_flatten_paths"), 2,
             "(shared with C16) every element of a flattened collection has an identity of its own: an instance is built per satisfying assignment, not per parent"),
        Rule("DESCRIPTOR-SIBLINGS", _lazy("ruletree", "rule_descriptor_siblings"), 3,
             "entity and set_of are one implementation: a type test on the kind of a descriptor covers every kind (same test or the arms of its chain), so a rule or query written with set_of takes the paths the same one written with entity takes"),
        Rule("PULLED-RECORD", _lazy("lazy", "rule_pulled_record"), 3,
             "the record of what was pulled from a one-shot source is appended to only with the value just pulled, and emptied only by clear()"),
        Rule("VARS-COMPLETE", _lazy("subquery", "rule_vars_complete"), 8,
             "the variables of a node are those of every sub-expression it evaluates, of whatever kind; a node counts itself only if it takes several values under one binding"),
        Rule("EXPR-IDENTITY", _lazy("ruletree", "rule_expr_identity"), 1,
             "(shared with C12) engine code compares nodes by identity (== / in on a node reads an unset field of the graph node, or builds a comparison)"),
        Rule("REG-SNAPSHOT", _lazy("registry", "rule_reg_snapshot"), 1,
             "the stores of a class and of its subclasses are all read before the first instance is handed out: an evaluation that also constructs instances does not range over its own output"),
        Rule("STREAM-UNDER-CLEANUP", _lazy("flags", "rule_stream_under_cleanup"), 1,
             "a method that holds state for the duration of an evaluation in a try/finally or with bracket produces the rows inside it (yield from), it does not return an unstarted generator from inside the bracket"),
        Rule("PULLED-SO-FAR-NOT-ASKED", _lazy("lazy", "rule_pulled_so_far_not_asked"), 1,
             "(shared with C07) whether a selected variable has a supplied domain is not decided by what has been pulled from it so far"),
        Rule("LITERAL-WRAP", _lazy("extra", "rule_literal_wrap"), 1,
             "(shared with C19) a constant head argument is ONE value whatever it is: a constant collection is not spread into its elements"),
    ],
    explanation="All clauses are weak but necessary: arguments evaluated under the current binding, one construction "
                "per combination, no retrieval instead of construction for inferred variables, existing objects passed "
                "by identity. Not decided: that the right fields receive the right values for nested heads (data flow "
                "through runtime dictionaries).",
    assumptions=["C04 EVAL-STATE-RESET / C12 for which conclusions are applied"],
    design_ref="DESIGN.md §2 C11",
))

register(PropertySpec(
    id="C18",
    title="meaning-preserving rewrites of a query do not change its result set",
    rules=[
        Rule("OPDEN", opden.rule_opden, 8,
             "mirroring a comparison (5 < x reaches x.__gt__(5) and denotes x > 5) and contains(c, i) vs in_(i, c) "
             "have the same denotation"),
        Rule("OR-LEFT-TOTAL", _lazy("logic", "rule_or_left_total"), 1,
             "swapping the operands of or_: the right operand is tried for every binding on which the left one is not true, "
             "also those for which the left operand yields no row"),
        Rule("CACHE-FLAG-CONSISTENT", _lazy("cacheidx", "rule_cache_flag_consistent"), 5,
             "(shared with C05) which rows a cache replays as true must not depend on the row order (operand / domain order)"),
        Rule("VALUE-TRUTH", _lazy("values", "rule_value_truth"), 10,
             "(shared with C19) which operand is evaluated second must not matter: both are evaluated as values"),
        Rule("BIND-KEEP", _lazy("binding", "rule_bind_keep"), 12,
             "(shared with C02) selection order: every selected expression keeps what it bound"),
        Rule("BIND-THREAD", _lazy("binding", "rule_bind_thread"), 30,
             "(shared with C02) operand order: each operand is evaluated under what the other bound"),
        Rule("FORALL-MONOTONE", _lazy("forall", "rule_forall_monotone"), 8,
             "(shared with C10) permuting the universal domain: the accumulated set only shrinks, is seeded by the first value only and never re-seeded"),
        Rule("ROW-FRESH", _lazy("extra", "rule_row_fresh"), 1,
             "(shared with C02) the order of selected variables: the binding is not extended in place across the values of one selected variable"),
        Rule("PRODUCT", _lazy("binding", "rule_product"), 1,
             "(shared with C02) unrelated selected variables are combined by an all-combinations combinator"),
        Rule("DEDUP-TRUTH-UP", _lazy("binding", "rule_dedup_truth_up"), 1,
             "a conjunction reports its own truth to its parent as unknown when all that is known is that one operand is true"),
        Rule("DEDUP-KEY", _lazy("binding", "rule_dedup_key"), 3,
             "(shared with C02) swapping the operands of and_: the left rows are keyed by what the right side tests"),
        Rule("DEDUP-PARENT", _lazy("binding", "rule_dedup_parent"), 5,
             "(shared with C02)"),
        Rule("INSERT-RETRIEVABLE", _lazy("cacheidx", "rule_coverage_only_if_stored"), 1,
             "with an empty key list (a comparison between two literals) insert() records nothing as covered"),
        Rule("VALUE-IDENTITY", _lazy("extra", "rule_value_identity"), 8,
             "two wrapped values are the same exactly when their identifiers agree (equality = the identifier, which the hash is)"),
        Rule("FLATTEN-EACH", _lazy("extra", "rule_flatten_paths"), 2,
             "each element of a flattened collection is a value of its own (own identifier), so rows for different elements are different rows"),
        Rule("REQUEST-DELEGATED", _lazy("subquery", "rule_request_delegated"), 4,
             "an evaluation method that delegates to another evaluation method of the same node hands the request for false rows on unchanged (entity and set_of sub-queries behave alike on the left of `|`)"),
        Rule("SELECTOR-NO-CACHE", _lazy("cacheidx", "rule_selector_no_cache"), 1,
             "conclusion selectors never answer from a cache (a replayed row would take its conclusion from a stale branch flag, and which rows are replayed depends on the order of operands and domains)"),
        Rule("REPLAY-OR-EVALUATE", _lazy("cacheidx", "rule_replay_or_evaluate"), 2,
             "per row of its first operand an operator either replays the cached rows of the second or evaluates it, then goes on with the next row (CFG path rule at every per-row replay site)"),
        Rule("LOGIC-TRUTH", _lazy("logic", "rule_logic_truth"), 12,
             "(shared with C01) the truth each operator assigns to a row is the truth table of its operator; the else-if tries its right side on the incoming binding when the left produced nothing"),
        Rule("FORALL-TOTAL-ROWS", _lazy("forall", "rule_forall_total_rows"), 1,
             "(shared with C10) rows of the condition are completed over ALL the variables they leave unbound before the intersection, whichever branch of an or_ produced them"),
        Rule("REENTRANT-FLAG", _lazy("values", "rule_reentrant_flag"), 9,
             "(shared with C01) one condition object in two operands of an and_: each evaluation of it reads the request for false rows from its own argument, so swapping the operands does not change which rows it yields"),
        Rule("QUANT-NOT-STRIPPED", _lazy("subquery", "rule_quant_not_stripped"), 1,
             "a sub-query in the list of selected variables is a conjunct of the enclosing query whenever it is replaced by its variable (handed on unconditionally)"),
        Rule("CONDITIONS-FORWARDED", _lazy("subquery", "rule_conditions_forwarded"), 4,
             "the building functions pass the conditions they are given on to the function that builds the query, in every arm"),
        Rule("RETRIEVE-ALL-BRANCHES", _lazy("cacheidx", "rule_retrieve_bound_branches"), 2,
             "(shared with C20) a lookup that binds a key follows the entry stored for that value and the entry that leaves the key open: otherwise a row is lost on a cache hit, depending on the order in which the variables were declared"),
        Rule("FORALL-KEY", _lazy("forall", "rule_forall_key"), 2,
             "(shared with C10) what for_all asks of its condition depends only on who asks: an or_ nested below an and_ inside the condition keeps the universal variable in its key, whichever operand order"),
        Rule("LOOP-RAN-FLAG", _lazy("flags", "rule_loop_ran_flag"), 3,
             "a flag that says 'the stream produced no row' (and starts a fallback evaluation) is set by every row: no continue, early exit or condition bypasses the assignment"),
        Rule("BOUND-AGAIN-TRUTH", _lazy("values", "rule_bound_again_truth"), 1,
             "(shared with C03) a condition object that occurs twice reads, the second time, the truth of the value it is bound to with its negation applied"),
    ],
    explanation="Two of the six listed rewrites are decided: mirrored comparisons and contains/in_, by the OPDEN "
                "denotation rule (C01). Commutativity/associativity of and/or, declaration/selection order and domain "
                "permutation are equalities between evaluations that take different paths through the same generators "
                "on runtime data; there is no syntactic normal form to compare - NOT decided.",
    assumptions=["Python's reflection protocol for comparison operators"],
    design_ref="DESIGN.md §2 C18",
))


def _attach_sensitivity():
    from ..props import SPECS
    from .. import variants
    for pid, fn in variants.REGISTRY.items():
        if pid in SPECS:
            SPECS[pid].sensitivity = fn




register(PropertySpec(
    id="C15",
    title="a sub-query used inside a query means the same as its conditions inlined",
    rules=[
        Rule("QUANT-TRUTH", _lazy("subquery", "rule_quant_truth"), 5,
             "abstract interpretation of An._evaluate__ for every (descriptor false, yield_when_false): a row is handed on iff the "
             "descriptor's row is true or false rows were requested, with the descriptor's truth as the quantifier's own; the request "
             "for false rows is passed on to the descriptor"),
        Rule("QUANT-REEXPORT", _lazy("subquery", "rule_quant_reexport"), 4,
             "every row a quantifier hands on binds the quantifier's id to the row's value of its selected variable, depending only "
             "on there being a single selected variable"),
        Rule("QUANT-CONTRIBUTES", _lazy("subquery", "rule_quant_contributes"), 3,
             "a quantifier passed where a variable is selected is replaced by its selected variable and joins the conjunction of "
             "conditions; operators on a quantifier delegate to the selected variable of its descriptor"),
        Rule("HOOK-SELF", _lazy("subquery", "rule_hook_self"), 3,
             "attribute access, indexing and calls on an expression build their node on that expression (a quantifier stays in the tree)"),
        Rule("VARS-COMPLETE", _lazy("subquery", "rule_vars_complete"), 8,
             "every node reports the variables of every sub-expression it evaluates (keys of the result caches and duplicate "
             "suppression of the operators above a sub-query)"),
        Rule("SLOT-ALIGN", _lazy("predform", "rule_slot_align"), 2,
             "(shared with C13) a sub-query given positionally after From(...) constrains the field in that position"),
        Rule("BIND-THREAD", _lazy("binding", "rule_bind_thread"), 30,
             "(shared with C02) quantifier and descriptor evaluate what is below them under the incoming binding"),
        Rule("BIND-KEEP", _lazy("binding", "rule_bind_keep"), 12,
             "(shared with C02) and hand the whole row of the sub-query on"),
        Rule("DEDUP-PARENT", _lazy("binding", "rule_dedup_parent"), 5,
             "(shared with C02) the duplicate-suppression key inside a sub-query contains what the enclosing query requires"),
        Rule("CACHED-POSITION-RESET", _lazy("history", "rule_cached_position_reset"), 1,
             "(shared with C04) those keys are memoised per node and dropped with the per-evaluation state: a sub-query evaluated on "
             "its own and then nested is keyed for the tree it sits in"),
        Rule("VALUE-TRUTH", _lazy("values", "rule_value_truth"), 10,
             "(shared with C19) a sub-query used as an operand or constructor argument is evaluated as a value"),
        Rule("LOGIC-TRUTH", _lazy("logic", "rule_logic_truth"), 12,
             "(shared with C01) & and | over sub-queries combine the truth flags the quantifiers report"),
        Rule("QUERY-FRESH-STATE", _lazy("history", "rule_query_fresh_state"), 2,
             "every evaluation of a quantified query (nested, selected, used as a domain) starts by resetting the duplicate-suppression state below it"),
        Rule("EVAL-PARENT-SET", _lazy("binding", "rule_eval_parent_set"), 9,
             "the operators that evaluate shareable operands tell the operand which of its parents is evaluating it, on every path to the evaluation"),
        Rule("REQUEST-DELEGATED", _lazy("subquery", "rule_request_delegated"), 4,
             "an evaluation method that delegates to another evaluation method of the same node hands the request for false rows on unchanged (entity and set_of sub-queries behave alike on the left of `|`)"),
        Rule("DESCRIPTOR-SIBLINGS", _lazy("ruletree", "rule_descriptor_siblings"), 3,
             "entity and set_of are one implementation: a type test on the kind of a descriptor covers every kind (same test or the arms of its chain), so a rule or query written with set_of takes the paths the same one written with entity takes"),
        Rule("REPLAY-FALSE-ASKED", _lazy("cacheidx", "rule_replay_false_asked"), 5,
             "(shared with C05) a sub-query object used in two places: a replay from a result cache hands on the false rows exactly when the evaluation it answers asked for them"),
        Rule("OR-LEFT-TOTAL", _lazy("logic", "rule_or_left_total"), 1,
             "(shared with C18; recorded finding) the else-if offers its right side only the bindings for which its left side yielded a row: a sub-query in value position on the left of | yields none for the values it rejects"),
        Rule("REENTRANT-FLAG", _lazy("values", "rule_reentrant_flag"), 9,
             "(shared with C01) a sub-query object used twice in one condition: each evaluation reads the request for false rows from its own argument"),
        Rule("QUANT-NOT-STRIPPED", _lazy("subquery", "rule_quant_not_stripped"), 1,
             "a sub-query in the list of selected variables is a conjunct of the enclosing query whenever it is replaced by its variable (handed on unconditionally)"),
        Rule("REQUIRED-ASK-AS-SELF", _lazy("binding", "rule_required_ask_as_self"), 3,
             "a node asks its parent what to keep of its rows in its own name (the parent recognises the asking operand by identity)"),
        Rule("BOUND-AGAIN-ONCE", _lazy("values", "rule_bound_again_once"), 3,
             "an expression object that finds itself bound already answers once for that binding and ends (it does not fall through into the ordinary evaluation)"),
        Rule("REQUANTIFY-DESCRIPTION", _lazy("the", "rule_requantify_description"), 1,
             "an already quantified predicate-form term handed to an()/the()/infer() is re-wrapped by its description (conditions included), never by its selected variable alone"),
        Rule("FLAG-PER-ROW", _lazy("flags", "rule_flag_per_row"), 8,
             "inside a loop over rows, a read of the expression's own truth flag that follows an assignment to it is reached only when one of the assignments was executed for this row (structural conditions apart)"),
        Rule("ROW-NOT-MEMOISED", _lazy("flags", "rule_row_not_memoised"), 1,
             "no evaluation method keeps a row it produced in an attribute of the node and hands it out again on a later call (an operand is evaluated once per binding of the enclosing query)"),
    ],
    explanation="Decides the structural clauses of the three mechanisms the property is anchored in: (1) a quantifier node in "
                "the middle of a tree is transparent for truth (same truth table as its conditions, request for false rows passed "
                "on) and re-exports its selected variable under its own id; (2) a quantifier passed as a selected variable contributes "
                "its conditions; (3) operators on a quantifier stay above the sub-query. Plus the engine rules that make a nested "
                "tree behave like the flat one: complete variable sets, binding discipline, duplicate keys that follow the tree the "
                "node currently sits in. NOT decided: equality of the result sets of the composed and the inlined tree in general "
                "(duplicate suppression and caches act on runtime bindings); an operand sub-query that yields no row for a binding "
                "hides the other side of an enclosing | (same construct as the C18 known finding).",
    assumptions=[],
    design_ref="DESIGN.md §2c, §4",
))


_attach_sensitivity()
