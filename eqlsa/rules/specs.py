"""All property specifications."""
from __future__ import annotations

from ..framework import PropertySpec, Rule
from ..props import register
from . import opden

register(PropertySpec(
    id="C01",
    title="single-variable query is an exact, ordered, duplicate-free domain filter",
    rules=[
        Rule("OPDEN", opden.rule_opden, 8,
             "each comparison hook of CanBehaveLikeAVariable and entity.in_/contains, composed with "
             "Comparator.apply_operation, denotes the Python relation of the same name on (self, other)"),
        Rule("CMP-TRUTH", opden.rule_cmp_truth, 4,
             "abstract interpretation of Comparator._evaluate__ for every (operation result, yield_when_false): a row "
             "is emitted iff result or yield_when_false, and _is_false_ == not result at the yield"),
        Rule("OPERAND-VALUES", opden.rule_operand_values, 2,
             "each operand value handed to the operation is that operand's own entry of its binding"),
    ],
    explanation="Decides the clause 'the condition vocabulary denotes the ordinary Python operator': the node each "
                "public comparison/membership entry constructs (arguments mapped to dataclass fields through the MRO "
                "field order) composed with the order in which Comparator applies its operation, compared with Python's "
                "own relation table; plus the truth protocol of the comparator generator by finite abstract "
                "interpretation of its CFG. Necessary, not sufficient: ordering and de-duplication of rows are runtime "
                "protocols and are not decided.",
    assumptions=["operands are totally ordered where </<=/>/>= are used (mirrored forms are identified)",
                 "== and != are symmetric on user values"],
    design_ref="DESIGN.md §2 C01",
))

from . import negation

register(PropertySpec(
    id="C03",
    title="negation returns the exact complement, at any nesting depth",
    rules=[
        Rule("NEG-TABLE", negation.rule_neg_table, 21,
             "finite abstract evaluation of the Comparator._invert_ setter for each of the 7 operators: False->True gives "
             "the complement operator; re-assigning the same flag changes nothing"),
        Rule("NEG-INVOLUTION", negation.rule_neg_involution, 8,
             "the leaf arm of Not toggles the flag (f(f(b))=b, f(False)=True) and the setter maps every complemented "
             "operator back to the original on True->False"),
        Rule("NEG-DEMORGAN", negation.rule_neg_demorgan, 4,
             "Not(AND) builds an or-family node and Not(OR) an AND over Not(left), Not(right); Entity/SetOf are rebuilt "
             "over Not(child) with the same selected variables; arm order does not shadow"),
        Rule("NEG-TRUTH", negation.rule_neg_truth, 16,
             "for every (invert, value truthiness, yield_when_false) the mapped-value and predicate-output sites set "
             "_is_false_ = (truthy == invert) and emit iff yield_when_false or not _is_false_"),
    ],
    explanation="Negation is a rewrite at construction time, so it is a function on syntax and is decided from the "
                "source: the inverse-operator table is extracted by abstract evaluation of the setter's CFG (match / if "
                "chain / dict forms alike) over the finite operator alphabet and both flag transitions and compared "
                "with the complement table; the De Morgan arms are checked by resolved constructor and operands; the "
                "leaf transfer function is checked to be an involution; the two truth-inversion sites are checked "
                "against their truth tables by abstract interpretation.",
    assumptions=["operands of < <= > >= are totally ordered (the library's own inverse table assumes it)",
                 "function objects are identified by definition site"],
    design_ref="DESIGN.md §2 C03",
))

from . import modes, reset

register(PropertySpec(
    id="C08",
    title="symbolic mode is confined to its block",
    rules=[
        Rule("MODE-WRITER", modes.rule_mode_writer, 3,
             "who-may-call over the whole package: the mode context variable is written only by _set_symbolic_mode, "
             "which is called only by the symbolic_mode context manager"),
        Rule("MODE-PAIRING", modes.rule_mode_pairing, 6,
             "in symbolic_mode: previous mode saved before the write; the saved mode is restored on every normal, "
             "exceptional and generator-close path after the write and after the yield; query.__enter__/__exit__ "
             "paired; rule_mode delegates"),
        Rule("STACK-PAIRING", modes.rule_stack_pairing, 2,
             "__enter__ pushes exactly once and __exit__ pops exactly once on every path; nobody else mutates the "
             "expression-context stack"),
        Rule("NO-YIELD-UNDER-MODE", modes.rule_no_yield_under_mode, 20,
             "no generator other than the context managers themselves suspends (yield) inside a with "
             "symbolic_mode/rule_mode region"),
        Rule("OP-GUARD", modes.rule_op_guard, 10,
             "abstract interpretation of each of the 10 operator hooks with in_symbolic_mode() == False: no return is "
             "reachable (the hook raises), through helper calls too"),
        Rule("MODE-BRANCH", modes.rule_mode_branch, 4,
             "hybrid_new and the @predicate wrapper under each constant mode reach only their own arm"),
    ],
    explanation="The mode is a context variable with a closed set of writers, so confinement is a pairing property over "
                "all exits of the code that writes it. Decided on the CFG with exceptional and generator-suspension "
                "edges: save-before-write, restore on all exits, no suspension under an override anywhere in the "
                "package, guards on every operator hook (by abstract interpretation under the constant mode), and arm "
                "separation of the mode-dependent constructors.",
    assumptions=["thread/async interleavings are not modelled (the expression stack is a class-level list)",
                 "__exit__ of the context managers does not swallow exceptions (they are try/finally generators)"],
    design_ref="DESIGN.md §2 C08",
))

register(PropertySpec(
    id="C09",
    title="evaluation gives the same answer inside and outside a symbolic block",
    rules=[
        Rule("MODE-OFF-DOM", modes.rule_mode_off_dom, 2,
             "every program point of a public evaluate() that runs evaluation (calls a plain evaluator, or advances an "
             "evaluation generator) lies inside `with symbolic_mode(mode=None)`"),
        Rule("USERCODE-REACH", modes.rule_usercode_reach, 6,
             "the sites that run user code (predicate call, self._type_(**…), getattr/[]/() on user values, the "
             "comparison operator) are reachable only through the evaluation protocol, hence only under the entries"),
    ],
    explanation="User predicates and @symbol constructors consult the ambient mode; the result is mode-independent iff "
                "every public entry switches the mode off around every point at which evaluation runs. That is a "
                "region-containment fact on each entry, plus a call-graph closure showing user code is only run from "
                "evaluation methods.",
    assumptions=["C08's guarantees (the override is restored)", "user predicates are deterministic"],
    design_ref="DESIGN.md §2 C09",
))

from . import history

register(PropertySpec(
    id="C04",
    title="a query's answer does not depend on what was evaluated before it",
    rules=[
        Rule("RESET-ALL-EXITS", reset.rule_reset_all_exits, 2,
             "for every public evaluate(): from every point that runs evaluation, every normal, exceptional and "
             "generator-close path to an exit passes self._reset_cache_() (or the reset dominates the evaluation)"),
        Rule("EVAL-STATE-RESET", history.rule_eval_state_reset, 5,
             "every container field of an expression class that evaluation code mutates is re-created by the reset "
             "traversal, re-initialised per evaluation, persistent by type (result cache / domain memo) or benign"),
        Rule("COVERAGE-AFTER-COMPLETION", history.rule_coverage_after_completion, 6,
             "coverage writes into result caches that a yield can follow require every public entry to invalidate the "
             "tree's result caches on each exceptional / close exit"),
        Rule("NO-DOMAIN-MUTATION", history.rule_no_domain_mutation, 3,
             "no mutating operation is applied to a value that is the user's domain object"),
    ],
    explanation="History independence is absence of residue on the shared expression nodes. Decided: where residue is "
                "written (discovered mechanically from dataclass fields and mutation sites reachable from evaluation "
                "methods over the call graph) and that it is cleared on every exit (CFG with exceptional and "
                "generator-close edges); that result-cache coverage recorded before completion is rolled back on "
                "every abnormal exit; that user domains are never mutated. Not decided: equality of results across "
                "interleavings of different queries sharing variables (needs the runtime contents of the caches).",
    assumptions=["evaluation generators abandoned *inside* the engine (ForAll early exit, the() nested in a query) are "
                 "reported informationally only", "cleanup statements do not raise"],
    design_ref="DESIGN.md §2 C04",
))
