"""All property specifications."""
from __future__ import annotations

from ..framework import PropertySpec, Rule
from ..props import register
from . import opden

register(PropertySpec(
    id="C01",
    title="single-variable query is an exact, ordered, duplicate-free domain filter",
    rules=[
        Rule("OPDEN", opden.rule_opden, 8,
             "each comparison hook of CanBehaveLikeAVariable and entity.in_/contains, composed with "
             "Comparator.apply_operation, denotes the Python relation of the same name on (self, other)"),
        Rule("CMP-TRUTH", opden.rule_cmp_truth, 4,
             "abstract interpretation of Comparator._evaluate__ for every (operation result, yield_when_false): a row "
             "is emitted iff result or yield_when_false, and _is_false_ == not result at the yield"),
        Rule("OPERAND-VALUES", opden.rule_operand_values, 2,
             "each operand value handed to the operation is that operand's own entry of its binding"),
    ],
    explanation="Decides the clause 'the condition vocabulary denotes the ordinary Python operator': the node each "
                "public comparison/membership entry constructs (arguments mapped to dataclass fields through the MRO "
                "field order) composed with the order in which Comparator applies its operation, compared with Python's "
                "own relation table; plus the truth protocol of the comparator generator by finite abstract "
                "interpretation of its CFG. Necessary, not sufficient: ordering and de-duplication of rows are runtime "
                "protocols and are not decided.",
    assumptions=["operands are totally ordered where </<=/>/>= are used (mirrored forms are identified)",
                 "== and != are symmetric on user values"],
    design_ref="DESIGN.md §2 C01",
))
