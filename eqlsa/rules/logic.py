"""LOGIC-TRUTH: truth protocol of the logical operators (AND, ElseIf) by finite abstract interpretation (C01, C03)."""
from __future__ import annotations

import ast
import itertools
from typing import Dict, List, Optional, Set, Tuple

from ..db import ProgramDB, FuncInfo, ClassInfo, AnalysisError, unparse, own_nodes, dotted
from ..cfg import CFG, Node
from ..facts import call_attr, is_cache_switch_call
from ..framework import inst, HOLDS, VIOLATION, UNDECIDED, INFO, Instance
from ..abseval import AbsEval, State, const, TOP, TRUE, FALSE, truth, fmt


def operator_truth_profile(db: ProgramDB, cls_name: str, env: dict) -> Set[Tuple[str, object]]:
    """Reachable (yielded expression, _is_false_ at the yield) pairs of <cls>._evaluate__ when the left / right operand
    report _is_false_ = env['L'] / env['R'] and false rows are requested iff env['ywf']; caches off."""
    m = db.method(cls_name, "_evaluate__", inherited=False)
    cfg = CFG(m)

    def attr_hook(e, st, ev):
        if isinstance(e, ast.Attribute) and e.attr == "_is_false_" and isinstance(e.value, ast.Attribute) \
                and isinstance(e.value.value, ast.Name) and e.value.value.id == "self":
            if e.value.attr == "left":
                return const(env["L"])
            if e.value.attr == "right":
                return const(env["R"])
        return None

    def call_hook(c, st, ev):
        if is_cache_switch_call(db, m, c):
            return FALSE
        if call_attr(c) == "_is_duplicate_output_":
            return FALSE
        return None
    ev = AbsEval(db, m, cfg, attr_hook=attr_hook, call_hook=call_hook)
    init = State({"yield_when_false": const(env["ywf"]), "self._is_false_": TOP})
    IN = ev.run(init, kinds=("n",))
    out = set()
    for n in cfg.nodes:
        if n.has_yield and not n.region and IN[n.id]:
            y = [x for x in ast.walk(n.ast) if isinstance(x, (ast.Yield, ast.YieldFrom))][0]
            for st in IN[n.id]:
                f = st.get("self._is_false_")
                out.add((unparse(y.value)[:40] if y.value is not None else "", f))
    return out


def rule_logic_truth(db: ProgramDB) -> List[Instance]:
    out = []
    envs = [dict(L=l, R=r, ywf=y) for l, r, y in itertools.product([False, True], repeat=3)]
    # AND passes its own yield_when_false to both operands: an operand can report false only if false rows were requested
    m_and = db.method("AND", "_evaluate__", inherited=False)
    for env in envs:
        if not env["ywf"] and (env["L"] or env["R"]):
            continue
        got = {f for _, f in operator_truth_profile(db, "AND", env)}
        want = {TRUE} if env["L"] else {const(env["R"])}
        key = f"AND._evaluate__[left_false={env['L']},right_false={env['R']},yield_when_false={env['ywf']}]"
        ok = got == want
        out.append(inst("LOGIC-TRUTH", HOLDS if ok else VIOLATION, m_and, key,
                        f"rows are emitted with _is_false_ in {sorted(fmt(x) for x in got)}" +
                        ("" if ok else f"; a conjunction is false iff an operand is false: required {sorted(fmt(x) for x in want)}")))
    # ElseIf forces yield_when_false=True on the left; the right receives its own
    m_ei = db.method("ElseIf", "_evaluate__", inherited=False)
    for env in envs:
        if not env["ywf"] and env["R"]:
            # right cannot report false when false rows were not requested from it... it can: ElseIf filters them itself
            pass
        got = {f for _, f in operator_truth_profile(db, "ElseIf", env)}
        right_rows = {const(env["R"])} if (not env["R"] or env["ywf"]) else set()
        want = (right_rows if env["L"] else {FALSE}) | right_rows     # left-loop branch  |  no-left-row branch
        key = f"ElseIf._evaluate__[left_false={env['L']},right_false={env['R']},yield_when_false={env['ywf']}]"
        ok = got == want
        out.append(inst("LOGIC-TRUTH", HOLDS if ok else VIOLATION, m_ei, key,
                        f"rows are emitted with _is_false_ in {sorted(fmt(x) for x in got)}" +
                        ("" if ok else f"; else-if: a true left row is emitted as true without consulting the right side, "
                                       f"otherwise the right side decides and false rows only when requested: required "
                                       f"{sorted(fmt(x) for x in want)}")))
    # the left operand of ElseIf must be asked for its false rows (else the right side is never tried for them)
    from ..evalsites import site_model
    for s in site_model(db).sites:
        if s.fn.qualname == m_ei.qualname and s.origins == ["self.left"]:
            ok = s.ywf == ("const", True)
            out.append(inst("LOGIC-TRUTH", HOLDS if ok else VIOLATION, m_ei, "ElseIf._evaluate__[left asked for false rows]",
                            "the left side is evaluated with yield_when_false=True" if ok else
                            "the left side is not asked for its false rows: assignments on which the left side is false never "
                            "reach the right side", line=s.line))
    return out


def rule_or_left_total(db: ProgramDB) -> List[Instance]:
    """A disjunction must try its right operand for every binding on which the left operand is not true - including the
    bindings for which the left operand produces *no row at all* (e.g. a comparison on flatten(e) when e is empty).
    ElseIf decides that from the rows the left side yields: per false row, plus one global 'the left side yielded
    nothing' test, which does not cover a left side that yields rows for some bindings of the shared variables only."""
    out = []
    m = db.method("ElseIf", "_evaluate__", inherited=False)
    # a flag set by any left row and tested after the loop to decide whether the right side runs on the incoming binding
    flags = set()
    left_loops = [l for l in own_nodes(m.node) if isinstance(l, ast.For)]
    for l in left_loops:
        for s in l.body[:2]:
            if isinstance(s, ast.Assign) and isinstance(s.value, ast.Constant) and s.value.value is True \
                    and isinstance(s.targets[0], ast.Name):
                flags.add(s.targets[0].id)
    global_tests = [n for n in own_nodes(m.node) if isinstance(n, ast.If) and isinstance(n.test, ast.UnaryOp)
                    and isinstance(n.test.op, ast.Not) and isinstance(n.test.operand, ast.Name) and n.test.operand.id in flags]
    # can an operand yield no row for a binding even when asked for false rows?  (one-to-many mappings over an empty value)
    from .aggregates import rule_flatten_keyed
    partial_operands = [i.construct.split(".")[0] for i in rule_flatten_keyed(db) if i.verdict in (HOLDS, VIOLATION)]
    bad = bool(global_tests) and bool(partial_operands)
    out.append(inst("OR-LEFT-TOTAL", VIOLATION if bad else HOLDS, m, "ElseIf._evaluate__[right side for bindings the left side skips]",
                    f"the right side is evaluated for the false rows of the left side, and on the whole incoming binding only if the "
                    f"left side yielded nothing at all (`{unparse(global_tests[0].test)}`): a left operand that yields no row for "
                    f"*some* bindings (a condition on {', '.join(partial_operands)} over an empty collection) hides those bindings "
                    f"from the right side, so or_(a, b) and or_(b, a) differ" if bad else
                    "the right side is tried for every binding on which the left side is not true",
                    line=global_tests[0].lineno if global_tests else m.lineno))
    return out
