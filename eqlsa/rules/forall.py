"""C10: for_all keeps exactly the bindings whose condition holds for every universal value: a running intersection."""
from __future__ import annotations

import ast
from typing import Dict, List, Optional, Set, Tuple

from ..db import ProgramDB, FuncInfo, ClassInfo, AnalysisError, unparse, own_nodes, dotted
from ..cfg import CFG, Node, Edge, run_forward
from ..facts import own_calls, call_attr, local_defs
from ..framework import inst, HOLDS, VIOLATION, UNDECIDED, INFO, Instance
from ..abseval import AbsEval, State, const, TOP, TRUE, FALSE, NONE, EMPTY, truth, fmt
from .entries import is_eval_method_name

# provenance lattice of the accumulated solution set
S_EMPTY, S_SEED, S_SUBSET, S_OTHER, S_INIT = ("ss", "EMPTY"), ("ss", "SEED"), ("ss", "SUBSET"), ("ss", "OTHER"), ("ss", "STALE")
S_LOSSY = ("ss", "LOSSY")
C_EMPTY, C_NONEMPTY = ("cur", "EMPTY"), ("cur", "NONEMPTY")


def _lossless_key(key: ast.AST, elem: str) -> bool:
    """The key a row is compared by determines the row: the row itself, or a function of its items() - not of its
    values() or keys() alone (two rows that bind the same objects to different variables are different rows)."""
    if isinstance(key, ast.Name) and key.id == elem:
        return True
    calls = [c for c in ast.walk(key) if isinstance(c, ast.Call) and isinstance(c.func, ast.Attribute)
             and isinstance(c.func.value, ast.Name) and c.func.value.id == elem]
    attrs = {c.func.attr for c in calls}
    if "items" in attrs:
        return True
    if attrs & {"values", "keys"}:
        return False
    return True


def _mentions(e: ast.AST, names: Set[str]) -> bool:
    return any(isinstance(x, ast.Name) and x.id in names for x in ast.walk(e))


def forall_model(db: ProgramDB):
    m = db.method("ForAll", "_evaluate__", inherited=False)
    cfg = CFG(m)
    fa = db.cls("ForAll")
    # the field holding the accumulated bindings: a list field of ForAll assigned in this function
    acc_fields = [f.name for f in fa.own_fields if not f.classvar and f.default_is_factory]
    assigned = {t.attr for n in own_nodes(m.node) if isinstance(n, ast.Assign) for t in n.targets
                if isinstance(t, ast.Attribute) and isinstance(t.value, ast.Name) and t.value.id == "self"}
    acc = [f for f in acc_fields if f in assigned]
    if len(acc) != 1:
        raise AnalysisError(f"ForAll._evaluate__: accumulated-solutions field not identified ({acc})")
    acc = acc[0]
    # loops: outer over the universal expression, inner over the condition
    def loop_receiver(n: Node) -> Optional[str]:
        it = n.ast.iter
        if isinstance(it, ast.Call) and is_eval_method_name(call_attr(it)):
            r = it.func.value
            if isinstance(r, ast.Attribute) and isinstance(r.value, ast.Name) and r.value.id == "self":
                return r.attr
        return None
    outer = [n for n in cfg.nodes if n.kind == "for" and loop_receiver(n) in ("variable", "left")]
    inner = [n for n in cfg.nodes if n.kind == "for" and loop_receiver(n) in ("condition", "right")]
    if len(outer) != 1 or len(inner) != 1:
        raise AnalysisError(f"ForAll._evaluate__: expected one loop over the universal expression and one over the "
                            f"condition, found {len(outer)}/{len(inner)}")
    outer, inner = outer[0], inner[0]
    if not any(x is inner.ast for s in outer.ast.body for x in ast.walk(s)):
        raise AnalysisError("ForAll._evaluate__: the condition is not evaluated inside the loop over the universal values")
    # `current`: the per-value list appended to inside the inner loop
    appended = {c.func.value.id for c in ast.walk(inner.ast) if isinstance(c, ast.Call) and call_attr(c) in ("append", "add")
                and isinstance(c.func.value, ast.Name)}
    if len(appended) != 1:
        raise AnalysisError(f"ForAll._evaluate__: per-value accumulator not identified ({sorted(appended)})")
    cur = appended.pop()
    # names derived from `current` (e.g. current_set)
    derived = {cur}
    defs = local_defs(m)
    changed = True
    while changed:
        changed = False
        for name, vals in defs.items():
            if name in derived:
                continue
            for v in vals:
                if isinstance(v, ast.AST) and _mentions(v, derived):
                    derived.add(name)
                    changed = True
    return m, cfg, acc, outer, inner, cur, derived


def classify_acc_assignment(value: ast.AST, acc: str, cur: str, derived: Set[str]) -> Tuple:
    """Abstract effect of `self.<acc> = value`."""
    def is_acc(e):
        return isinstance(e, ast.Attribute) and e.attr == acc and isinstance(e.value, ast.Name) and e.value.id == "self"
    if isinstance(value, (ast.List, ast.Tuple)) and not value.elts:
        return S_EMPTY
    if isinstance(value, ast.Call) and dotted(value.func) in ("list", "set") and not value.args:
        return S_EMPTY
    if isinstance(value, ast.Name) and value.id == cur:
        return S_SEED
    if isinstance(value, ast.Call) and dotted(value.func) in ("list", "copy") and len(value.args) == 1 \
            and isinstance(value.args[0], ast.Name) and value.args[0].id == cur:
        return S_SEED
    if isinstance(value, (ast.ListComp, ast.SetComp, ast.GeneratorExp)) and len(value.generators) == 1:
        g = value.generators[0]
        if is_acc(g.iter) and isinstance(g.target, ast.Name) and isinstance(value.elt, ast.Name) \
                and value.elt.id == g.target.id and g.ifs:
            # every filter must be a positive membership test of (something computed from) the element in
            # (something derived from) the current value's bindings
            ok = True
            for t in g.ifs:
                if not (isinstance(t, ast.Compare) and len(t.ops) == 1 and isinstance(t.ops[0], ast.In)
                        and _mentions(t.left, {g.target.id}) and _mentions(t.comparators[0], derived)):
                    ok = False
                elif not _lossless_key(t.left, g.target.id):
                    return S_LOSSY
            if ok:
                return S_SUBSET
    # list(filter(lambda d: <key of d> in <derived from current>, self.<acc>)) - the same filter, written functionally
    v2 = value
    if isinstance(v2, ast.Call) and dotted(v2.func) in ("list", "tuple") and len(v2.args) == 1:
        v2 = v2.args[0]
    if isinstance(v2, ast.Call) and dotted(v2.func) == "filter" and len(v2.args) == 2 and isinstance(v2.args[0], ast.Lambda) and is_acc(v2.args[1]) \
            and len(v2.args[0].args.args) == 1:
        p = v2.args[0].args.args[0].arg
        t = v2.args[0].body
        if isinstance(t, ast.Compare) and len(t.ops) == 1 and isinstance(t.ops[0], ast.In) and _mentions(t.left, {p}) \
                and _mentions(t.comparators[0], derived):
            return S_SUBSET if _lossless_key(t.left, p) else S_LOSSY
    if isinstance(value, ast.BinOp) and isinstance(value.op, ast.BitAnd) and (is_acc(value.left) or is_acc(value.right)) \
            and (_mentions(value.left, derived) or _mentions(value.right, derived)):
        return S_SUBSET
    if isinstance(value, ast.Call) and call_attr(value) == "intersection" and is_acc(value.func.value):
        return S_SUBSET
    return S_OTHER


def rule_forall_monotone(db: ProgramDB) -> List[Instance]:
    out = []
    m, cfg, acc, outer, inner, cur, derived = forall_model(db)
    ACC = f"self.{acc}"
    violations: List[Tuple[str, str, int]] = []
    finals: Set[Tuple] = set()

    def stmt_hook(node: Node, st: State, ev: AbsEval):
        a = node.ast
        if node.kind == "stmt" and isinstance(a, ast.Assign):
            for t in a.targets:
                if isinstance(t, ast.Attribute) and t.attr == acc and isinstance(t.value, ast.Name) and t.value.id == "self":
                    eff = classify_acc_assignment(a.value, acc, cur, derived)
                    if eff == S_SEED:
                        # the seed is as empty as `current` is
                        eff = S_EMPTY if st.get(cur) == C_EMPTY else S_SEED
                        st = st.set("$seeded", TRUE)
                    if eff == S_SUBSET and st.get(ACC) == S_EMPTY:
                        eff = S_EMPTY
                    return st.set(ACC, eff).set("$touched", TRUE)
                if isinstance(t, ast.Name) and t.id == cur:
                    if isinstance(a.value, (ast.List, ast.Set)) and not a.value.elts:
                        return st.set(cur, C_EMPTY)
        if node.kind == "stmt" and isinstance(a, ast.Expr) and isinstance(a.value, ast.Call) \
                and call_attr(a.value) in ("append", "add") and isinstance(a.value.func.value, ast.Name) \
                and a.value.func.value.id == cur:
            return st.set(cur, C_NONEMPTY)
        if node.kind == "stmt" and isinstance(a, ast.AugAssign) and isinstance(a.target, ast.Name):
            v = st.get(a.target.id)
            if v != TOP and v[0] == "const" and isinstance(v[1], int):
                return st.set(a.target.id, const(min(1, v[1] + 1)))   # counter abstraction {0, >0}
        return None

    ev = AbsEval(db, m, cfg, stmt_hook=stmt_hook)
    base_edge = ev.edge_transfer
    base_truth = truth

    def my_refine(test, st, outcome):
        # emptiness tests on `current` / the accumulated set: `x`, `len(x)`, `len(x) == 0`, `len(x) > 0`, `x == []`
        if isinstance(test, ast.Call) and dotted(test.func) == "len" and len(test.args) == 1:
            return my_refine(test.args[0], st, outcome)
        if isinstance(test, ast.Compare) and len(test.ops) == 1:
            l, r, op = test.left, test.comparators[0], test.ops[0]
            zero = isinstance(r, ast.Constant) and r.value == 0
            empty_lit = isinstance(r, (ast.List, ast.Tuple)) and not r.elts
            if isinstance(l, ast.Call) and dotted(l.func) == "len" and len(l.args) == 1 and zero:
                if isinstance(op, ast.Eq):
                    return my_refine(l.args[0], st, not outcome)
                if isinstance(op, (ast.Gt, ast.NotEq)):
                    return my_refine(l.args[0], st, outcome)
            if empty_lit and ev.var_key(l) in (cur, ACC):
                if isinstance(op, ast.Eq):
                    return my_refine(l, st, not outcome)
                if isinstance(op, ast.NotEq):
                    return my_refine(l, st, outcome)
        k = ev.var_key(test)
        if k in (cur, ACC):
            v = st.get(k)
            if v in (C_EMPTY, S_EMPTY):
                return st if not outcome else None
            if v in (C_NONEMPTY,):
                return st if outcome else None
            if v in (S_SEED, S_SUBSET, S_OTHER, S_INIT, S_LOSSY):
                if not outcome:
                    return st.set(k, S_EMPTY)
                return st
            return st
        return "default"

    orig_refine = ev.refine

    def refine(test, st, outcome):
        if isinstance(test, ast.UnaryOp) and isinstance(test.op, ast.Not):
            return refine(test.operand, st, not outcome)
        r = my_refine(test, st, outcome)
        if r == "default":
            return orig_refine(test, st, outcome)
        return r
    ev.refine = refine

    def edge_transfer(e: Edge, node: Node, st_in, st_out):
        if e.kind != "n":
            return None
        if node.id == outer.id:
            k = st_in.get("$k")[1]
            if e.label == "iter":
                # start of an iteration: check the state the previous iteration left
                if k > 0:
                    _judge_iteration_end(st_in, k - 1)
                return st_out.set("$k", const(min(2, k + 1))).set("$touched", FALSE).set(cur, TOP).set("$seeded", FALSE)
            if e.label == "done":
                if k > 0:
                    _judge_iteration_end(st_in, k - 1)
                finals.add((st_in.get(ACC), k))
                return st_out
        return base_edge(e, node, st_in, st_out)

    def _judge_iteration_end(st, idx):
        ss, touched, c = st.get(ACC), st.get("$touched"), st.get(cur)
        first = idx == 0
        if ss == S_LOSSY:
            violations.append(("lossy", "rows of different universal values are compared by a key that does not determine the "
                                        "row (values()/keys() only): a binding is kept because some *other* binding of the same "
                                        "objects holds for the next universal value", 0))
        elif ss == S_OTHER:
            violations.append(("grow", "the accumulated set is replaced by something that is not a filter of itself by "
                                       "the current value's bindings (it can grow)", 0))
        elif touched == FALSE and ss != S_EMPTY:
            violations.append(("skip", "an iteration can complete and continue without constraining the accumulated set "
                                       "(a universal value is skipped)", 0))
        elif first and (ss == S_SUBSET or (ss == S_EMPTY and c == C_NONEMPTY and st.get("$seeded") != TRUE)):
            violations.append(("first", "the first universal value filters the (empty) initial set instead of seeding it", 0))
        elif (not first) and ss == S_SEED:
            violations.append(("reseed", "a later universal value re-seeds the accumulated set instead of intersecting", 0))
        elif c == C_EMPTY and ss not in (S_EMPTY,):
            violations.append(("emptyvalue", "a universal value with no satisfying binding does not empty the result", 0))

    init = State({ACC: S_INIT, "$k": const(0), "$touched": FALSE, "$seeded": FALSE, "sources": TOP})
    # breaks out of the outer loop also end an iteration: judge them at the statement after the loop via `finals`
    IN = run_forward(cfg, init, ev.transfer, edge_transfer, kinds=("n",))
    # states arriving after the loop through `break`
    after = [e.dst for e in cfg.succ[outer.id] if e.label == "done"]
    for n in cfg.nodes:
        if n.kind == "stmt" and isinstance(n.ast, ast.Break) and any(x is n.ast for s in outer.ast.body for x in ast.walk(s)) \
                and not any(x is n.ast for x in ast.walk(inner.ast)):
            for st in IN[n.id]:
                k = st.get("$k")[1]
                ss = st.get(ACC)
                finals.add((ss, k))
                if k > 0:
                    _judge_iteration_end(st, k - 1)
                if ss != S_EMPTY:
                    violations.append(("break", f"the loop over the universal values can stop early (line {n.lineno}) while "
                                                f"the accumulated set is not empty: later values are not checked", n.lineno))
    # obligations
    reset_ok = all(st.get(ACC) in (S_EMPTY,) for st in IN[outer.id] if st.get("$k") == const(0))
    out.append(inst("FORALL-MONOTONE", HOLDS if reset_ok else VIOLATION, m, "ForAll._evaluate__[reset at entry]",
                    "the accumulated set is emptied before the first universal value" if reset_ok else
                    "the accumulated set can enter the loop with what a previous evaluation left"))
    kinds = sorted({v[0] for v in violations})
    msgs = {v[0]: v[1] for v in violations}
    for k, label in (("grow", "only ever shrinks"), ("skip", "no universal value skipped"), ("first", "first value seeds"),
                     ("reseed", "later values intersect"), ("emptyvalue", "empty value empties the result"),
                     ("lossy", "rows compared by a key that determines them"),
                     ("break", "early exit only when empty")):
        bad = k in kinds
        out.append(inst("FORALL-MONOTONE", VIOLATION if bad else HOLDS, m, f"ForAll._evaluate__[{label}]",
                        msgs[k] if bad else f"holds on every path through an iteration of the loop over universal values"))
    # the final yield iterates the accumulated set
    ylds = [n for n in cfg.nodes if n.has_yield and not n.region]
    post_loops = [n for n in cfg.nodes if n.kind == "for" and n.id not in (outer.id, inner.id)]
    ok = any(acc in unparse(l.ast.iter) for l in post_loops) and bool(ylds)
    out.append(inst("FORALL-MONOTONE", HOLDS if ok else VIOLATION, m, "ForAll._evaluate__[yields the accumulated set]",
                    "after the loop, one row is yielded per remaining binding" if ok else
                    "the rows yielded are not the accumulated set"))
    return out


def rule_forall_per_value(db: ProgramDB) -> List[Instance]:
    out = []
    m, cfg, acc, outer, inner, cur, derived = forall_model(db)
    # the condition is evaluated under a binding that extends `sources` with the loop value
    call = inner.ast.iter
    arg = call.args[0] if call.args else None
    tnames = {x.id for x in ast.walk(outer.ast.target) if isinstance(x, ast.Name)}
    ok = False
    why = ""
    if isinstance(arg, ast.Name):
        ds = [d for d in local_defs(m).get(arg.id, []) if isinstance(d, ast.AST)]
        for d in ds:
            src = unparse(d)
            if _mentions(d, tnames) and "sources" in src:
                ok = True
                why = f"`{arg.id} = {src}`"
    elif arg is not None and _mentions(arg, tnames) and "sources" in unparse(arg):
        ok = True
        why = unparse(arg)
    out.append(inst("FORALL-PER-VALUE", HOLDS if ok else VIOLATION, m, "ForAll._evaluate__[condition binding]",
                    f"the condition is evaluated under {why}: the incoming binding extended with the universal value" if ok else
                    "the condition is not evaluated under the incoming binding extended with the current universal value",
                    line=inner.lineno))
    # false condition rows are skipped before accumulation
    from ..boolexpr import guards_of
    apps = [c for c in ast.walk(inner.ast) if isinstance(c, ast.Call) and call_attr(c) in ("append", "add")
            and isinstance(c.func.value, ast.Name) and c.func.value.id == cur]
    for a in apps:
        g = guards_of(a, inner.ast.body) or []
        skips_false = any("_is_false_" in unparse(t) and pol is False for t, pol in g) or \
            any("_is_false_" in unparse(t) and isinstance(t, ast.UnaryOp) and pol is True for t, pol in g)
        out.append(inst("FORALL-PER-VALUE", HOLDS if skips_false else VIOLATION, m, "ForAll._evaluate__[false rows skipped]",
                        "a binding is accumulated only when the condition is true for it" if skips_false else
                        "bindings for which the condition is false are accumulated as if it held", line=a.lineno))
    return out


def rule_forall_key(db: ProgramDB) -> List[Instance]:
    """Duplicate suppression keys rows on the variables an ancestor requires.  ForAll intersects the condition's rows
    *per universal value*, so the key it requires from its condition must contain the universal variable(s); otherwise a
    row (x) seen for one universal value is suppressed as a duplicate for the next one and drops out of the intersection."""
    out = []
    fa = db.cls("ForAll")
    m = fa.lookup("_required_variables_from_child_")
    if m is None:
        raise AnalysisError("ForAll has no _required_variables_from_child_")
    # follow super() calls along the MRO collecting `if child is self.<side>: required.update(self.<other>._unique_variables_)`
    adds: Set[Tuple[str, str]] = set()
    conditional: List[Tuple[str, str]] = []
    seen = set()

    def scan(fn):
        if fn is None or fn.qualname in seen:
            return
        seen.add(fn.qualname)
        for n in own_nodes(fn.node):
            if isinstance(n, ast.If):
                t = unparse(n.test)
                for side in ("left", "right", "condition", "variable"):
                    if f"child is self.{side}" in t or f"self.{side} is child" in t:
                        # … for EVERY truth the asking node can have (True, False, 'not known yet'): the guard depends on nothing but who asks
                        from ..boolexpr import eval_bool
                        import itertools as _it
                        others: List[str] = []

                        def _atom(e, side=side):
                            u = unparse(e)
                            if u in (f"child is self.{side}", f"self.{side} is child"):
                                return "WHO"
                            if isinstance(e, (ast.Name, ast.Attribute, ast.Compare, ast.Call)):
                                if u not in others:
                                    others.append(u)
                                return u
                            return None

                        class _Any(dict):
                            def __missing__(self, k):
                                return True
                        try:
                            eval_bool(n.test, _atom, _Any())
                            always = all(bool(eval_bool(n.test, _atom, dict(zip(others, vals), WHO=True))) for vals in _it.product([False, True], repeat=len(others)))
                        except AnalysisError:
                            always = False
                        if not always:
                            conditional.append((side, unparse(n.test)))
                            continue
                        for c in ast.walk(ast.Module(body=n.body, type_ignores=[])):
                            if isinstance(c, ast.Call) and call_attr(c) in ("update", "add", "union"):
                                for a in c.args:
                                    for x in ast.walk(a):
                                        if isinstance(x, ast.Attribute) and x.attr == "_unique_variables_" and \
                                                isinstance(x.value, ast.Attribute) and isinstance(x.value.value, ast.Name) \
                                                and x.value.value.id == "self":
                                            adds.add((side, x.value.attr))
            if isinstance(n, ast.Call) and call_attr(n) == "_required_variables_from_child_" and isinstance(n.func.value, ast.Call) \
                    and isinstance(n.func.value.func, ast.Name) and n.func.value.func.id == "super":
                idx = [k.qualname for k in fn.cls.mro].index(fn.cls.qualname) if fn.cls else 0
                for k in fa.mro:
                    if k.qualname == fn.cls.qualname:
                        continue
                for k in fa.mro[[c.qualname for c in fa.mro].index(fn.cls.qualname) + 1:]:
                    if "_required_variables_from_child_" in k.methods:
                        scan(k.methods["_required_variables_from_child_"])
                        break
    scan(m)
    norm = {"condition": "right", "variable": "left"}
    adds_n = {(norm.get(a, a), norm.get(b, b)) for a, b in adds}
    ok2 = ("right", "right") in adds_n
    out.append(inst("FORALL-KEY", HOLDS if ok2 else VIOLATION, m, "ForAll._required_variables_from_child_[condition keyed by its own variables]",
                    "the rows required from the condition are keyed by every variable of the condition (they are intersected on them)" if ok2 else
                    "the rows ForAll requires from its condition are not keyed by the condition's own variables: a variable that only "
                    "the condition mentions (not selected, not used elsewhere) is not part of the duplicate-suppression key, so a "
                    "disjunction in the condition drops the rows that differ only in it - for_all(u, or_(x.a > u.c, y.a > u.c)) with "
                    "only x selected loses the y that satisfies the condition for every u"))
    ok = ("right", "left") in adds_n
    out.append(inst("FORALL-KEY", HOLDS if ok else VIOLATION, m, "ForAll._required_variables_from_child_[condition keyed by universal variable]",
                    "the rows required from the condition are keyed by the universal variable as well" if ok else
                    f"ForAll requires from its condition only what its ancestors require (effective implementation "
                    f"{m.short} adds {sorted(adds_n)}): the universal variable is not part of the duplicate-suppression key, "
                    f"so when the condition suppresses duplicates itself (a disjunction) a row seen for one universal value "
                    f"is dropped for the next and falls out of the intersection" +
                    (f" (the additions under `{conditional[0][1]}` do not count: they depend on more than on who asks - an and_ inside the condition asks with "
                     f"'truth not known yet', and for that the key is left without the universal variable)" if conditional else "")))
    return out


def rule_forall_nonliteral(db: ProgramDB) -> List[Instance]:
    """The variables ForAll projects the condition's rows onto exclude literals (a literal is bound or not depending on
    the branch / cache that produced the row).  Cross-check with the sibling computations of key-variable sets."""
    out = []
    fa = db.cls("ForAll")
    m = fa.lookup("condition_unique_variable_ids")
    if m is None:
        raise AnalysisError("ForAll.condition_unique_variable_ids not found")
    from ..boolexpr import eval_bool, guards_of

    def included(kind: str) -> bool:
        """is an element of this kind ('literal' | 'predicate' | 'plain') kept in the key?"""
        def atom(e):
            if isinstance(e, ast.Call) and dotted(e.func) == "isinstance" and len(e.args) == 2:
                if unparse(e.args[1]).endswith("Literal") and isinstance(e.args[0], ast.Attribute) and e.args[0].attr == "value":
                    return "L"
                return "other:" + unparse(e)
            if any(isinstance(x, ast.Attribute) and x.attr == "_predicate_type_" for x in ast.walk(e)) or \
                    any(isinstance(x, ast.Constant) and x.value == "_predicate_type_" for x in ast.walk(e)):
                if isinstance(e, (ast.Attribute, ast.Call)):
                    return "P"
            return None
        env = {"L": kind == "literal", "P": kind == "predicate"}
        comps = [n for n in own_nodes(m.node) if isinstance(n, (ast.ListComp, ast.GeneratorExp, ast.SetComp))]
        if comps:
            c = comps[0]
            return all(bool(eval_bool(t, atom, env)) for g in c.generators for t in g.ifs)
        loops = [n for n in own_nodes(m.node) if isinstance(n, ast.For)]
        for loop in loops:
            apps = [st for st in ast.walk(loop) if isinstance(st, ast.Expr) and isinstance(st.value, ast.Call)
                    and call_attr(st.value) in ("append", "add")]
            for st in apps:
                g = guards_of(st, loop.body) or []
                return all(bool(eval_bool(t, atom, env)) == pol for t, pol in g)
        raise AnalysisError("condition_unique_variable_ids: neither a comprehension nor an accumulating loop")
    for kind, why in (("literal", "a literal is bound or not depending on the branch / cache that produced the row"),
                      ("predicate", "the result of a predicate is determined by its arguments and differs per universal value: "
                                    "for_all(c, f(c)) with a predicate that returns different truthy values yields nothing")):
        try:
            inc = included(kind)
        except AnalysisError as e:
            out.append(inst("FORALL-NONLITERAL", UNDECIDED, m, f"ForAll.condition_unique_variable_ids[{kind}s excluded]", str(e)))
            continue
        out.append(inst("FORALL-NONLITERAL", VIOLATION if inc else HOLDS, m, f"ForAll.condition_unique_variable_ids[{kind}s excluded]",
                        f"{kind} pseudo-variables are not part of the key the rows of different universal values are compared on" if not inc else
                        f"{kind} pseudo-variables are part of the key the rows of different universal values are compared on: {why}"))
    try:
        plain = included("plain")
    except AnalysisError:
        plain = True
    if not plain:
        out.append(inst("FORALL-NONLITERAL", VIOLATION, m, "ForAll.condition_unique_variable_ids[plain variables kept]",
                        "ordinary variables are excluded from the key as well: rows are then compared on nothing"))
    # siblings (informational cross-check)
    for q in ("symbolic:BinaryOperator.__post_init__", "symbolic:LogicalOperator.__post_init__", "symbolic:_optimize_or",
              "conclusion_selector:ConclusionSelector.update_conclusion"):
        f = db.fn(q, required=False)
        if f is None:
            continue
        calls = [n for n in own_nodes(f.node) if isinstance(n, ast.Call) and dotted(n.func) == "isinstance"
                 and len(n.args) == 2 and unparse(n.args[1]).endswith("Literal")]
        for c in calls:
            good = isinstance(c.args[0], ast.Attribute) and c.args[0].attr == "value"
            out.append(inst("FORALL-NONLITERAL", INFO, f, f"{f.short}[{unparse(c)}]",
                            "sibling key computation excludes literals" if good else
                            f"deviant sibling: `{unparse(c)}` tests the HashedValue wrapper, not the wrapped variable, so it "
                            f"never excludes a literal (only makes this cache less effective; no behavioural consequence found)",
                            line=c.lineno))
    return out


def rule_forall_total_rows(db: ProgramDB) -> List[Instance]:
    """Rows of different universal values can only be intersected if each binds *all* the non-universal variables: a
    branch of the condition that holds without mentioning a variable leaves it unbound (= holds for all its values)."""
    out = []
    m, cfg, acc, outer, inner, cur, derived = forall_model(db)
    # what is appended to `current`: must derive from a row completed over the unbound variables
    apps = [c for c in ast.walk(inner.ast) if isinstance(c, ast.Call) and call_attr(c) in ("append", "add")
            and isinstance(c.func.value, ast.Name) and c.func.value.id == cur]
    fa = db.cls("ForAll")
    completing = None
    for loop in [n for n in ast.walk(inner.ast) if isinstance(n, ast.For) and n is not inner.ast]:
        it = loop.iter
        if isinstance(it, ast.Call) and isinstance(it.func, ast.Attribute) and isinstance(it.func.value, ast.Name) \
                and it.func.value.id == "self":
            h = fa.lookup(it.func.attr)
            if h is not None and _is_completion_helper(h) and any(x is a for a in apps for x in ast.walk(loop)):
                completing = h
    ok = completing is not None
    out.append(inst("FORALL-TOTAL-ROWS", HOLDS if ok else VIOLATION, m, "ForAll._evaluate__[rows completed before intersection]",
                    f"each row of the condition is completed by `{completing.name}` (evaluates the non-universal variables the "
                    f"row leaves unbound) before it is accumulated" if ok else
                    "rows are accumulated as the condition yields them: a branch that holds without mentioning one of the "
                    "other variables yields a row that does not bind it, and intersecting it with rows that do bind it gives "
                    "nothing (for_all(u, or_(u.m > 1, x.m == 2)) returns [] as soon as some u has m > 1)"))
    if completing is not None:
        out.extend(_completion_keeps_earlier(db, completing))
        # what is accumulated is the COMPLETED row (the target of the completing loop), not the row the condition yielded
        defs = local_defs(m)
        for loop in [n for n in ast.walk(inner.ast) if isinstance(n, ast.For) and isinstance(n.iter, ast.Call) and call_attr(n.iter) == completing.name]:
            tnames = {x.id for x in ast.walk(loop.target) if isinstance(x, ast.Name)}

            def derives(e, depth=0, seen=frozenset()) -> bool:
                for x in ast.walk(e):
                    if isinstance(x, ast.Name) and isinstance(x.ctx, ast.Load):
                        if x.id in tnames:
                            return True
                        if x.id not in seen and depth < 4:
                            for d in defs.get(x.id, []):
                                dd = d[1] if isinstance(d, tuple) else d
                                if isinstance(dd, ast.AST) and derives(dd, depth + 1, seen | {x.id}):
                                    return True
                return False
            for a in apps:
                if not any(x is a for x in ast.walk(loop)):
                    continue
                ok2 = any(derives(arg) for arg in a.args)
                out.append(inst("FORALL-TOTAL-ROWS", HOLDS if ok2 else VIOLATION, m, "ForAll._evaluate__[the completed row is what is accumulated]",
                                f"`{unparse(a)[:50]}` accumulates a row built from `{', '.join(sorted(tnames))}`, the completed row" if ok2 else
                                f"`{unparse(a)[:50]}` sits in the loop over `{completing.name}(…)` but accumulates a row that is not built from its target "
                                f"`{', '.join(sorted(tnames))}`: the row as the condition yielded it is kept, once per completion, and the variables it leaves "
                                f"unbound stay unbound - it falls out of the intersection with the rows of the other universal values", line=a.lineno))
        # the completion is total: a row leaves the helper only when no variable is left (after the loop over the variables, or through
        # the recursive call for the extended binding) - never from inside the loop that has just bound ONE of them
        rec = [c for c in own_calls(completing) if call_attr(c) == completing.name]
        plain_in_loop = [y for l in own_nodes(completing.node) if isinstance(l, ast.For) for s_ in l.body for y in ast.walk(s_)
                         if isinstance(y, ast.Yield)]
        ok3 = bool(rec) and not plain_in_loop
        out.append(inst("FORALL-TOTAL-ROWS", HOLDS if ok3 else VIOLATION, completing, f"{completing.short}[every unbound variable is completed]",
                        "a binding is extended by one variable and handed to the helper again; rows are yielded only after the loop over the variables found nothing unbound" if ok3 else
                        (f"`yield {unparse(plain_in_loop[0].value)[:40]}` (line {plain_in_loop[0].lineno}) hands a row on from inside the loop that has bound ONE "
                         f"unbound variable: a row of the condition that leaves two variables unbound is completed for the first only, and falls out of the intersection "
                         f"(or_(A, B) inside for_all differs from or_(B, A))" if plain_in_loop else
                         f"`{completing.name}` does not call itself for the extended binding: only the first unbound variable is completed"),
                        line=plain_in_loop[0].lineno if plain_in_loop else completing.lineno))
    return out


def _completion_keeps_earlier(db: ProgramDB, h: FuncInfo) -> List[Instance]:
    """Inside the completion helper every value stream `v._evaluate…(copy(X))` is started under the binding X completed so
    far, and every row built from a value of that stream contains the whole of X and the whole value: completing a second
    unbound variable must not lose the first."""
    from .binding import _whole_names, _outputs_of_loop
    out = []

    def started_under(call: ast.Call) -> Optional[str]:
        args = list(call.args) + [k.value for k in call.keywords]
        for a in args:
            if isinstance(a, ast.Name):
                return a.id
            if isinstance(a, ast.Call) and (dotted(a.func) or "") in ("copy", "dict", "copy.copy") and a.args and isinstance(a.args[0], ast.Name):
                return a.args[0].id
            if isinstance(a, ast.Dict) and any(k is None and isinstance(v, ast.Name) for k, v in zip(a.keys, a.values)):
                return next(v.id for k, v in zip(a.keys, a.values) if k is None and isinstance(v, ast.Name))
        return None

    def whole_in_expr(e: ast.AST, names: Set[str]) -> bool:
        if isinstance(e, ast.Name):
            return e.id in names
        if isinstance(e, ast.Dict):
            return any(k is None and whole_in_expr(v, names) for k, v in zip(e.keys, e.values))
        if isinstance(e, ast.Call) and (dotted(e.func) or "") in ("copy", "dict", "copy.copy") and e.args:
            return whole_in_expr(e.args[0], names)
        return False
    n = 0
    for node in own_nodes(h.node):
        # for-statement form
        if isinstance(node, ast.For) and isinstance(node.iter, ast.Call) and is_eval_method_name(call_attr(node.iter)) \
                and isinstance(node.target, ast.Name):
            x = started_under(node.iter)
            if x is None:
                continue
            n += 1
            a = _whole_names(h, node, {node.target.id})
            b = _whole_names(h, node, {x})
            for onode, exprs in _outputs_of_loop(h, node):
                ok = any(whole_in_expr(e, a) and whole_in_expr(e, b) for e in exprs)
                out.append(inst("FORALL-TOTAL-ROWS", HOLDS if ok else VIOLATION, h, f"{h.short}[row built from a value of {unparse(node.iter)[:36]}]",
                                f"contains the binding `{x}` completed so far and the value" if ok else
                                f"`{unparse(onode)[:60]}` does not hand on both the binding `{x}` the value stream was started under "
                                f"and the value `{node.target.id}`: a row that leaves two variables unbound is completed with the "
                                f"last one only, and falls out of the intersection", line=onode.lineno))
        # comprehension form
        if isinstance(node, (ast.ListComp, ast.GeneratorExp, ast.SetComp)):
            for g in node.generators:
                if isinstance(g.iter, ast.Call) and is_eval_method_name(call_attr(g.iter)) and isinstance(g.target, ast.Name):
                    x = started_under(g.iter)
                    if x is None:
                        continue
                    n += 1
                    ok = whole_in_expr(node.elt, {x}) and whole_in_expr(node.elt, {g.target.id})
                    out.append(inst("FORALL-TOTAL-ROWS", HOLDS if ok else VIOLATION, h, f"{h.short}[row built from a value of {unparse(g.iter)[:36]}]",
                                    f"contains the binding `{x}` completed so far and the value" if ok else
                                    f"`{unparse(node.elt)[:60]}` does not contain both the binding `{x}` the value stream was started "
                                    f"under and the value `{g.target.id}`: a row that leaves two variables unbound is completed with "
                                    f"the last one only, and falls out of the intersection", line=node.lineno))
    if n == 0:
        out.append(inst("FORALL-TOTAL-ROWS", UNDECIDED, h, f"{h.short}[value streams]", "no value stream started under a named binding found in the completion helper"))
    return out


def _is_completion_helper(h: FuncInfo) -> bool:
    has_not_in = any(isinstance(n, ast.Compare) and any(isinstance(o, ast.NotIn) for o in n.ops) for n in own_nodes(h.node))
    evaluates = any(isinstance(n, ast.Call) and is_eval_method_name(call_attr(n)) for n in own_nodes(h.node))
    return h.is_generator and has_not_in and evaluates


# ---------------------------------------------------------------------------------- ROW-KEY-CANONICAL
def rule_row_key_canonical(db: ProgramDB) -> List[Instance]:
    """Rows are dicts that are built up in whatever order the operators bind the variables, so two rows with the same
    content can list their items in different orders.  Wherever the content of a mapping is turned into a hashable key
    (set element, membership test, hash) the key has to be independent of that order: sorted(...) or frozenset(...)."""
    out = []
    n = 0
    for fn in db.all_functions():
        parents = {id(ch): par for par in ast.walk(fn.node) for ch in ast.iter_child_nodes(par)}
        for x in own_nodes(fn.node):
            if not (isinstance(x, ast.Call) and dotted(x.func) in ("tuple", "list", "frozenset", "sorted") and len(x.args) >= 1):
                continue
            a = x.args[0]
            if not (isinstance(a, ast.Call) and call_attr(a) in ("items", "keys", "values") and not a.args):
                continue
            # climb through order-free / order-fixing wrappers
            top = x
            canonical = dotted(x.func) in ("frozenset", "sorted")
            while True:
                par = parents.get(id(top))
                if isinstance(par, ast.Call) and dotted(par.func) in ("tuple", "list", "sorted", "frozenset") and par.args and par.args[0] is top:
                    canonical = canonical or dotted(par.func) in ("sorted", "frozenset")
                    top = par
                    continue
                break
            par = parents.get(id(top))
            as_key = (isinstance(par, ast.SetComp) and par.elt is top) or isinstance(par, ast.Set) \
                or (isinstance(par, ast.Compare) and par.left is top and len(par.ops) == 1 and isinstance(par.ops[0], (ast.In, ast.NotIn))) \
                or (isinstance(par, ast.Call) and dotted(par.func) == "hash") \
                or (isinstance(par, ast.Call) and call_attr(par) in ("add", "discard", "remove") and par.args and par.args[0] is top
                    and "set" in unparse(par.func.value).lower()) \
                or (isinstance(par, ast.Subscript) and par.slice is top) \
                or (isinstance(par, ast.DictComp) and par.key is top)
            if not as_key:
                continue
            if x is not top and dotted(x.func) in ("tuple", "list") and canonical is False:
                pass
            n += 1
            if any(o.construct.startswith(f"{fn.short}[{unparse(top)[:50]}") for o in out):
                continue
            out.append(inst("ROW-KEY-CANONICAL", HOLDS if canonical else VIOLATION, fn, f"{fn.short}[{unparse(top)[:50]}]",
                            "the key does not depend on the order of the items" if canonical else
                            f"`{unparse(top)}` is used as a key and lists the items in the order the mapping happens to hold them: two rows with "
                            f"the same bindings built in another order (the other operand of an and_ bound first) are different keys, so an "
                            f"intersection over them drops rows that agree", line=top.lineno))
    if n == 0:
        raise AnalysisError("no hashable key built from the content of a mapping found")
    return out
