"""
OPDEN / CMP-TRUTH / OPERAND-VALUES: the public condition vocabulary denotes the ordinary Python
operator, end to end (C01, C18).
"""
from __future__ import annotations

import ast
import itertools
from typing import Dict, List, Optional, Tuple

from ..db import ProgramDB, FuncInfo, ClassInfo, AnalysisError, unparse, own_nodes, dotted
from ..facts import local_defs, returns_of, bind_args, fn_params, resolve_call_target, own_calls, call_attr, is_cache_switch_call
from ..framework import inst, HOLDS, VIOLATION, UNDECIDED, INFO, Instance
from ..abseval import AbsEval, State, const, TOP, TRUE, FALSE, truth
from ..cfg import CFG

# operator function -> (relation, swap): op(a, b) means  a REL b  (swap False)  or  b REL a (swap True)
OPS = {
    "operator.lt": ("<", False), "operator.le": ("<=", False), "operator.gt": (">", False),
    "operator.ge": (">=", False), "operator.eq": ("==", False), "operator.ne": ("!=", False),
    "operator.contains": ("in", True),     # contains(a, b)  ==  b in a
    "operator.is_": ("is", False), "operator.is_not": ("is not", False),
}
MIRROR = {">": "<", ">=": "<=", "<": ">", "<=": ">="}
SYMMETRIC = {"==", "!="}


def normalise(rel: str, x: str, y: str) -> Tuple[str, Tuple[str, ...]]:
    """canonical form: only <, <=, ==, !=, in; symmetric relations get a sorted operand pair."""
    if rel in (">", ">="):
        rel, x, y = MIRROR[rel], y, x
    if rel in SYMMETRIC:
        x, y = sorted((x, y))
    return rel, (x, y)


def comparator_application_order(db: ProgramDB) -> Tuple[str, str, FuncInfo]:
    """Which operand value `Comparator` passes first / second to its operation."""
    comp = db.cls("Comparator")
    cands = []
    for c in comp.mro:
        for m in c.methods.values():
            for call in own_calls(m):
                f = call.func
                if isinstance(f, ast.Attribute) and f.attr == "operation" and isinstance(f.value, ast.Name) \
                        and f.value.id == "self":
                    cands.append((m, call))
    if len(cands) != 1:
        raise AnalysisError(f"expected exactly one application `self.operation(...)` in Comparator, found {len(cands)}")
    m, call = cands[0]
    if len(call.args) != 2 or call.keywords:
        raise AnalysisError(f"`{unparse(call)}`: operation not applied to two positional operands")
    order = []
    defs = local_defs(m)
    for a in call.args:
        # a local that is assigned once stands for its defining expression
        seen = 0
        while isinstance(a, ast.Name) and seen < 4:
            ds = [d for d in defs.get(a.id, []) if isinstance(d, ast.AST)]
            if len(ds) != 1:
                break
            a = ds[0]
            seen += 1
        fields = {n.attr for n in ast.walk(a) if isinstance(n, ast.Attribute) and isinstance(n.value, ast.Name)
                  and n.value.id == "self" and n.attr in ("left", "right")}
        if len(fields) != 1:
            raise AnalysisError(f"operand `{unparse(a)}` of `{unparse(call)}` does not name exactly one of left/right")
        order.append(fields.pop())
    if set(order) != {"left", "right"}:
        raise AnalysisError(f"`{unparse(call)}` applies the operation to {order}")
    return order[0], order[1], m


def denote(db: ProgramDB, fn: FuncInfo, order: Tuple[str, str], depth=0) -> List[Tuple[str, Tuple[str, ...], ast.AST]]:
    """Denotations of every `return` of fn as (relation, (x, y), node) over fn's positional parameter indices
    written 'p0', 'p1', ...  (p0 is self for methods)."""
    if depth > 3:
        raise AnalysisError(f"{fn.qualname}: delegation chain too deep")
    params = [p for p in fn.positional_params]
    pidx = {p: f"p{i}" for i, p in enumerate(params)}
    comp = db.cls("Comparator")
    out = []
    rets = [r for r in returns_of(fn) if r.value is not None]
    if not rets:
        raise AnalysisError(f"{fn.qualname} returns nothing")
    for r in rets:
        v = r.value
        if not isinstance(v, ast.Call):
            raise AnalysisError(f"{fn.qualname}: `return {unparse(v)}` is not a construction")
        tgt = resolve_call_target(db, fn, v)
        if isinstance(tgt, ClassInfo) and tgt.is_subclass_of(comp):
            amap = bind_args(tgt.init_params(), v)
            for need in ("left", "right", "operation"):
                if need not in amap:
                    raise AnalysisError(f"{fn.qualname}: `{unparse(v)}` does not give `{need}`")
            opr = db.resolve_dotted(fn.module, amap["operation"])
            if not (isinstance(opr, tuple) and opr[0] == "ext" and opr[1] in OPS):
                raise AnalysisError(f"{fn.qualname}: operation `{unparse(amap['operation'])}` is not a known operator")
            operands = {}
            for side in ("left", "right"):
                e = amap[side]
                if isinstance(e, ast.Name) and e.id in pidx:
                    operands[side] = pidx[e.id]
                else:
                    raise AnalysisError(f"{fn.qualname}: operand `{unparse(e)}` is not a parameter")
            rel, swap = OPS[opr[1]]
            first, second = operands[order[0]], operands[order[1]]
            x, y = (second, first) if swap else (first, second)
            out.append(normalise(rel, x, y) + (r,))
        elif isinstance(tgt, FuncInfo):
            amap = bind_args(fn_params(tgt), v)
            callee_params = tgt.positional_params
            sub = {}
            for i, p in enumerate(callee_params):
                if p in amap and isinstance(amap[p], ast.Name) and amap[p].id in pidx:
                    sub[f"p{i}"] = pidx[amap[p].id]
            for rel, (x, y), _ in denote(db, tgt, order, depth + 1):
                if x not in sub or y not in sub:
                    raise AnalysisError(f"{fn.qualname}: delegation `{unparse(v)}` does not pass parameters through")
                out.append(normalise(rel, sub[x], sub[y]) + (r,))
        else:
            raise AnalysisError(f"{fn.qualname}: `return {unparse(v)}` does not resolve to Comparator or a package function")
    return out


DUNDERS = {"__lt__": "<", "__le__": "<=", "__gt__": ">", "__ge__": ">=", "__eq__": "==", "__ne__": "!="}


def rule_opden(db: ProgramDB) -> List[Instance]:
    out = []
    left_right = comparator_application_order(db)
    order = left_right[:2]
    out.append(inst("OPDEN", INFO, left_right[2], "Comparator.apply-order",
                    f"Comparator applies operation({order[0]} value, {order[1]} value)"))
    cbv = db.cls("CanBehaveLikeAVariable")
    for name, rel in DUNDERS.items():
        m = cbv.lookup(name)
        if m is None:
            out.append(inst("OPDEN", UNDECIDED, cbv, f"CanBehaveLikeAVariable.{name}",
                            "operator hook not defined: anchor vanished"))
            continue
        want = normalise(rel, "p0", "p1")
        try:
            dens = denote(db, m, order)
        except AnalysisError as e:
            out.append(inst("OPDEN", UNDECIDED, m, f"CanBehaveLikeAVariable.{name}", str(e)))
            continue
        for got_rel, got_ops, node in dens:
            ok = (got_rel, got_ops) == want
            out.append(inst("OPDEN", HOLDS if ok else VIOLATION, m, f"CanBehaveLikeAVariable.{name}",
                            f"`x {rel} y` builds a comparison that evaluates `{_show(got_rel, got_ops, 'x', 'y')}`"
                            + ("" if ok else f"; Python semantics require `{_show(*want, 'x', 'y')}`"),
                            line=node.lineno))
    # membership: in_(item, container) and contains(container, item) both denote `item in container`
    for fname, want in (("in_", ("in", ("p0", "p1"))), ("contains", ("in", ("p1", "p0")))):
        f = db.fn(f"entity:{fname}", required=False)
        if f is None:
            out.append(inst("OPDEN", UNDECIDED, "src/entity_query_language/entity.py", f"entity.{fname}",
                            "public membership function not found: anchor vanished"))
            continue
        names = ("item", "container") if fname == "in_" else ("container", "item")
        try:
            dens = denote(db, f, order)
        except AnalysisError as e:
            out.append(inst("OPDEN", UNDECIDED, f, f"entity.{fname}", str(e)))
            continue
        for got_rel, got_ops, node in dens:
            ok = (got_rel, got_ops) == want
            out.append(inst("OPDEN", HOLDS if ok else VIOLATION, f, f"entity.{fname}",
                            f"`{fname}({names[0]}, {names[1]})` evaluates `{_show(got_rel, got_ops, *names)}`"
                            + ("" if ok else f"; documented meaning is `item in container`"), line=node.lineno))
    m = cbv.lookup("__contains__")
    if m is not None:
        out.append(inst("OPDEN", INFO, m, "CanBehaveLikeAVariable.__contains__",
                        "not part of the vocabulary: Python coerces the result of `in` to bool, so it cannot build a "
                        "condition; membership is written with in_/contains"))
    return out


def _show(rel, ops, n0, n1):
    nm = {"p0": n0, "p1": n1}
    return f"{nm.get(ops[0], ops[0])} {rel} {nm.get(ops[1], ops[1])}"


# ---------------------------------------------------------------------------------- CMP-TRUTH
def comparator_truth_profile(db: ProgramDB):
    """For each (res, ywf) run the abstract interpreter over Comparator._evaluate__ and record at every yield that
    follows the application of the operation: is it reachable, and what is self._is_false_ there."""
    m = db.method("Comparator", "_evaluate__")
    cfg = CFG(m)
    app_nodes = [n for n in cfg.nodes if n.ast is not None and n.kind == "stmt" and
                 any(isinstance(c, ast.Call) and call_attr(c) == "apply_operation" for c in ast.walk(n.ast))]
    if len(app_nodes) != 1:
        raise AnalysisError(f"expected one application of the operation in {m.qualname}, found {len(app_nodes)}")
    app = app_nodes[0]
    # yields reachable from the application within the same iteration (without passing a loop head again)
    ywf_param = "yield_when_false"
    results = {}
    after = cfg.reachable([app.id], kinds=("n",), include_starts=False)
    yields = [n for n in cfg.nodes if n.has_yield and n.id in after and not n.region]
    # restrict to yields that are *dominated* by the application (the cache fast-path yields are not)
    dom = cfg.dominators(kinds=("n",))
    yields = [y for y in yields if app.id in dom.get(y.id, set())]
    if not yields:
        raise AnalysisError(f"{m.qualname}: no yield follows the application of the operation")
    for res, ywf in itertools.product([False, True], repeat=2):
        def call_hook(call, st, ev, res=res):
            if call_attr(call) == "apply_operation":
                return const(res)
            if is_cache_switch_call(db, m, call):
                return FALSE
            return None
        ev = AbsEval(db, m, cfg, call_hook=call_hook)
        init = State({ywf_param: const(ywf), "self._yield_when_false_": TOP, "self._is_false_": TOP})
        IN = ev.run(init, kinds=("n",))
        reached = []
        for y in yields:
            for st in IN[y.id]:
                reached.append((y, st.get("self._is_false_")))
        results[(res, ywf)] = reached
    return m, yields, results


def rule_cmp_truth(db: ProgramDB) -> List[Instance]:
    out = []
    m, yields, results = comparator_truth_profile(db)
    for (res, ywf), reached in sorted(results.items()):
        want_yield = res or ywf
        key = f"Comparator._evaluate__[res={res},yield_when_false={ywf}]"
        if want_yield != bool(reached):
            out.append(inst("CMP-TRUTH", VIOLATION, m, key,
                            f"operation returned {res}, false rows requested={ywf}: row "
                            f"{'is emitted' if reached else 'is dropped'}; required: "
                            f"{'emitted' if want_yield else 'dropped'}"))
            continue
        bad = [(y, f) for y, f in reached if truth(f) is None or truth(f) != (not res)]
        if bad:
            y, f = bad[0]
            out.append(inst("CMP-TRUTH", VIOLATION, m, key,
                            f"row emitted with _is_false_={f[1] if f != TOP else 'unknown'} although the operation "
                            f"returned {res}", line=y.lineno))
        else:
            out.append(inst("CMP-TRUTH", HOLDS, m, key,
                            f"{'emitted with _is_false_=' + str(not res) if reached else 'dropped'}"))
    return out


# ---------------------------------------------------------------------------------- OPERAND-VALUES
def rule_operand_values(db: ProgramDB) -> List[Instance]:
    """Every entry of the mapping handed to apply_operation maps X._id_ -> <binding of X>[X._id_] for one operand X."""
    m = db.method("Comparator", "_evaluate__")
    out = []
    calls = [c for c in own_calls(m) if call_attr(c) == "apply_operation"]
    if len(calls) != 1 or len(calls[0].args) != 1 or not isinstance(calls[0].args[0], ast.Name):
        raise AnalysisError("apply_operation is not called once with a named mapping")
    mapname = calls[0].args[0].id
    entries = []
    for n in own_nodes(m.node):
        if isinstance(n, ast.Assign):
            for t in n.targets:
                if isinstance(t, ast.Name) and t.id == mapname and isinstance(n.value, ast.Dict):
                    entries += list(zip(n.value.keys, n.value.values))
                elif isinstance(t, ast.Subscript) and isinstance(t.value, ast.Name) and t.value.id == mapname:
                    entries.append((t.slice, n.value))
        elif isinstance(n, ast.Call) and call_attr(n) == "update" and isinstance(n.func.value, ast.Name) \
                and n.func.value.id == mapname:
            raise AnalysisError(f"`{unparse(n)}`: mapping filled by update(), idiom not in the accepted table")
    if len(entries) < 2:
        raise AnalysisError(f"found {len(entries)} entries stored in `{mapname}`")
    for k, v in entries:
        kk = unparse(k)
        okk = isinstance(k, ast.Attribute) and k.attr == "_id_"
        okv = isinstance(v, ast.Subscript) and unparse(v.slice) == kk
        ok = okk and okv
        out.append(inst("OPERAND-VALUES", HOLDS if ok else VIOLATION, m, f"Comparator._evaluate__[{kk}]",
                        f"operand value for `{kk}` is read as `{unparse(v)}`" +
                        ("" if ok else ": the value compared for an operand must be that operand's own entry "
                                       "(<binding>[<operand>._id_])"), line=getattr(k, "lineno", 0)))
    return out


def rule_operand_in_row(db: ProgramDB) -> List[Instance]:
    """The row a comparator emits maps each operand's id to the value that was actually compared: after the operands'
    bindings are merged, the mapping handed to apply_operation is written over the row (an operand such as concatenate
    re-binds other variables in its own row, which must not replace the compared values)."""
    m = db.method("Comparator", "_evaluate__")
    out = []
    calls = [c for c in own_calls(m) if call_attr(c) == "apply_operation"]
    if len(calls) != 1 or not isinstance(calls[0].args[0], ast.Name):
        raise AnalysisError("apply_operation is not called once with a named mapping")
    mapname = calls[0].args[0].id
    ys = [y for y in own_nodes(m.node) if isinstance(y, ast.Yield) and isinstance(y.value, ast.Name)]
    cfg_y = []
    for y in ys:
        # only the yield that follows the application (inside the operand loops)
        row = y.value.id
        defs = [n for n in own_nodes(m.node) if isinstance(n, ast.Assign) and any(isinstance(t, ast.Name) and t.id == row for t in n.targets)]
        if not defs or row in ("sources",):
            continue
        cfg_y.append((y, row))
    if not cfg_y:
        raise AnalysisError("Comparator._evaluate__: emitted row not found")
    for y, row in cfg_y:
        writes = []
        for n in own_nodes(m.node):
            if isinstance(n, ast.Call) and call_attr(n) == "update" and isinstance(n.func.value, ast.Name) and n.func.value.id == row:
                writes.append(((n.lineno, n.col_offset), unparse(n.args[0]) if n.args else ""))
            elif isinstance(n, ast.Assign) and any(isinstance(t, ast.Name) and t.id == row for t in n.targets):
                v = n.value
                if isinstance(v, ast.Dict):
                    for k, vv in zip(v.keys, v.values):
                        if k is None:
                            writes.append(((vv.lineno, vv.col_offset), unparse(vv)))
                else:
                    writes.append(((n.lineno, n.col_offset), unparse(v)))
        writes.sort(key=lambda w: w[0])
        names = [w for _, w in writes]
        ok = mapname in names and names.index(mapname) == max(i for i, w in enumerate(names) if w)  # last merge
        out.append(inst("OPERAND-IN-ROW", HOLDS if ok else VIOLATION, m, f"Comparator._evaluate__[row {row}]",
                        f"the row is built from {names}: the compared operand values are written last" if ok else
                        f"the row is built from {names} and the compared operand values (`{mapname}`) are not written over it: "
                        f"an operand whose own row re-binds other variables (concatenate aggregates every binding it sees into "
                        f"lists) replaces the value of the other operand in the emitted row", line=y.lineno))
    return out


# ---------------------------------------------------------------------------------- VOCAB-DENOTATION
VOCABULARY = {
    # function -> (constructed class / function, how the parameters map)
    "for_all": ("ForAll", ["p0", "p1"]),
    "flatten": ("Flatten", ["p0"]),
    "concatenate": ("Concatenate", ["p0"]),
    "not_": ("Not", ["p0"]),
}


def rule_vocab_denotation(db: ProgramDB) -> List[Instance]:
    """The vocabulary functions of the user interface are thin: each returns, on every path, the node of its name built from
    its parameters themselves, in order - not from an attribute of a parameter, not wrapped in another node, not the
    parameter handed back unchanged when it 'already is' such a node."""
    out = []
    for fname, (target, want) in sorted(VOCABULARY.items()):
        fn = db.fn(f"entity:{fname}", required=False)
        if fn is None:
            out.append(inst("VOCAB-DENOTATION", UNDECIDED, "", f"entity.{fname}", "function not found"))
            continue
        params = list(fn.positional_params)
        pidx = {p: f"p{i}" for i, p in enumerate(params)}
        rets = [r for r in returns_of(fn) if r.value is not None]
        if not rets:
            out.append(inst("VOCAB-DENOTATION", VIOLATION, fn, f"entity.{fname}", "returns nothing"))
            continue
        bad = None
        defs = local_defs(fn)
        rebound = [a for a in own_nodes(fn.node) if isinstance(a, (ast.Assign, ast.AugAssign, ast.AnnAssign)) and any(
            isinstance(t, ast.Name) and t.id in params[:len(want)] for t in (a.targets if isinstance(a, ast.Assign) else [a.target]))]
        if rebound:
            out.append(inst("VOCAB-DENOTATION", VIOLATION, fn, f"entity.{fname}",
                            f"`{unparse(rebound[0])[:70]}` replaces the argument before the node is built: {target}(…) is then built from something other than "
                            f"what the caller passed (the selected variable of a quantified sub-query without its conditions, an unwrapped value)",
                            line=rebound[0].lineno))
            continue
        for r in rets:
            v = r.value
            ok = False
            if isinstance(v, ast.Name) and v.id not in params:
                ds = [d for d in defs.get(v.id, []) if isinstance(d, ast.AST)]
                if len(ds) == 1 and len(defs.get(v.id, [])) == 1:
                    v = ds[0]           # a local assigned once: what is returned is what it was assigned
            if isinstance(v, ast.Call) and (dotted(v.func) or "").split(".")[-1] == target:
                t = resolve_call_target(db, fn, v)
                names = None
                if isinstance(t, ClassInfo):
                    names = [p for p, kw in t.init_params() if not kw]
                elif isinstance(t, FuncInfo):
                    names = [p for p, kw in fn_params(t, drop_self=False) if not kw]
                if names is not None:
                    try:
                        amap = bind_args([(n, False) for n in names], v)
                    except AnalysisError:
                        amap = {}
                    got = [amap.get(n) for n in names[:len(want)]]
                    ok = len(amap) == len(want) and all(isinstance(a, ast.Name) and pidx.get(a.id) == w for a, w in zip(got, want))
            if not ok:
                bad = r
                break
        out.append(inst("VOCAB-DENOTATION", HOLDS if bad is None else VIOLATION, fn, f"entity.{fname}",
                        f"every path returns {target}({', '.join(params[:len(want)])})" if bad is None else
                        f"`{unparse(bad)[:80]}` is not {target}({', '.join(params[:len(want)])}): the node is built from something other than "
                        f"the arguments themselves (an attribute of an argument loses what the argument restricts it to - a quantified "
                        f"universal expression, a sub-query - and a wrapped or passed-through argument changes how often it is unnested)",
                        line=bad.lineno if bad is not None else fn.lineno))
    return out
