"""
C03: negation is a rewrite performed at construction time, i.e. a function on syntax.

NEG-TABLE / NEG-INVOLUTION : the comparator's inverse-operator table, evaluated abstractly for every operator and
                             every transition of the flag, and composed with the effect of `Not` on the flag.
NEG-DEMORGAN               : Not(and) builds an or-family node over negated operands, Not(or) an AND; descriptors are
                             rebuilt over the negated child with the same selection.
NEG-TRUTH                  : truth tables of the two sites that turn a computed value into _is_false_.
"""
from __future__ import annotations

import ast
import itertools
from typing import Dict, List, Optional, Tuple, Set

from ..db import ProgramDB, FuncInfo, ClassInfo, AnalysisError, unparse, own_nodes, dotted
from ..facts import own_calls, call_attr, resolve_call_target, bind_args, strip_docstring
from ..framework import inst, HOLDS, VIOLATION, UNDECIDED, INFO, Instance
from ..abseval import AbsEval, State, const, TOP, TRUE, FALSE, NONE, truth, fmt
from ..cfg import CFG

BASE_OPS = ["operator.lt", "operator.le", "operator.gt", "operator.ge", "operator.eq", "operator.ne",
            "operator.contains"]
COMPLEMENT = {"operator.lt": "operator.ge", "operator.ge": "operator.lt", "operator.gt": "operator.le",
              "operator.le": "operator.gt", "operator.eq": "operator.ne", "operator.ne": "operator.eq",
              "operator.contains": "not:operator.contains", "not:operator.contains": "operator.contains"}


def classify_function(db: ProgramDB, fn: FuncInfo) -> Optional[str]:
    """'not:operator.contains' for `def f(a, b): return not operator.contains(a, b)` (or `b not in a`),
    'operator.X' for a plain forwarding wrapper; None otherwise."""
    body = strip_docstring(fn.node.body)
    params = fn.positional_params
    if len(body) != 1 or not isinstance(body[0], ast.Return) or len(params) != 2:
        return None
    v = body[0].value
    neg = False
    if isinstance(v, ast.UnaryOp) and isinstance(v.op, ast.Not):
        neg, v = True, v.operand
    if isinstance(v, ast.Call) and len(v.args) == 2 and not v.keywords:
        r = db.resolve_dotted(fn.module, v.func)
        if isinstance(r, tuple) and r[0] == "ext" and all(isinstance(a, ast.Name) for a in v.args):
            if [a.id for a in v.args] == params:
                return ("not:" if neg else "") + r[1]
        return None
    if isinstance(v, ast.Compare) and len(v.ops) == 1 and isinstance(v.ops[0], (ast.In, ast.NotIn)):
        l, r = v.left, v.comparators[0]
        if isinstance(l, ast.Name) and isinstance(r, ast.Name) and [r.id, l.id] == params:
            n = isinstance(v.ops[0], ast.NotIn) != neg
            return ("not:" if n else "") + "operator.contains"
    return None


def _op_token(db: ProgramDB, v) -> Optional[str]:
    if v == TOP:
        return None
    if v[0] == "sym":
        return v[1]
    if v[0] == "fn":
        f = db.functions.get(v[1])
        return classify_function(db, f) if f else None
    return None


class SetterModel:
    """Abstract model of the `_invert_` property setter of Comparator."""

    def __init__(self, db: ProgramDB):
        self.db = db
        comp = db.cls("Comparator")
        self.comp = comp
        self.setter = comp.lookup_setter("_invert_")
        if self.setter is None:
            # plain field: the flag is stored, the operator must then be consulted at evaluation time
            raise AnalysisError("Comparator._invert_ is no longer a property with a setter; the rule's table of "
                                "accepted idioms covers only the setter form")
        self.cfg = CFG(self.setter)
        ps = self.setter.positional_params
        if len(ps) != 2:
            raise AnalysisError("setter signature changed")
        self.param = ps[1]
        ev = AbsEval(db, self.setter, self.cfg, self_cls=comp)
        self.flag_key = "self." + ev._alias("_invert_")
        # tokens for function objects that denote an operator (e.g. not_contains)
        self.fn_tokens: Dict[str, Tuple] = {}
        for f in list(self.setter.nested.values()) + list(db.modules[self.setter.module].functions.values()):
            c = classify_function(db, f)
            if c is not None:
                self.fn_tokens.setdefault(c, ("fn", f.qualname))

    def value_for(self, op: str):
        if op.startswith("not:"):
            if op not in self.fn_tokens:
                return None
            return self.fn_tokens[op]
        return ("sym", op)

    def apply(self, op: str, old: bool, new: bool):
        """-> list of outcomes: ('ok', op_token|None, flag) or ('raise', line)"""
        v = self.value_for(op)
        if v is None:
            return [("unrepresentable", op, None)]
        ev = AbsEval(self.db, self.setter, self.cfg, self_cls=self.comp)
        init = State({"self.operation": v, self.flag_key: const(old), self.param: const(new)})
        IN = ev.run(init, kinds=("n",))
        outs = []
        for st in IN[self.cfg.exit]:
            outs.append(("ok", _op_token(self.db, st.get("self.operation")), st.get(self.flag_key)))
        for n in self.cfg.nodes:
            if n.kind == "raise_stmt" and IN[n.id]:
                outs.append(("raise", n.lineno, None))
        return sorted(set(outs), key=str)


def not_function(db: ProgramDB) -> FuncInfo:
    return db.fn("symbolic:Not")


def leaf_flag_transfer(db: ProgramDB) -> Tuple[Dict[bool, Optional[bool]], ast.AST, FuncInfo]:
    """Effect of Not's leaf arm on the flag: old -> new (None = unknown)."""
    fn = not_function(db)
    operand = fn.positional_params[0]
    assigns = []
    for n in own_nodes(fn.node):
        if isinstance(n, (ast.Assign, ast.AugAssign)):
            targets = n.targets if isinstance(n, ast.Assign) else [n.target]
            for t in targets:
                if isinstance(t, ast.Attribute) and t.attr == "_invert_" and isinstance(t.value, ast.Name) \
                        and t.value.id == operand:
                    assigns.append(n)
    if len(assigns) != 1:
        raise AnalysisError(f"expected one assignment to {operand}._invert_ in Not, found {len(assigns)}")
    a = assigns[0]
    out = {}
    for old in (False, True):
        def attr_hook(e, st, ev, old=old):
            if isinstance(e, ast.Attribute) and e.attr == "_invert_" and isinstance(e.value, ast.Name) \
                    and e.value.id == operand:
                return const(old)
            return None
        def call_hook(c, st, ev, old=old):
            # getattr(operand, '_invert_', default) reads the flag (default applies to classes without one)
            if isinstance(c.func, ast.Name) and c.func.id == "getattr" and len(c.args) >= 2 \
                    and isinstance(c.args[0], ast.Name) and c.args[0].id == operand \
                    and isinstance(c.args[1], ast.Constant) and c.args[1].value == "_invert_":
                return const(old)
            return None
        ev = AbsEval(db, fn, CFG(fn), attr_hook=attr_hook, call_hook=call_hook)
        if isinstance(a, ast.AugAssign):
            if isinstance(a.op, ast.BitXor) and isinstance(a.value, ast.Constant) and a.value.value is True:
                out[old] = not old
            else:
                out[old] = None
            continue
        vals = ev.eval(a.value, State({}))
        ts = {truth(v) for v in vals}
        out[old] = next(iter(ts)) if len(ts) == 1 and None not in ts else None
    return out, a, fn


def rule_neg_table(db: ProgramDB) -> List[Instance]:
    out = []
    sm = SetterModel(db)
    for op in BASE_OPS:
        want = COMPLEMENT[op]
        # transition False -> True
        r1 = sm.apply(op, False, True)
        key = f"Comparator._invert_.setter[{op} False->True]"
        ok1 = r1 == [("ok", want, TRUE)]
        out.append(inst("NEG-TABLE", HOLDS if ok1 else VIOLATION, sm.setter, key,
                        f"negating `{op}` gives {_show(r1)}" + ("" if ok1 else f"; the complement is `{want}`")))
        # same flag -> unchanged
        for b in (False, True):
            start = op if not b else want
            r = sm.apply(start, b, b)
            key = f"Comparator._invert_.setter[{start} {b}->{b}]"
            ok = r == [("ok", start, const(b))]
            out.append(inst("NEG-TABLE", HOLDS if ok else VIOLATION, sm.setter, key,
                            f"re-assigning the same flag leaves {_show(r)}" +
                            ("" if ok else f"; the operator must stay `{start}`")))
    return out


def rule_neg_involution(db: ProgramDB) -> List[Instance]:
    out = []
    f, assign, notfn = leaf_flag_transfer(db)
    ok_f = f.get(False) is True and f.get(True) is False
    out.append(inst("NEG-INVOLUTION", HOLDS if ok_f else VIOLATION, notfn, "Not.leaf-arm[flag]",
                    f"`{unparse(assign)}` maps the flag False->{f.get(False)}, True->{f.get(True)}" +
                    ("" if ok_f else "; negating a negated leaf must restore the original flag (f(f(b)) = b, f(False) = True)"),
                    line=assign.lineno))
    sm = SetterModel(db)
    for op in BASE_OPS:
        want = COMPLEMENT[op]
        key = f"Comparator._invert_.setter[{want} True->False]"
        r2 = sm.apply(want, True, False)
        ok2 = r2 == [("ok", op, FALSE)]
        out.append(inst("NEG-INVOLUTION", HOLDS if ok2 else VIOLATION, sm.setter, key,
                        f"un-negating `{want}` gives {_show(r2)}" +
                        ("" if ok2 else f"; negating a negated comparison must restore `{op}`")))
    return out


def _show(res) -> str:
    parts = []
    for r in res:
        if r[0] == "ok":
            parts.append(f"operation={r[1] or 'unknown'} flag={fmt(r[2])}")
        elif r[0] == "raise":
            parts.append(f"raises (line {r[1]})")
        else:
            parts.append(f"`{r[1]}` has no representation the setter can map back")
    return " | ".join(parts) if parts else "no normal exit"


# ---------------------------------------------------------------------------------- NEG-DEMORGAN
def _isinstance_arms(fn: FuncInfo, var: str):
    """[(class-name list, body, test)] for the if/elif chain on isinstance(var, X) at the top level of fn."""
    arms = []
    for s in fn.node.body:
        if isinstance(s, ast.If):
            cur = s
            while True:
                t = cur.test
                if isinstance(t, ast.Call) and dotted(t.func) == "isinstance" and len(t.args) == 2 \
                        and isinstance(t.args[0], ast.Name) and t.args[0].id == var:
                    c = t.args[1]
                    names = [dotted(x) for x in (c.elts if isinstance(c, ast.Tuple) else [c])]
                    arms.append((names, cur.body, t, False))
                elif isinstance(t, ast.UnaryOp) and isinstance(t.op, ast.Not):
                    arms.append(([], cur.body, t, True))
                else:
                    arms.append((None, cur.body, t, False))
                if len(cur.orelse) == 1 and isinstance(cur.orelse[0], ast.If):
                    cur = cur.orelse[0]
                else:
                    if cur.orelse:
                        arms.append((["<else>"], cur.orelse, None, False))
                    break
    return arms


def _is_not_of(db, fn, e: ast.AST, operand: str, attr: str) -> bool:
    """e is Not(<operand>.<attr>) (or not_(...), or ~<operand>.<attr>)."""
    if isinstance(e, ast.UnaryOp) and isinstance(e.op, ast.Invert):
        inner = e.operand
    elif isinstance(e, ast.Call) and len(e.args) == 1 and not e.keywords:
        tgt = resolve_call_target(db, fn, e)
        if not (isinstance(tgt, FuncInfo) and tgt.qualname in ("symbolic:Not", "entity:not_")):
            return False
        inner = e.args[0]
    else:
        return False
    return isinstance(inner, ast.Attribute) and inner.attr == attr and isinstance(inner.value, ast.Name) \
        and inner.value.id == operand


def rule_neg_demorgan(db: ProgramDB) -> List[Instance]:
    out = []
    fn = not_function(db)
    operand = fn.positional_params[0]
    arms = _isinstance_arms(fn, operand)
    AND, OR = db.cls("AND"), db.cls("OR")
    found = {"AND": False, "OR": False, "Entity": False, "SetOf": False}

    def construction(body) -> Optional[ast.Call]:
        for s in body:
            v = None
            if isinstance(s, ast.Assign) and len(s.targets) == 1 and isinstance(s.targets[0], ast.Name) \
                    and s.targets[0].id == operand:
                v = s.value
            elif isinstance(s, ast.Return):
                v = s.value
            if isinstance(v, ast.Call):
                return v
        return None

    seen_classes: List[ClassInfo] = []
    for names, body, test, _neg in arms:
        if not names:
            continue
        for nm in names:
            ci = db.class_by_name.get(nm.split(".")[-1], [None])[0] if nm else None
            if ci is None:
                continue
            shadowed = [c for c in seen_classes if ci.is_subclass_of(c)]
            seen_classes.append(ci)
            if ci.name in ("AND", "OR"):
                found[ci.name] = True
                key = f"Not[{ci.name}]"
                if shadowed:
                    out.append(inst("NEG-DEMORGAN", VIOLATION, fn, key,
                                    f"arm for {ci.name} is unreachable: an earlier arm tests {shadowed[0].name}",
                                    line=test.lineno))
                    continue
                call = construction(body)
                if call is None:
                    out.append(inst("NEG-DEMORGAN", VIOLATION, fn, key,
                                    f"arm for {ci.name} does not build a new operator", line=test.lineno))
                    continue
                tgt = resolve_call_target(db, fn, call)
                if ci.name == "AND":
                    fam_ok = (isinstance(tgt, ClassInfo) and tgt.is_subclass_of(OR)) or \
                             (isinstance(tgt, FuncInfo) and tgt.qualname in ("symbolic:_optimize_or", "entity:or_"))
                    fam = "an or-family node (ElseIf/Union/_optimize_or)"
                else:
                    fam_ok = (isinstance(tgt, ClassInfo) and tgt.is_subclass_of(AND)) or \
                             (isinstance(tgt, FuncInfo) and tgt.qualname in ("entity:and_",))
                    fam = "an AND node"
                args = list(call.args)
                neg_l = [a for a in args if _is_not_of(db, fn, a, operand, "left")]
                neg_r = [a for a in args if _is_not_of(db, fn, a, operand, "right")]
                ok = fam_ok and len(args) == 2 and len(neg_l) == 1 and len(neg_r) == 1 and not call.keywords
                out.append(inst("NEG-DEMORGAN", HOLDS if ok else VIOLATION, fn, key,
                                f"not({ci.name.lower()}) is rewritten to `{unparse(call)}`" +
                                ("" if ok else f"; De Morgan requires {fam} over Not({operand}.left) and Not({operand}.right)"),
                                line=call.lineno))
            elif ci.name in ("Entity", "SetOf", "QueryObjectDescriptor"):
                for nm2 in (["Entity", "SetOf"] if ci.name == "QueryObjectDescriptor" else [ci.name]):
                    found[nm2] = True
                key = f"Not[{ci.name}]"
                call = construction(body)
                if call is None:
                    out.append(inst("NEG-DEMORGAN", VIOLATION, fn, key, "descriptor arm does not rebuild the descriptor",
                                    line=test.lineno))
                    continue
                fsrc = unparse(call.func)
                tgt = resolve_call_target(db, fn, call)
                same_cls = fsrc in (f"{operand}.__class__", f"type({operand})") or \
                    (isinstance(tgt, ClassInfo) and tgt.name == ci.name)
                params = ci.init_params() if ci.name != "QueryObjectDescriptor" else db.cls("Entity").init_params()
                try:
                    amap = bind_args(params, call)
                except AnalysisError:
                    amap = {}
                child_ok = "_child_" in amap and _is_not_of(db, fn, amap["_child_"], operand, "_child_")
                sel = amap.get("selected_variables")
                sel_ok = sel is not None and unparse(sel) == f"{operand}.selected_variables"
                ok = same_cls and child_ok and sel_ok
                out.append(inst("NEG-DEMORGAN", HOLDS if ok else VIOLATION, fn, key,
                                f"not({ci.name}) is rewritten to `{unparse(call)}`" +
                                ("" if ok else "; it must rebuild the same descriptor class over Not(child) with the "
                                               "same selected variables"), line=call.lineno))
    for k, v in found.items():
        if not v:
            out.append(inst("NEG-DEMORGAN", UNDECIDED, fn, f"Not[{k}]", f"no isinstance arm for {k} found in Not"))
    # informational: classes reaching the leaf arm that never read the flag
    handled = [c for c in seen_classes]
    se = db.cls("SymbolicExpression")
    for c in sorted(se.all_subclasses(include_self=False), key=lambda c: c.name):
        if any(c.is_subclass_of(h) for h in handled):
            continue
        if any("ABC" in b for b in c.external_bases):
            continue
        reads = c.lookup_setter("_invert_") is not None
        for k in c.mro:
            for m in list(k.methods.values()):
                if m.name == "_invert_":
                    continue
                for n in own_nodes(m.node):
                    if isinstance(n, ast.Attribute) and n.attr in ("_invert_", "_invert__") and isinstance(n.ctx, ast.Load):
                        reads = True
        if not reads:
            out.append(inst("NEG-DEMORGAN", INFO, c, f"leaf-arm-class[{c.name}]",
                            f"{c.name} reaches the leaf arm of Not but never reads the flag: not_() of it is a no-op "
                            f"(outside the vocabulary the property names)"))
    return out


# ---------------------------------------------------------------------------------- NEG-TRUTH
def truth_profile(db: ProgramDB, fn: FuncInfo, envs: List[dict], make_init, make_hooks, cls: ClassInfo = None):
    """Run the abstract interpreter once per environment; return {env-key: [(yield node, state)]} for all
    yield nodes (outside inlined finally copies) reachable on normal edges."""
    cfg = CFG(fn)
    res = {}
    for env in envs:
        hooks = make_hooks(env)
        ev = AbsEval(db, fn, cfg, self_cls=cls or fn.cls, **hooks)
        IN = ev.run(make_init(env), kinds=("n",))
        reached = []
        for n in cfg.nodes:
            if n.has_yield and not n.region:
                for st in IN[n.id]:
                    reached.append((n, st))
        res[tuple(sorted(env.items()))] = reached
    return cfg, res


def domain_mapping_profile(db: ProgramDB, outside_loop: bool = False):
    m = db.method("DomainMapping", "_evaluate__")
    ywf = "yield_when_false"
    envs = [dict(invert=i, truthy=t, ywf=y) for i, t, y in itertools.product([False, True], repeat=3)]

    def make_init(env):
        return State({"self._invert_": const(env["invert"]), ywf: const(env["ywf"]),
                      "self._is_false_": TOP})

    def make_hooks(env):
        def attr_hook(e, st, ev):
            # `<mapped value>.value`: the truthiness of the value the mapping produced
            if isinstance(e, ast.Attribute) and e.attr == "value" and isinstance(e.value, (ast.Name, ast.Subscript)):
                return ("obj", "truthy") if env["truthy"] else ("obj", "falsy")
            return None

        def call_hook(c, st, ev):
            if isinstance(c.func, ast.Name) and c.func.id == "bool":
                return None
            return None
        return dict(attr_hook=attr_hook, call_hook=call_hook)
    cfg, res = truth_profile(db, m, envs, make_init, make_hooks)
    # only yields inside the loop over mapped values (the pass-through `yield sources` when already bound is not a
    # truth decision)
    apply_calls = [n for n in cfg.nodes if n.kind == "for" and any(
        isinstance(c, ast.Call) and call_attr(c) == "_apply_mapping_" for c in ast.walk(n.ast.iter))]
    if len(apply_calls) != 1:
        raise AnalysisError("loop over _apply_mapping_ not found in DomainMapping._evaluate__")
    loop = apply_calls[0]
    body_nodes = set()
    for s in loop.ast.body:
        for n in ast.walk(s):
            body_nodes.add(id(n))
    filt = {}
    for k, reached in res.items():
        filt[k] = [(n, st) for n, st in reached if (id(n.ast) in body_nodes) != outside_loop]
    return m, filt


def variable_output_profile(db: ProgramDB, predicate: bool = True):
    m = db.method("Variable", "_process_output_and_update_values_")
    out_param = m.positional_params[1]
    from ..facts import passthrough_helpers
    helpers = passthrough_helpers(db.cls("Variable"))
    envs = [dict(invert=i, truthy=t, ywf=y) for i, t, y in itertools.product([False, True], repeat=3)]

    def make_init(env):
        tok = ("obj", "truthy") if env["truthy"] else ("obj", "falsy")
        return State({"self._invert_": const(env["invert"]), "self._yield_when_false_": const(env["ywf"]),
                      out_param: tok, "self._is_false_": TOP,
                      "self._predicate_type_": ("obj", "SomePredicateType") if predicate else NONE})

    def make_hooks(env):
        tok = ("obj", "truthy") if env["truthy"] else ("obj", "falsy")

        def call_hook(c, st, ev):
            if isinstance(c.func, ast.Name) and c.func.id == out_param:
                return tok      # calling the Predicate instance produces the predicate's output
            if isinstance(c.func, ast.Attribute) and c.func.attr in helpers and c.args and isinstance(c.args[0], ast.Name) and c.args[0].id == out_param:
                return tok      # ... also through the class's pass-through helper (call with the mode off)
            return None
        return dict(call_hook=call_hook)
    cfg, res = truth_profile(db, m, envs, make_init, make_hooks)
    # the decision 'is this row handed on' may sit one level up: the helper hands every row on with its truth, and the evaluation
    # method that asked (Variable._evaluate__) keeps or drops it according to ITS OWN request.  Compose the two: a row counts as
    # emitted if the helper emits it and the guard of the caller's yield holds for (request, truth of the row).
    from ..boolexpr import guards_of, eval_bool
    var = db.cls("Variable")
    ev = var.methods.get("_evaluate__")
    chain = set()
    todo = [m.name]
    while todo:                                   # the methods of Variable through which the helper's rows travel upwards
        nm = todo.pop()
        if nm in chain:
            continue
        chain.add(nm)
        for k in var.methods.values():
            if k.cls is var and k.name not in chain and any(call_attr(c) == nm and isinstance(c.func.value, ast.Name) and c.func.value.id == "self" for c in own_calls(k)):
                todo.append(k.name)
    caller_guard = None
    if ev is not None:
        for loop in [l for l in own_nodes(ev.node) if isinstance(l, ast.For)]:
            if isinstance(loop.iter, ast.Call) and call_attr(loop.iter) in chain - {"_evaluate__"}:
                ys = [y for st_ in loop.body for y in ast.walk(st_) if isinstance(y, ast.Yield)]
                if len(ys) == 1:
                    st_ = ys[0]
                    while not isinstance(st_, ast.stmt):
                        st_ = db.parent(st_)
                    caller_guard = guards_of(st_, loop.body) or []
    if caller_guard:
        ywf_param = "yield_when_false"

        def keep(env, is_false):
            def atom(e):
                u = unparse(e)
                if u == ywf_param:
                    return "Y"
                if u == "self._is_false_":
                    return "F"
                return None
            return all(bool(eval_bool(t, atom, {"Y": env["ywf"], "F": is_false})) == pol for t, pol in caller_guard)
        res2 = {}
        for k, reached in res.items():
            env = dict(k)
            kept = []
            for n, st in reached:
                f = truth(st.get("self._is_false_"))
                if f is None or keep(env, f):
                    kept.append((n, st))
            res2[k] = kept
        res = res2
    return m, res


def _judge_truth(rule: str, site: str, m: FuncInfo, res) -> List[Instance]:
    out = []
    for k, reached in sorted(res.items()):
        env = dict(k)
        want_false = (env["truthy"] == env["invert"])
        want_yield = env["ywf"] or not want_false
        key = f"{site}[invert={env['invert']},value_truthy={env['truthy']},yield_when_false={env['ywf']}]"
        if bool(reached) != want_yield:
            out.append(inst(rule, VIOLATION, m, key,
                            f"row {'emitted' if reached else 'dropped'}; required {'emitted' if want_yield else 'dropped'} "
                            f"(is_false must be value_truthy == invert = {want_false})",
                            line=reached[0][0].lineno if reached else 0))
            continue
        bad = [(n, st.get("self._is_false_")) for n, st in reached
               if truth(st.get("self._is_false_")) is None or truth(st.get("self._is_false_")) != want_false]
        if bad:
            n, f = bad[0]
            out.append(inst(rule, VIOLATION, m, key,
                            f"row emitted with _is_false_={fmt(f)}; required {want_false}", line=n.lineno))
        else:
            out.append(inst(rule, HOLDS, m, key,
                            f"{'emitted, _is_false_=' + str(want_false) if reached else 'dropped'}"))
    return out


def rule_neg_truth(db: ProgramDB) -> List[Instance]:
    out = []
    m, res = domain_mapping_profile(db)
    out += _judge_truth("NEG-TRUTH", "DomainMapping._evaluate__", m, res)
    m2, res2 = variable_output_profile(db)
    out += _judge_truth("NEG-TRUTH", "Variable._process_output_and_update_values_", m2, res2)
    # the third site: a mapping that finds itself bound already (the same object a second time in the condition) decides its
    # truth from the bound value - with the same table, the inversion flag included
    m3, res3 = domain_mapping_profile(db, outside_loop=True)
    if any(res3.values()):
        out += _judge_truth("NEG-TRUTH", "DomainMapping._evaluate__[bound already]", m3, res3)
    return out


# ---------------------------------------------------------------------------------- NEG-HONOURED
def rule_neg_honoured(db: ProgramDB) -> List[Instance]:
    """The leaf arm of Not flips a flag on the operand; the negation exists only if something reads that flag.  (a) an
    operand whose class has no such flag never reaches the arm (it is refused) - otherwise not_(for_all(...)) silently keeps
    the meaning of for_all(...); (b) every class that declares the flag reads it where it decides its truth (or, for the
    comparison, maps it to the inverse operator in the setter)."""
    out = []
    fn = not_function(db)
    operand = fn.positional_params[0]
    _, assign, _ = leaf_flag_transfer(db)
    cfg = CFG(fn)
    se_ = db.cls("SymbolicExpression")
    catch_all_hook = any("__getattr__" in c.methods and c.methods["__getattr__"].cls is c for c in [se_] + se_.all_subclasses())

    def flips(nd):
        return nd.kind == "stmt" and nd.ast is assign

    def has_flag_edge(e) -> bool:
        """edges on which the operand is known to have the flag"""
        src = cfg.nodes[e.src]
        if src.kind != "test":
            return False
        t = getattr(src.stmt, "test", None)
        neg = False
        while isinstance(t, ast.UnaryOp) and isinstance(t.op, ast.Not):
            t, neg = t.operand, not neg
        if isinstance(t, ast.Call) and dotted(t.func) == "hasattr" and len(t.args) == 2 and isinstance(t.args[1], ast.Constant) and t.args[1].value == "_invert_":
            subject = unparse(t.args[0])
            # asked of the class, or of the object when attribute access on expressions has no catch-all hook: with
            # CanBehaveLikeAVariable.__getattr__ building an Attribute for any name in symbolic mode, hasattr(<expression>, …) is
            # true for every variable-like operand
            if subject in (f"type({operand})", f"{operand}.__class__") or (subject == operand and not catch_all_hook):
                return e.label == ("F" if neg else "T")
        return False
    # a path to the flip that never establishes hasattr(operand, '_invert_') ...
    p = cfg.find_path(cfg.entry, flips, kinds=("n",), edge_ok=lambda e: e.kind == "n" and not has_flag_edge(e))
    # ... is harmless only if reading the flag there does not default (getattr(operand, '_invert_', False) accepts everything)
    defaults = any(isinstance(c, ast.Call) and dotted(c.func) == "getattr" and len(c.args) == 3 for c in ast.walk(assign.value))
    guarded = p is None or not defaults and False
    if p is not None:
        # without an explicit test the arm is still safe when the flag is read without a default: an operand without it raises
        guarded = not defaults and not catch_all_hook and any(isinstance(x, ast.Attribute) and x.attr == "_invert_" and isinstance(x.ctx, ast.Load)
                                                                 for x in ast.walk(assign.value))
    out.append(inst("NEG-HONOURED", HOLDS if guarded else VIOLATION, fn, "Not.leaf-arm[only operands that have the flag]",
                    "an operand without an _invert_ flag does not reach the flip (it is refused)" if guarded else
                    f"`{unparse(assign)}` is reached by operands whose class has no such flag (asking the expression itself with hasattr / reading the flag "
                    f"does not tell: attribute access on an expression builds an Attribute in symbolic mode) and creates the flag where nothing reads it: "
                    f"not_(for_all(v, c)), not_(concatenate(x)) or not_ of a conclusion selector keep the meaning of the un-negated operand", line=assign.lineno))
    # (b)
    se = db.cls("SymbolicExpression")
    declaring = []
    for c in sorted([se] + se.all_subclasses(), key=lambda k: k.qualname):
        if any(f.name in ("_invert_", "_invert__") for f in c.own_fields) or "_invert_" in c.setters:
            declaring.append(c)
    if not declaring:
        raise AnalysisError("no class declares the _invert_ flag")
    for c in declaring:
        readers = []
        for k in [c] + c.all_subclasses():
            for m in list(k.methods.values()) + list(k.setters.values()):
                if m.cls is not k:
                    continue
                if m.name == "_invert_" and m in k.setters.values():
                    # the setter honours the flag if it changes something else than the flag itself
                    if any(isinstance(a, ast.Assign) and any(isinstance(t, ast.Attribute) and t.attr not in ("_invert_", "_invert__") for t in a.targets)
                           for a in own_nodes(m.node)):
                        readers.append(m)
                    continue
                if m.name == "_invert_":
                    continue
                if any(isinstance(x, ast.Attribute) and x.attr == "_invert_" and isinstance(x.ctx, ast.Load) and isinstance(x.value, ast.Name) and x.value.id == "self"
                       for x in own_nodes(m.node)):
                    readers.append(m)
        ok = bool(readers)
        out.append(inst("NEG-HONOURED", HOLDS if ok else VIOLATION, c, f"{c.name}[the flag is read]",
                        f"read by {', '.join(sorted({r.short for r in readers}))[:120]}" if ok else
                        f"{c.name} declares the _invert_ flag and nothing in it reads it: not_ of such an operand is accepted and changes nothing"))
    return out


# ---------------------------------------------------------------------------------- NEG-IN-PLACE
def rule_neg_in_place(db: ProgramDB) -> List[Instance]:
    """not_(c) denotes the complement of c and leaves c what it was: whoever else holds c (the same condition object used a
    second time in the tree, a query built and evaluated earlier) still means c.  The arms for and/or and descriptors build new
    nodes; a leaf has to be negated on a copy as well."""
    out = []
    fn = not_function(db)
    operand = fn.positional_params[0]
    _, assign, _ = leaf_flag_transfer(db)
    rets = [r for r in own_nodes(fn.node) if isinstance(r, ast.Return) and r.value is not None]
    returns_operand = any(isinstance(r.value, ast.Name) and r.value.id == operand for r in rets)
    # the flip is done on the object that was passed in (no rebinding of the operand to a copy before it)
    rebound = [a for a in own_nodes(fn.node) if isinstance(a, ast.Assign) and a.lineno < assign.lineno and any(isinstance(t, ast.Name) and t.id == operand for t in a.targets)
               and isinstance(a.value, ast.Call) and dotted(a.value.func) in ("copy", "copy.copy", "deepcopy", "copy.deepcopy", "replace", "dataclasses.replace")]
    in_place = returns_operand and not rebound
    out.append(inst("NEG-IN-PLACE", VIOLATION if in_place else HOLDS, fn, "Not.leaf-arm[negated in place]",
                    f"`{unparse(assign)}` flips the flag on the operand itself and returns it: every other holder of that object is negated with it"
                    if in_place else "a leaf is negated on a copy", line=assign.lineno))
    return out
