"""
C08 / C09: symbolic mode is a context variable with a small closed set of writers; confinement is a pairing
property over all exits (normal, exceptional, generator suspension/close).
"""
from __future__ import annotations

import ast
from typing import Dict, List, Optional, Set, Tuple

from ..db import ProgramDB, FuncInfo, ClassInfo, AnalysisError, unparse, own_nodes, dotted
from ..cfg import CFG, Node, run_forward
from ..facts import user_type_calls, passthrough_helpers, own_calls, call_attr, call_name, resolve_call_target, bind_args, fn_params
from ..framework import inst, HOLDS, VIOLATION, UNDECIDED, INFO, Instance
from ..abseval import AbsEval, State, const, TOP, TRUE, FALSE, truth
from .entries import public_entries, entry_model, with_regions, mode_manager_kind, const_arg, is_eval_method_name

EXITS = ("exit", "raise", "closed")


def _is_exit(n: Node) -> bool:
    return n.kind in EXITS


def _node_calls(node: Node):
    a = node.ast
    if a is None or node.kind in ("with_exit", "join", "except"):
        return []
    if node.kind == "with_enter":
        a = node.item.context_expr
    elif node.kind == "for":
        a = a.iter
    elif isinstance(a, (ast.FunctionDef, ast.AsyncFunctionDef, ast.ClassDef)):
        return []
    return [x for x in ast.walk(a) if isinstance(x, ast.Call)]


def _ctxvar(db: ProgramDB) -> str:
    mod = db.modules["symbolic"]
    names = [k for k, v in mod.assigns.items()
             if isinstance(v, ast.Call) and (dotted(v.func) or "").endswith("ContextVar")]
    if "_symbolic_mode" not in names:
        raise AnalysisError("anchor vanished: module-level ContextVar `_symbolic_mode` in symbolic.py")
    return "_symbolic_mode"


# ---------------------------------------------------------------------------------- MODE-WRITER
def rule_mode_writer(db: ProgramDB) -> List[Instance]:
    out = []
    var = _ctxvar(db)
    setter = db.fn("symbolic:_set_symbolic_mode")
    sm = db.fn("symbolic:symbolic_mode")
    n_sites = 0
    for fn in db.all_functions():
        for c in own_calls(fn):
            d = dotted(c.func) or ""
            # writes of the context variable
            if d.split(".")[-1] in ("set", "reset") and len(d.split(".")) >= 2 and d.split(".")[-2] == var:
                r = db.resolve_name(fn.module, var) if "." not in d[:-len(d.split('.')[-1]) - 1] else None
                n_sites += 1
                ok = fn.qualname == setter.qualname
                out.append(inst("MODE-WRITER", HOLDS if ok else VIOLATION, fn, f"{fn.short}:{d}",
                                f"`{unparse(c)}` writes the mode variable" +
                                ("" if ok else f"; only {setter.short} may write it"), line=c.lineno))
            tgt = resolve_call_target(db, fn, c)
            if isinstance(tgt, FuncInfo) and tgt.qualname == setter.qualname:
                n_sites += 1
                ok = fn.qualname == sm.qualname
                out.append(inst("MODE-WRITER", HOLDS if ok else VIOLATION, fn, f"{fn.short}:_set_symbolic_mode",
                                f"`{unparse(c)}` sets the mode" +
                                ("" if ok else f"; only the symbolic_mode context manager may call it (it saves and "
                                               f"restores the previous mode)"), line=c.lineno))
    # module-level code
    for mod in db.modules.values():
        for st in mod.tree.body:
            if isinstance(st, (ast.FunctionDef, ast.ClassDef, ast.AsyncFunctionDef)):
                continue
            for c in ast.walk(st):
                if isinstance(c, ast.Call):
                    d = dotted(c.func) or ""
                    if d in (f"{var}.set", f"{var}.reset", "_set_symbolic_mode"):
                        out.append(inst("MODE-WRITER", VIOLATION, mod.path.replace(db.repo + "/", ""),
                                        f"{mod.name}:<module>:{d}", f"module-level `{unparse(c)}` writes the mode",
                                        line=c.lineno))
    return out


# ---------------------------------------------------------------------------------- MODE-PAIRING
def rule_mode_pairing(db: ProgramDB) -> List[Instance]:
    out = []
    var = _ctxvar(db)
    sm = db.fn("symbolic:symbolic_mode")
    if not sm.is_contextmanager or not sm.is_generator:
        raise AnalysisError("symbolic_mode is no longer a @contextmanager generator; accepted-idiom table does not cover it")
    cfg = CFG(sm)
    mode_param = "mode"
    if mode_param not in sm.params:
        raise AnalysisError("symbolic_mode has no `mode` parameter")
    # saved previous mode: local assigned from <var>.get()
    saved = None
    save_nodes = []
    for n in cfg.nodes:
        a = n.ast
        if n.kind == "stmt" and isinstance(a, ast.Assign) and isinstance(a.value, ast.Call) \
                and dotted(a.value.func) == f"{var}.get" and len(a.targets) == 1 and isinstance(a.targets[0], ast.Name):
            saved = a.targets[0].id
            save_nodes.append(n)
    if saved is None or len({n.ast for n in save_nodes}) != 1:
        raise AnalysisError("symbolic_mode: the previous mode is not saved into a single local from _symbolic_mode.get()")
    other_defs = [n for n in own_nodes(sm.node) if isinstance(n, ast.Name) and n.id == saved and isinstance(n.ctx, ast.Store)]
    if len(other_defs) != 1:
        out.append(inst("MODE-PAIRING", VIOLATION, sm, "symbolic_mode[saved-mode single definition]",
                        f"`{saved}` is assigned {len(other_defs)} times; the restored value must be the mode read at entry"))

    def setter_call(n: Node, which: str) -> bool:
        for c in _node_calls(n):
            if dotted(c.func) == "_set_symbolic_mode" and len(c.args) == 1 and isinstance(c.args[0], ast.Name):
                if which == "set" and c.args[0].id == mode_param:
                    return True
                if which == "restore" and c.args[0].id == saved:
                    return True
        return False

    set_nodes = [n for n in cfg.nodes if setter_call(n, "set") and not n.region]
    yield_nodes = [n for n in cfg.nodes if n.has_yield and not n.region]
    if len(set_nodes) != 1 or len(yield_nodes) != 1:
        raise AnalysisError(f"symbolic_mode: expected one set and one yield, found {len(set_nodes)}/{len(yield_nodes)}")
    setn, y = set_nodes[0], yield_nodes[0]
    dom = cfg.dominators()
    ok = any(s.id in dom[setn.id] for s in save_nodes)
    out.append(inst("MODE-PAIRING", HOLDS if ok else VIOLATION, sm, "symbolic_mode[save dominates set]",
                    "the previous mode is read before the new mode is written" if ok else
                    "the new mode can be written before the previous mode was read", line=setn.lineno))
    ok = setn.id in dom[y.id]
    out.append(inst("MODE-PAIRING", HOLDS if ok else VIOLATION, sm, "symbolic_mode[set dominates yield]",
                    "the block body runs only after the mode was set" if ok else
                    "the block body can run without the mode having been set", line=y.lineno))
    # restore on every path from (a) after the set, (b) the yield, to every exit - all edge kinds.
    # Abstract-state-aware search (the two `query is not None` tests are correlated); statements of the cleanup
    # itself (inside the inlined finally copies) are assumed not to raise.
    ev = AbsEval(db, sm, cfg)
    IN = ev.run(State({}))
    no_cleanup_exc = lambda e, node: not (e.kind == "e" and node.region and not e.resume)
    is_restore = lambda n: setter_call(n, "restore")
    for label, start in (("after-set", setn), ("yield", y)):
        if label == "after-set":
            starts = []
            for st in IN[start.id]:
                o = ev.transfer(start, st)
                for e in cfg.succ[start.id]:
                    if e.kind == "n":
                        s2 = ev.edge_transfer(e, start, st, o)
                        if s2 is not None:
                            starts.append((e.dst, s2))
        else:
            starts = [(start.id, st) for st in IN[start.id]]
        starts = [(n, st) for n, st in starts if not is_restore(cfg.nodes[n])]
        bad = ev.explore(starts, _is_exit, blocked=is_restore, edge_ok=no_cleanup_exc)
        key = f"symbolic_mode[restore on all exits from {label}]"
        if bad is None:
            out.append(inst("MODE-PAIRING", HOLDS, sm, key,
                            f"every normal, exceptional and generator-close path from the {label} point passes "
                            f"`_set_symbolic_mode({saved})`", line=start.lineno))
        else:
            out.append(inst("MODE-PAIRING", VIOLATION, sm, key,
                            f"a path leaves the context manager without restoring the saved mode: "
                            + " ".join(cfg.describe_path(bad)[-4:]), line=start.lineno,
                            detail=cfg.describe_path(bad)))
    # query.__enter__ / __exit__ pairing
    enter_nodes = [n for n in cfg.nodes if not n.region and any(call_attr(c) == "__enter__" for c in _node_calls(n))]
    is_qexit = lambda n: any(call_attr(c) == "__exit__" for c in _node_calls(n))
    for en in enter_nodes:
        starts = []
        for st in IN[en.id]:
            o = ev.transfer(en, st)
            for e in cfg.succ[en.id]:
                if e.kind == "n":
                    s2 = ev.edge_transfer(e, en, st, o)
                    if s2 is not None:
                        starts.append((e.dst, s2))
        bad = ev.explore(starts, _is_exit, blocked=is_qexit, edge_ok=no_cleanup_exc)
        key = "symbolic_mode[query.__exit__ on all exits after query.__enter__]"
        out.append(inst("MODE-PAIRING", HOLDS if bad is None else VIOLATION, sm, key,
                        "the expression context pushed for `query` is popped on every path" if bad is None else
                        "a path leaves without popping the expression context: " + " ".join(cfg.describe_path(bad)[-4:]),
                        line=en.lineno))
    # rule_mode delegates
    rm = db.fn("symbolic:rule_mode")
    regions = [(w, it, t) for w, it, t in with_regions(db, rm) if mode_manager_kind(t) == "symbolic_mode"]
    ys = [n for n in own_nodes(rm.node) if isinstance(n, (ast.Yield, ast.YieldFrom))]
    inside = bool(regions) and bool(ys) and all(any(x is yy for x in ast.walk(regions[0][0])) for yy in ys)
    writes = [c for c in own_calls(rm) if (dotted(c.func) or "") in ("_set_symbolic_mode", f"{var}.set")]
    ok = inside and not writes and rm.is_contextmanager
    mode_ok = False
    if regions:
        ca = const_arg(db, rm, regions[0][1].context_expr, db.fn("symbolic:symbolic_mode"), "mode")
        mode_ok = ca[0] == "expr" and unparse(ca[1]).endswith("EQLMode.Rule")
    out.append(inst("MODE-PAIRING", HOLDS if ok and mode_ok else VIOLATION, rm, "rule_mode[delegates to symbolic_mode]",
                    "rule_mode yields inside `with symbolic_mode(query, EQLMode.Rule)` and writes no mode itself"
                    if ok and mode_ok else "rule_mode must delegate save/restore to symbolic_mode(…, EQLMode.Rule) around its yield"))
    return out


# ---------------------------------------------------------------------------------- STACK-PAIRING
def _fresh_or_handed_in_stack(fn: FuncInfo, v: ast.AST) -> bool:
    """the value the context stack is replaced with does not come from the current stack: an empty list, or a stack the caller
    hands in (an evaluation that proceeds in steps keeps the blocks its user code opened on a stack of its own)"""
    if isinstance(v, ast.List) and not v.elts:
        return True
    if isinstance(v, ast.Call) and dotted(v.func) == "list" and not v.args:
        return True
    if isinstance(v, ast.Name) and v.id in fn.params:
        return True
    if isinstance(v, ast.IfExp):
        return _fresh_or_handed_in_stack(fn, v.body) and _fresh_or_handed_in_stack(fn, v.orelse)
    if isinstance(v, ast.BoolOp) and isinstance(v.op, ast.Or):
        return all(_fresh_or_handed_in_stack(fn, x) for x in v.values)
    return False


def _stack_mutations(node_ast: ast.AST) -> List[Tuple[str, ast.AST]]:
    muts = []
    for x in ast.walk(node_ast):
        if isinstance(x, ast.Call) and isinstance(x.func, ast.Attribute) and \
                isinstance(x.func.value, ast.Attribute) and x.func.value.attr == "_symbolic_expression_stack_" and \
                x.func.attr in ("append", "pop", "clear", "remove", "insert", "extend", "reverse", "sort"):
            muts.append((x.func.attr, x))
        if isinstance(x, (ast.Assign, ast.AugAssign, ast.Delete)):
            targets = x.targets if isinstance(x, (ast.Assign, ast.Delete)) else [x.target]
            for t in targets:
                for y in ast.walk(t):
                    if isinstance(y, ast.Attribute) and y.attr == "_symbolic_expression_stack_" and \
                            not isinstance(y.ctx, ast.Load):
                        muts.append(("assign", x))
                    if isinstance(y, ast.Subscript) and isinstance(y.value, ast.Attribute) \
                            and y.value.attr == "_symbolic_expression_stack_" and not isinstance(y.ctx, ast.Load):
                        muts.append(("assign", x))
    return muts


def _count_on_paths(cfg: CFG, op: str) -> Set[int]:
    """set of abstract counts {0,1,2(=many)} of `op` on the stack over all normal paths entry->exit"""
    def transfer(node, st):
        a = node.ast
        if a is None or node.kind in ("with_exit", "join", "except", "entry", "exit", "raise", "closed"):
            return st
        scan = a
        if node.kind == "with_enter":
            scan = node.item.context_expr
        elif node.kind == "for":
            scan = a.iter
        elif node.kind == "test":
            scan = a
        elif isinstance(a, (ast.If, ast.While, ast.For, ast.With, ast.Try, ast.FunctionDef, ast.ClassDef, ast.Match)):
            return st
        k = sum(1 for o, _ in _stack_mutations(scan) if o == op)
        return min(2, st + k)
    IN = run_forward(cfg, 0, transfer, kinds=("n",))
    return set(IN[cfg.exit])


def rule_stack_pairing(db: ProgramDB) -> List[Instance]:
    out = []
    se = db.cls("SymbolicExpression")
    enter, exit_ = se.methods.get("__enter__"), se.methods.get("__exit__")
    if enter is None or exit_ is None:
        raise AnalysisError("SymbolicExpression.__enter__/__exit__ not found")
    for m, op in ((enter, "append"), (exit_, "pop")):
        cfg = CFG(m)
        counts = _count_on_paths(cfg, op)
        other = [o for n in own_nodes(m.node) if isinstance(n, ast.stmt) for o, _ in _stack_mutations(n) if o != op]
        ok = counts == {1} and not other
        out.append(inst("STACK-PAIRING", HOLDS if ok else VIOLATION, m, f"SymbolicExpression.{m.name}[{op} exactly once]",
                        f"`{op}` on the expression-context stack happens {sorted(counts)} time(s) over the normal paths"
                        + (f", plus other mutations {sorted(set(other))}" if other else "") +
                        ("" if ok else "; must be exactly once on every path")))
    # subclasses overriding enter/exit
    for c in se.all_subclasses(include_self=False):
        for nm in ("__enter__", "__exit__"):
            if nm in c.methods:
                out.append(inst("STACK-PAIRING", UNDECIDED, c.methods[nm], f"{c.name}.{nm}",
                                "override of the expression-context protocol: not in the accepted-idiom table"))
    # who may mutate the stack
    for fn in db.all_functions():
        if fn.qualname in (enter.qualname, exit_.qualname):
            continue
        muts = []
        for n in own_nodes(fn.node):
            if isinstance(n, ast.stmt) and not isinstance(n, (ast.If, ast.For, ast.While, ast.With, ast.Try,
                                                               ast.FunctionDef, ast.ClassDef, ast.Match)):
                muts += _stack_mutations(n)
        if not muts:
            continue
        # accepted idiom: the whole stack is set aside and put back (`saved = <stack>; <stack> = []` ... `<stack> = saved` on every
        # exit): the block runs with no expression context and leaves the stack as it found it
        saved_names = {a.targets[0].id for a in own_nodes(fn.node) if isinstance(a, ast.Assign) and len(a.targets) == 1 and isinstance(a.targets[0], ast.Name)
                       and isinstance(a.value, ast.Attribute) and a.value.attr == "_symbolic_expression_stack_"}
        restores = [node for o, node in muts if o == "assign" and isinstance(node, ast.Assign) and isinstance(node.value, ast.Name) and node.value.id in saved_names]
        replaces = [node for o, node in muts if o == "assign" and isinstance(node, ast.Assign) and _fresh_or_handed_in_stack(fn, node.value)]
        paired = set()
        if restores and replaces and len(restores) + len(replaces) == len(muts):
            cfg = CFG(fn)
            r_ids = {id(r) for r in restores}

            def restores_stack(nd):
                return nd.kind == "stmt" and nd.ast is not None and id(nd.ast) in r_ids
            all_ok = True
            for rp in replaces:
                start = next((nd for nd in cfg.nodes if nd.kind == "stmt" and nd.ast is rp), None)
                # the previous stack is saved on the way to the replacement
                saved_before = start is not None and cfg.find_path(cfg.entry, lambda nd: nd.id == start.id, kinds=("n",), blocked=lambda nd: nd.kind == "stmt" and isinstance(nd.ast, ast.Assign)
                                                                   and len(nd.ast.targets) == 1 and isinstance(nd.ast.targets[0], ast.Name) and nd.ast.targets[0].id in saved_names) is None
                def feasible(e):
                    """after the replacement the saved stack is a list: the branch `saved is None` is not taken"""
                    if not cfg.no_cleanup_exc(e):
                        return False
                    src = cfg.nodes[e.src]
                    t = getattr(src.stmt, "test", None) if src.kind == "test" else None
                    if isinstance(t, ast.Compare) and len(t.ops) == 1 and isinstance(t.left, ast.Name) and t.left.id in saved_names \
                            and isinstance(t.comparators[0], ast.Constant) and t.comparators[0].value is None:
                        if isinstance(t.ops[0], ast.IsNot):
                            return e.label != "F"
                        if isinstance(t.ops[0], ast.Is):
                            return e.label != "T"
                    return True
                leak = None if start is None else cfg.find_path(start.id, lambda nd: nd.id in (cfg.exit, cfg.raise_exit) or nd.kind == "closed", kinds=("n", "e", "s"),
                                                                blocked=restores_stack, edge_ok=feasible)
                if start is None or not saved_before or leak is not None:
                    all_ok = False
                    out.append(inst("STACK-PAIRING", VIOLATION, fn, f"{fn.short}[stack set aside and put back]",
                                    f"`{unparse(rp)[:70]}` replaces the expression-context stack and " + ("the previous stack is not saved before" if not saved_before else
                                    "an exit is reached without it being put back: " + " ".join(cfg.describe_path(leak)[-3:])), line=rp.lineno))
            if all_ok:
                paired = {id(x) for x in restores + replaces}
                out.append(inst("STACK-PAIRING", HOLDS, fn, f"{fn.short}[stack set aside and put back]",
                                "the stack is set aside for the block and put back on every exit (normal, exceptional, closed while suspended)"))
        for o, node in muts:
            if id(node) in paired:
                continue
            out.append(inst("STACK-PAIRING", VIOLATION, fn, f"{fn.short}[{o} on _symbolic_expression_stack_]",
                            f"`{unparse(node)[:80]}` mutates the expression-context stack outside __enter__/__exit__",
                            line=node.lineno))
    return out


# ---------------------------------------------------------------------------------- NO-YIELD-UNDER-MODE
def yields_under_mode(db: ProgramDB, fn: FuncInfo) -> List[Tuple[ast.AST, ast.With, str]]:
    regions = [(w, it, mode_manager_kind(t)) for w, it, t in with_regions(db, fn) if mode_manager_kind(t)]
    bad = []
    for w, it, kind in regions:
        for s in w.body:
            for x in [s] + list(own_nodes(s)):
                if isinstance(x, (ast.Yield, ast.YieldFrom)):
                    bad.append((x, w, kind))
    return bad


def rule_no_yield_under_mode(db: ProgramDB) -> List[Instance]:
    out = []
    for fn in db.all_functions():
        if not fn.is_generator:
            continue
        if fn.is_contextmanager:
            continue
        bad = yields_under_mode(db, fn)
        if bad:
            y, w, kind = bad[0]
            out.append(inst("NO-YIELD-UNDER-MODE", VIOLATION, fn, f"{fn.short}[yield inside with {kind}]",
                            f"`{unparse(y)[:70]}` suspends the generator inside `with {unparse(w.items[0].context_expr)}`: "
                            f"the mode override stays in force while control is back in the caller, and the saved mode "
                            f"is restored whenever the generator happens to be finalised", line=y.lineno))
        else:
            out.append(inst("NO-YIELD-UNDER-MODE", HOLDS, fn, f"{fn.short}", "no yield inside a mode block"))
    # built-in positive example: the rule must fire on it
    example = (
        "from .symbolic import symbolic_mode\n"
        "def leaky():\n"
        "    with symbolic_mode(mode=None):\n"
        "        yield 1\n")
    db2 = ProgramDB(repo=db.repo, overrides=dict(db.source_overrides, __eqlsa_example__=example))
    f = db2.fn("__eqlsa_example__:leaky")
    if not yields_under_mode(db2, f):
        out.append(inst("NO-YIELD-UNDER-MODE", UNDECIDED, "", "positive-example",
                        "the rule did not fire on its built-in positive example (resolver lost symbolic_mode?)"))
    return out


# ---------------------------------------------------------------------------------- OP-GUARD
OP_HOOKS = ["__getattr__", "__getitem__", "__call__", "__eq__", "__ne__", "__lt__", "__le__", "__gt__", "__ge__",
            "__contains__"]
# every other operator hook Python would dispatch to: guarded as well when the class hierarchy defines it
MORE_OP_HOOKS = ["__and__", "__or__", "__invert__", "__xor__", "__rand__", "__ror__", "__rxor__", "__neg__", "__pos__", "__add__",
                 "__sub__", "__mul__", "__truediv__", "__floordiv__", "__mod__", "__pow__", "__radd__", "__rsub__", "__rmul__",
                 "__matmul__", "__lshift__", "__rshift__", "__abs__"]


def _reachable_when_mode(db: ProgramDB, fn: FuncInfo, mode_on: bool, depth=0):
    """Nodes of fn reachable on normal edges when in_symbolic_mode() is the constant `mode_on`.
    A call of a helper that cannot return normally under that assumption kills the path."""
    cfg = CFG(fn)
    DEAD = State({"$dead": TRUE})

    def call_hook(c, st, ev):
        tgt = resolve_call_target(db, fn, c)
        if isinstance(tgt, FuncInfo) and tgt.qualname == "symbolic:in_symbolic_mode" and not c.args and not c.keywords:
            return const(mode_on)
        return None

    def post_hook(node, st_in, st_out, ev):
        if depth < 2:
            for c in _node_calls(node):
                f = c.func
                if isinstance(f, ast.Attribute) and isinstance(f.value, ast.Name) and f.value.id == "self" and fn.cls:
                    callee = fn.cls.lookup(f.attr)
                    if callee is not None and callee.qualname != fn.qualname and not callee.is_generator:
                        if not _returns_normally(db, callee, mode_on, depth + 1):
                            return DEAD
        return st_out

    ev = AbsEval(db, fn, cfg, call_hook=call_hook, post_hook=post_hook)
    base_edge = ev.edge_transfer

    def edge_transfer(e, node, st_in, st_out):
        if st_out == DEAD and e.kind == "n":
            return None
        return base_edge(e, node, st_in, st_out)
    IN = run_forward(cfg, State({}), ev.transfer, edge_transfer, kinds=("n",))
    return cfg, {nid for nid, sts in IN.items() if sts}


_RN_CACHE: Dict[Tuple[str, bool], bool] = {}


def _returns_normally(db, fn, mode_on, depth) -> bool:
    k = (fn.qualname, mode_on, db.digest())
    if k in _RN_CACHE:
        return _RN_CACHE[k]
    cfg, reach = _reachable_when_mode(db, fn, mode_on, depth)
    r = cfg.exit in reach
    _RN_CACHE[k] = r
    return r


def rule_op_guard(db: ProgramDB) -> List[Instance]:
    out = []
    cbv = db.cls("CanBehaveLikeAVariable")
    for h in OP_HOOKS + MORE_OP_HOOKS:
        m = cbv.lookup(h)
        if m is None:
            if h in OP_HOOKS:
                out.append(inst("OP-GUARD", UNDECIDED, cbv, f"CanBehaveLikeAVariable.{h}", "operator hook not defined"))
            continue
        cfg, reach = _reachable_when_mode(db, m, False)
        rets = [n for n in cfg.nodes if n.kind == "return" and n.id in reach]
        ok = not rets and cfg.exit not in reach
        out.append(inst("OP-GUARD", HOLDS if ok else VIOLATION, m, f"CanBehaveLikeAVariable.{h}",
                        "outside symbolic mode the hook cannot return (it raises)" if ok else
                        f"outside symbolic mode the hook can still build an expression: `{rets[0].src() if rets else 'falls through'}`",
                        line=rets[0].lineno if rets else m.lineno))
        # and inside symbolic mode it does return an expression
        cfg2, reach2 = _reachable_when_mode(db, m, True)
        if not any(n.kind == "return" and n.id in reach2 for n in cfg2.nodes):
            out.append(inst("OP-GUARD", VIOLATION, m, f"CanBehaveLikeAVariable.{h}[symbolic]",
                            "inside symbolic mode the hook cannot build an expression"))
    return out


# ---------------------------------------------------------------------------------- MODE-BRANCH
def _calls_in_reach(cfg: CFG, reach: Set[int]) -> List[ast.Call]:
    out = []
    for n in cfg.nodes:
        if n.id in reach:
            out += _node_calls(n)
    return out


def rule_mode_branch(db: ProgramDB) -> List[Instance]:
    out = []
    sym = db.fn("predicate:symbol")
    hyb = sym.nested.get("hybrid_new")
    snew = sym.nested.get("symbolic_new")
    if hyb is None or snew is None:
        raise AnalysisError("predicate.symbol no longer defines hybrid_new/symbolic_new")
    writer = db.fn("predicate:instantiate_class_and_update_cache")
    for mode_on in (True, False):
        cfg, reach = _reachable_when_mode(db, hyb, mode_on)
        calls = _calls_in_reach(cfg, reach)
        tg = [resolve_call_target(db, hyb, c) for c in calls]
        names = [dotted(c.func) for c in calls]
        reaches_sym = any(isinstance(t, FuncInfo) and t.qualname == snew.qualname for t in tg)
        reaches_conc = any(isinstance(t, FuncInfo) and t.qualname == writer.qualname for t in tg) or \
            ("original_new" in names)
        if mode_on:
            ok = reaches_sym and not reaches_conc
            why = "symbolic arm calls symbolic_new only" if ok else \
                "in symbolic mode construction must go to symbolic_new and never instantiate/register"
        else:
            ok = reaches_conc and not reaches_sym
            why = "concrete arm instantiates and registers only" if ok else \
                "outside symbolic mode construction must instantiate/register and never build a Variable"
        out.append(inst("MODE-BRANCH", HOLDS if ok else VIOLATION, hyb, f"hybrid_new[in_symbolic_mode={mode_on}]", why))
    # @predicate wrapper
    pred = db.fn("predicate:predicate")
    wrap = pred.nested.get("wrapper")
    if wrap is None:
        raise AnalysisError("predicate.predicate no longer defines wrapper")
    fparam = pred.positional_params[0]
    var_cls = db.cls("Variable")
    for mode_on in (True, False):
        cfg, reach = _reachable_when_mode(db, wrap, mode_on)
        calls = _calls_in_reach(cfg, reach)
        calls_fn = any(isinstance(c.func, ast.Name) and c.func.id == fparam for c in calls)
        builds = any(isinstance(resolve_call_target(db, wrap, c), ClassInfo) and
                     resolve_call_target(db, wrap, c).is_subclass_of(var_cls) for c in calls)
        ok = (builds and not calls_fn) if mode_on else (calls_fn and not builds)
        out.append(inst("MODE-BRANCH", HOLDS if ok else VIOLATION, wrap, f"predicate.wrapper[in_symbolic_mode={mode_on}]",
                        ("builds a Variable and does not call the function" if mode_on else
                         "calls the function and builds nothing") if ok else
                        ("in symbolic mode the wrapper must build an expression and must not run the user function"
                         if mode_on else "outside symbolic mode the wrapper must simply call the function")))
    # outside a block the call is ordinary Python: the function receives exactly the caller's arguments, as they were passed
    # (converting positional arguments to keywords changes *args functions, positional-only parameters and duplicate detection)
    cfg, reach = _reachable_when_mode(db, wrap, False)
    va = wrap.node.args.vararg.arg if wrap.node.args.vararg else None
    kw = wrap.node.args.kwarg.arg if wrap.node.args.kwarg else None
    fcalls = [c for c in _calls_in_reach(cfg, reach) if isinstance(c.func, ast.Name) and c.func.id == fparam]
    for c in fcalls:
        star_ok = va is None or (len(c.args) == 1 and isinstance(c.args[0], ast.Starred) and unparse(c.args[0].value) == va)
        kw_ok = kw is None or (len(c.keywords) == 1 and c.keywords[0].arg is None and unparse(c.keywords[0].value) == kw)
        touched = []
        for nid in reach:
            a = cfg.nodes[nid].ast
            if a is None:
                continue
            for x in ast.walk(a):
                if isinstance(x, ast.Call) and isinstance(x.func, ast.Attribute) and isinstance(x.func.value, ast.Name) and x.func.value.id in (va, kw) \
                        and x.func.attr in ("update", "pop", "setdefault", "clear", "popitem", "append", "extend", "insert", "remove"):
                    touched.append(x)
                if isinstance(x, (ast.Assign, ast.AugAssign)) and any(isinstance(t, ast.Name) and t.id in (va, kw) or (isinstance(t, ast.Subscript) and isinstance(t.value, ast.Name) and t.value.id in (va, kw))
                                                                        for t in (x.targets if isinstance(x, ast.Assign) else [x.target])):
                    touched.append(x)
        ok = star_ok and kw_ok and not touched
        out.append(inst("MODE-BRANCH", HOLDS if ok else VIOLATION, wrap, "predicate.wrapper[outside a block: the caller's arguments as passed]",
                        f"`{unparse(c)}` with untouched arguments" if ok else
                        (f"`{unparse(touched[0])[:60]}` rewrites the arguments before the ordinary call" if touched else f"`{unparse(c)}` does not pass `*{va}, **{kw}`") +
                        ": outside every block a @predicate function must behave as ordinary Python - total(1, 2, 3) with a *rest signature, positional-only "
                        "parameters and f(5, value=7) no longer do", line=c.lineno))
    return out


# ---------------------------------------------------------------------------------- MODE-OFF-DOM (C09)
def _enclosing_withs(db: ProgramDB, node: ast.AST) -> List[ast.With]:
    out = []
    p = db.parent(node)
    child = node
    while p is not None and not isinstance(p, (ast.FunctionDef, ast.AsyncFunctionDef)):
        if isinstance(p, (ast.With, ast.AsyncWith)) and any(child is s for s in p.body):
            out.append(p)
        child = p
        p = db.parent(p)
    return out


def rule_mode_off_dom(db: ProgramDB) -> List[Instance]:
    out = []
    sm = db.fn("symbolic:symbolic_mode")
    for entry in public_entries(db):
        em = entry_model(db, entry)
        closing = {id(x) for x in em.close_nodes}
        for rn in list(em.run_nodes) + list(em.close_nodes):
            stmt = rn.stmt if rn.stmt is not None else rn.ast
            ok = False
            for w in _enclosing_withs(db, stmt):
                for it in w.items:
                    ce = it.context_expr
                    if isinstance(ce, ast.Call):
                        t = resolve_call_target(db, entry, ce)
                        if isinstance(t, FuncInfo) and t.qualname == sm.qualname:
                            ca = const_arg(db, entry, ce, sm, "mode")
                            if ca == ("const", None):
                                ok = True
            key = f"{entry.short}[{rn.src()[:60]}]"
            if id(rn) in closing:
                out.append(inst("MODE-OFF-DOM", HOLDS if ok else VIOLATION, entry, key,
                                "the evaluation is closed inside `with symbolic_mode(mode=None)`" if ok else
                                "closing the evaluation finalises whatever is suspended inside it, user code included (a generator behind a property or used as a domain that "
                                "keeps a `with symbolic_mode():` block open while it yields): closed in the caller's environment, that block's exit restores the mode it "
                                "saw at ITS entry - inside the caller's block the mode is switched off by `it.close()` (or the caller's expression context is popped)",
                                line=rn.lineno))
                continue
            out.append(inst("MODE-OFF-DOM", HOLDS if ok else VIOLATION, entry, key,
                            "evaluation runs inside `with symbolic_mode(mode=None)`" if ok else
                            "evaluation runs in the ambient mode: inside a symbolic block user predicates and @symbol "
                            "constructors would build expressions instead of being executed", line=rn.lineno))
    return out


def rule_usercode_reach(db: ProgramDB) -> List[Instance]:
    """The sites that run user code during evaluation are reachable only from evaluation methods (and those only
    from the public entries): so MODE-OFF-DOM on the entries covers them."""
    out = []
    sites: List[Tuple[FuncInfo, ast.AST, str]] = []
    var = db.cls("Variable")
    for c in [var] + var.all_subclasses(include_self=False):
        for m in c.methods.values():
            for call in user_type_calls(m):
                sites.append((m, call, "constructs self._type_(…) (user class / predicate function)"))
    pom = db.method("Variable", "_process_output_and_update_values_")
    p = pom.positional_params[1]
    helpers_ = passthrough_helpers(var)
    for call in own_calls(pom):
        if isinstance(call.func, ast.Name) and call.func.id == p:
            sites.append((pom, call, "calls the Predicate instance"))
        elif isinstance(call.func, ast.Attribute) and call.func.attr in helpers_ and call.args and unparse(call.args[0]) == p:
            sites.append((pom, call, "calls the Predicate instance"))
    dm = db.cls("DomainMapping")
    for c in dm.all_subclasses():
        m = c.methods.get("_apply_mapping_")
        if m is not None and not any("abstractmethod" in d for d in m.decorators):
            sites.append((m, m.node, "applies getattr / [] / () to a user value"))
    comp = db.method("Comparator", "apply_operation")
    sites.append((comp, comp.node, "applies the comparison operator to user values"))
    # call graph restricted to self-calls + evaluation protocol
    callers: Dict[str, Set[str]] = {}
    by_name: Dict[str, List[FuncInfo]] = {}
    for fn in db.all_functions():
        by_name.setdefault(fn.name, []).append(fn)
    for fn in db.all_functions():
        for call in own_calls(fn):
            nm = call_name(call)
            for tgt in by_name.get(nm or "", []):
                if tgt.cls is not None and isinstance(call.func, ast.Attribute):
                    callers.setdefault(tgt.qualname, set()).add(fn.qualname)
                elif tgt.cls is None and isinstance(call.func, ast.Name):
                    callers.setdefault(tgt.qualname, set()).add(fn.qualname)
    entries = {e.qualname for e in public_entries(db)}
    for m, node, what in sites:
        # backward closure from the site until evaluation protocol methods
        seen, work, roots = set(), [m.qualname], set()
        while work:
            q = work.pop()
            if q in seen:
                continue
            seen.add(q)
            f = db.functions[q]
            if is_eval_method_name(f.name) or q in entries or f.name == "__iter__":
                roots.add(q)
                continue
            cs = callers.get(q, set())
            if f.name.startswith("__") and f.name.endswith("__"):
                roots.add(q)     # called implicitly (construction, operators): an entry outside the evaluation protocol
                continue
            if not cs and not f.name.startswith("_"):
                roots.add(q)     # a public function nobody in the package calls: an external entry
            # a private function without callers is dead code and contributes no path
            work.extend(cs)
        bad = sorted(r for r in roots if not (is_eval_method_name(db.functions[r].name) or r in entries))
        # `_cache_values_`-style properties are reached through attribute access, not calls: accept properties of
        # expression classes (they are only read by evaluation code)
        bad = [b for b in bad if not db.functions[b].is_property]
        key = f"{m.short}[{what.split(' (')[0]}]"
        out.append(inst("USERCODE-REACH", HOLDS if not bad else VIOLATION, m, key,
                        f"{what}: reached only through the evaluation protocol" if not bad else
                        f"{what}: also reachable from {bad}, outside the evaluation protocol (not covered by the "
                        f"entries' mode override)", line=getattr(node, "lineno", m.lineno)))
    return out


# ---------------------------------------------------------------------------------- MODE-SET-REQUESTED
def rule_mode_set_requested(db: ProgramDB) -> List[Instance]:
    """symbolic_mode(mode=M) sets exactly M, whatever mode was active before: the entries rely on
    symbolic_mode(mode=None) switching the mode *off* also when called inside a rule_mode / symbolic_mode block."""
    out = []
    sm = db.fn("symbolic:symbolic_mode")
    cfg = CFG(sm)
    var = _ctxvar(db)
    requested = {"None": const(None), "EQLMode.Query": ("sym", "EQLMode.Query"), "EQLMode.Rule": ("sym", "EQLMode.Rule")}
    ambient = {"None": const(None), "EQLMode.Query": ("obj", "QueryMode"), "EQLMode.Rule": ("obj", "RuleMode")}
    for rname, rval in requested.items():
        for aname, aval in ambient.items():
            def call_hook(c, st, ev, aval=aval):
                if dotted(c.func) == f"{var}.get":
                    return aval
                return None

            def attr_hook(e, st, ev):
                d = dotted(e)
                if d in ("EQLMode.Query", "EQLMode.Rule"):
                    return ("obj", "QueryMode") if d.endswith("Query") else ("obj", "RuleMode")
                return None
            ev = AbsEval(db, sm, cfg, call_hook=call_hook, attr_hook=attr_hook)
            # compare tokens: ambient Rule must compare equal to EQLMode.Rule
            rv = {"None": const(None), "EQLMode.Query": ("obj", "QueryMode"), "EQLMode.Rule": ("obj", "RuleMode")}[rname]
            orig_compare = ev._compare

            def _compare(op, l, r, orig=orig_compare):
                if isinstance(op, (ast.Eq, ast.NotEq, ast.Is, ast.IsNot)) and l[0] == "obj" and r[0] == "obj" \
                        and l[1] in ("QueryMode", "RuleMode") and r[1] in ("QueryMode", "RuleMode"):
                    eq = l == r
                    return {const(eq != isinstance(op, (ast.NotEq, ast.IsNot)))}
                return orig(op, l, r)
            ev._compare = _compare
            IN = ev.run(State({"mode": rv, "query": TOP}), kinds=("n",))
            got = set()
            for n in cfg.nodes:
                if n.region:
                    continue
                for c in _node_calls(n):
                    if dotted(c.func) == "_set_symbolic_mode" and len(c.args) == 1:
                        for st in IN[n.id]:
                            # skip the restore call (argument is the saved previous mode)
                            vals = ev.eval(c.args[0], st)
                            if isinstance(c.args[0], ast.Name) and c.args[0].id != "mode" and st.get(c.args[0].id) == aval \
                                    and c.args[0].id != "mode":
                                continue
                            got |= vals
            ok = got == {rv}
            out.append(inst("MODE-SET-REQUESTED", HOLDS if ok else VIOLATION, sm,
                            f"symbolic_mode[requested={rname},ambient={aname}]",
                            f"sets the requested mode" if ok else
                            f"with ambient mode {aname}, symbolic_mode(mode={rname}) sets {sorted(str(g) for g in got)} instead of "
                            f"the requested mode: evaluate() can then not switch symbolic mode off inside such a block"))
    return out


# ---------------------------------------------------------------------------------- EVAL-NO-CONTEXT
def rule_eval_no_context(db: ProgramDB) -> List[Instance]:
    """Evaluation switches the symbolic MODE off so that user code runs concretely (MODE-OFF-DOM).  User code may itself
    open a block and build a query (a predicate written as a sub-query): what it builds consults the expression CONTEXT (the
    stack of open `with <query>` blocks) - a predicate call in query mode is bound implicitly to the selected variable of
    the innermost open query and conjoined into its conditions.  When evaluate() is called inside `with rule_mode(q):` that
    context is q, so the mode-off switch has to set the context aside as well: on the path `mode is None` of the mode
    manager, the block runs with an empty stack."""
    from ..abseval import AbsEval, State, NONE, TOP
    out = []
    sm = db.fn("symbolic:symbolic_mode")
    # the premise: something reachable from user code reads the context when in query mode
    readers = [f for f in db.all_functions() if f.module == "predicate" and any(call_attr(c) == "_current_parent_" for c in own_calls(f))]
    if not readers:
        out.append(inst("EVAL-NO-CONTEXT", INFO, sm, "symbolic_mode[mode off: no expression context]", "nothing in the constructor path of @symbol classes reads the expression context"))
        return out
    cfg = CFG(sm)
    ev = AbsEval(db, sm, cfg)

    def sets_aside(nd):
        return nd.kind == "stmt" and nd.ast is not None and any(o == "assign" and isinstance(x, ast.Assign) and _fresh_or_handed_in_stack(sm, x.value)
                                                                 for o, x in _stack_mutations(nd.ast))
    ys = [nd for nd in cfg.nodes if nd.has_yield]
    if not ys:
        raise AnalysisError("symbolic_mode: no yield found")
    init = State({"mode": NONE, "query": NONE})
    p = ev.explore([(cfg.entry, init)], lambda nd: nd.has_yield, blocked=sets_aside, kinds=("n",))
    ok = p is None
    out.append(inst("EVAL-NO-CONTEXT", HOLDS if ok else VIOLATION, sm, "symbolic_mode[mode off: no expression context]",
                    "with mode=None the expression-context stack is set aside before the block runs (and put back afterwards: STACK-PAIRING)" if ok else
                    f"with mode=None the block runs under the expression context of the caller: when evaluate() is called inside `with rule_mode(q):`, a "
                    f"predicate whose body builds a query (`with symbolic_mode(): an(entity(m, HasType(m, Handle)))`) has HasType bound implicitly to q's "
                    f"selected variable and conjoined into q ({', '.join(r.short for r in readers)} read the context) - IndexError inside the block, "
                    f"['g1'] outside", line=sm.lineno))
    # an evaluation that proceeds in steps (an(...).evaluate() is a generator) switches mode and context per step; user code that is
    # suspended between two steps with a block open (a generator used as a domain: `with symbolic_mode(q): yield from q.evaluate()`)
    # pushed onto the stack of one step and pops from the stack of a later one - so the steps of one evaluation share one stack
    an = db.cls("An")
    ev_m = an.methods.get("evaluate")
    if ev_m is None or not ev_m.is_generator:
        raise AnalysisError("An.evaluate is not a generator")
    step_blocks = [w for w in own_nodes(ev_m.node) if isinstance(w, ast.With) and any(
        isinstance(it.context_expr, ast.Call) and isinstance(resolve_call_target(db, ev_m, it.context_expr), FuncInfo)
        and resolve_call_target(db, ev_m, it.context_expr).qualname == sm.qualname for it in w.items)]
    loops = [l for l in own_nodes(ev_m.node) if isinstance(l, (ast.While, ast.For))]
    n_steps = 0
    for w in step_blocks:
        encl = [l for l in loops if any(x is w for x in ast.walk(l))]
        if not encl:
            continue
        n_steps += 1
        call = next(it.context_expr for it in w.items if isinstance(it.context_expr, ast.Call))
        handed = next((k.value for k in call.keywords if k.arg and "stack" in k.arg), None)
        ok2 = False
        if isinstance(handed, ast.Name):
            # created once, outside the stepping loop
            creations = [a for a in own_nodes(ev_m.node) if isinstance(a, ast.Assign) and any(isinstance(t, ast.Name) and t.id == handed.id for t in a.targets)]
            ok2 = bool(creations) and all(not any(any(x is a for x in ast.walk(l)) for l in encl) for a in creations) and \
                all(isinstance(a.value, ast.List) and not a.value.elts for a in creations)
        out.append(inst("EVAL-NO-CONTEXT", HOLDS if ok2 else VIOLATION, ev_m, "An.evaluate[the steps of one evaluation share one context stack]",
                        f"every step hands in `{unparse(handed)}`, created empty before the loop" if ok2 else
                        "each step of the evaluation runs on a context stack of its own: a generator used as a domain that holds a block open on a query while it "
                        "yields pushes in one step and pops in a later one (IndexError / AttributeError at the end of the block), and a predicate evaluated in "
                        "between is bound to nothing", line=w.lineno))
    if n_steps == 0:
        raise AnalysisError("An.evaluate: no per-step mode-off block found")
    # user code is called with the mode off at the call itself: the step-level switch can have been overridden by user code that is
    # suspended inside the step with a block open
    var = db.cls("Variable")
    helpers_ = passthrough_helpers(var)
    n_calls = 0
    for m in var.methods.values():
        if m.cls is not var:
            continue
        cand = list(user_type_calls(m))
        if m.name == "_process_output_and_update_values_":
            p_ = m.positional_params[1]
            cand += [c for c in own_calls(m) if (isinstance(c.func, ast.Name) and c.func.id == p_) or
                     (isinstance(c.func, ast.Attribute) and c.func.attr in helpers_ and c.args and unparse(c.args[0]) == p_)]
        for c in cand:
            n_calls += 1
            through = isinstance(c.func, ast.Attribute) and c.func.attr in helpers_
            off = False
            if through:
                h = var.lookup(c.func.attr)
                off = any(isinstance(w, ast.With) and any(isinstance(it.context_expr, ast.Call) and dotted(it.context_expr.func) == "symbolic_mode"
                                                          and any(k.arg == "mode" and isinstance(k.value, ast.Constant) and k.value.value is None for k in it.context_expr.keywords)
                                                          for it in w.items) and any(isinstance(r, ast.Return) for b in w.body for r in ast.walk(b))
                          for w in own_nodes(h.node))
            else:
                off = any(isinstance(w, ast.With) and any(x is c for x in ast.walk(w)) and any(
                    isinstance(it.context_expr, ast.Call) and dotted(it.context_expr.func) == "symbolic_mode" and any(
                        k.arg == "mode" and isinstance(k.value, ast.Constant) and k.value.value is None for k in it.context_expr.keywords) for it in w.items)
                          and not any(isinstance(y, (ast.Yield, ast.YieldFrom)) for b in w.body for y in ast.walk(b)) for w in own_nodes(m.node))
            out.append(inst("EVAL-NO-CONTEXT", HOLDS if off else VIOLATION, m, f"{m.short}[{unparse(c)[:50]}: mode off at the call]",
                            "the user's class / predicate is called inside `symbolic_mode(mode=None)`" if off else
                            f"`{unparse(c)[:60]}` runs under whatever mode is current at that moment: a generator used as a domain that keeps `with symbolic_mode():` "
                            f"open while it yields has switched the mode on again for the rest of the step, so a Predicate subclass evaluated after the first pull is "
                            f"built, not run, and counts as true", line=c.lineno))
    if n_calls < 3:
        raise AnalysisError(f"only {n_calls} user-code call site(s) found in Variable")
    return out


# ---------------------------------------------------------------------------------- STACK-READ-LIVE
def rule_stack_read_live(db: ProgramDB) -> List[Instance]:
    """The stack of open `with <query>:` blocks is a class attribute that an evaluation REBINDS (it sets the caller's stack aside and
    puts it back), so 'the block that is open now' is what the attribute holds when it is read.  A read that happens once - at import
    time: a module-level alias, a class attribute, a default argument - keeps pointing at the list that was the stack then, i.e. the
    caller's: user code run by an evaluation inside `with query:` then sees the caller's open block again and attaches what it
    builds to the caller's query.  Rule: every read of the attribute sits in a function body (evaluated at call time) and is not
    stored into a module global or an attribute of an object."""
    out = []
    se = db.cls("SymbolicExpression")
    stack_attrs = {n for n in se.class_attrs if "stack" in n}
    if not stack_attrs:
        raise AnalysisError("SymbolicExpression: no class attribute holding the context stack found")
    n = 0
    for mod in db.modules.values():
        # nodes evaluated at import: everything that is not inside a function body (defaults and decorators are outside)
        def at_import(node, inside_fn_body=False):
            for ch in ast.iter_child_nodes(node):
                if isinstance(node, (ast.FunctionDef, ast.AsyncFunctionDef, ast.Lambda)):
                    body = node.body if isinstance(node.body, list) else [node.body]
                    in_body = any(ch is b for b in body)
                    if in_body:
                        yield from in_fn(ch)
                    else:
                        yield from at_import(ch)         # defaults, decorators, annotations
                else:
                    yield ch
                    yield from at_import(ch)

        def in_fn(node):
            # still look for nested defs: their defaults are evaluated when the outer function runs (call time): fine
            return iter(())
        for x in at_import(mod.tree):
            if isinstance(x, ast.Attribute) and x.attr in stack_attrs and isinstance(x.ctx, ast.Load):
                st = x
                while st is not None and not isinstance(st, ast.stmt):
                    st = db.parent(st)
                if isinstance(st, (ast.AnnAssign, ast.Assign)) and isinstance(db.parent(st), ast.ClassDef) and db.parent(st).name == se.name:
                    continue
                n += 1
                import os as _os
                out.append(inst("STACK-READ-LIVE", VIOLATION, _os.path.relpath(mod.path, db.repo), f"{mod.name}[{unparse(st)[:60] if st is not None else unparse(x)}]",
                                f"`{unparse(x)}` is read once, when the module is imported: the name it is bound to keeps the list that was the stack then, while "
                                f"every evaluation rebinds the class attribute (it sets the caller's stack aside): user code run by evaluate() inside `with query:` - "
                                f"a predicate that builds a query of its own - finds the caller's block open and attaches to the caller's query", line=x.lineno))
    # reads inside functions: not stored beyond the call
    for fn in sorted(db.all_functions(), key=lambda f: f.qualname):
        for a in own_nodes(fn.node):
            if isinstance(a, ast.Assign) and any(isinstance(y, ast.Attribute) and y.attr in stack_attrs and isinstance(y.ctx, ast.Load) for y in ast.walk(a.value)) \
                    and not isinstance(a.value, ast.Call):
                n += 1
                globals_ = {nm for g in own_nodes(fn.node) if isinstance(g, (ast.Global, ast.Nonlocal)) for nm in g.names}
                long_lived = [t for t in a.targets if (isinstance(t, ast.Attribute) and t.attr not in stack_attrs) or (isinstance(t, ast.Name) and t.id in globals_)]
                out.append(inst("STACK-READ-LIVE", VIOLATION if long_lived else HOLDS, fn, f"{fn.short}[{unparse(a)[:50]}]",
                                "kept in a local for the duration of the call (the set-aside / put-back pair)" if not long_lived else
                                f"`{unparse(a)[:70]}` keeps the list that is the stack now beyond this call", line=a.lineno))
    if n == 0:
        out.append(inst("STACK-READ-LIVE", HOLDS, se, "SymbolicExpression[context stack read at call time only]", "no read of the stack outside a function body, no alias kept"))
    return out



# ---------------------------------------------------------------------------------- NO-SHARED-DEFAULT
_MUTABLE_CTORS = {"list", "dict", "set", "defaultdict", "deque", "OrderedDict", "bytearray", "Counter"}
_MUTATORS = {"append", "extend", "insert", "pop", "remove", "clear", "update", "add", "discard", "setdefault", "popitem", "sort", "reverse", "appendleft"}


def _shared_default_uses(db: Optional[ProgramDB], fnode: ast.AST) -> List[Tuple[str, ast.AST, Optional[ast.AST]]]:
    """[(parameter, default, first statement that lets the default object out of the call or changes it)] for the parameters whose default
    is an object created once, when the function is defined."""
    a = fnode.args
    pos = a.posonlyargs + a.args
    pairs = list(zip(pos[len(pos) - len(a.defaults):], a.defaults)) + [(p, d) for p, d in zip(a.kwonlyargs, a.kw_defaults) if d is not None]
    res = []
    body = fnode.body if isinstance(fnode.body, list) else [fnode.body]
    for p, d in pairs:
        created = isinstance(d, (ast.List, ast.Dict, ast.Set, ast.ListComp, ast.DictComp, ast.SetComp))
        if isinstance(d, ast.Call):
            nm = dotted(d.func) or ""
            last = nm.split(".")[-1]
            created = last in _MUTABLE_CTORS or (db is not None and last in db.class_by_name and last[:1].isupper())
        if not created:
            continue
        name = p.arg
        how = None
        for st in body:
            for x in ast.walk(st):
                par = None
                if isinstance(x, ast.Name) and x.id == name and isinstance(x.ctx, ast.Load):
                    par = db.parent(x) if db is not None else _parent_in(st, x)
                    if isinstance(par, ast.Attribute) and par.value is x:
                        gp = db.parent(par) if db is not None else _parent_in(st, par)
                        if isinstance(gp, ast.Call) and gp.func is par and par.attr in _MUTATORS:
                            how = how or st
                        continue
                    if isinstance(par, ast.Subscript) and par.value is x:
                        if isinstance(par.ctx, (ast.Store, ast.Del)):
                            how = how or st
                        continue
                    if isinstance(par, ast.Compare) or isinstance(par, (ast.For, ast.comprehension)) and par.iter is x:
                        continue
                    if isinstance(par, ast.Call) and isinstance(par.func, ast.Name) and par.func.id in ("len", "bool", "iter", "list", "tuple", "dict", "set", "sorted",
                                                                                                         "copy", "isinstance", "enumerate", "any", "all"):
                        continue
                    if isinstance(par, (ast.If, ast.While, ast.IfExp)) and par.test is x or isinstance(par, ast.UnaryOp) and isinstance(par.op, ast.Not):
                        continue
                    if isinstance(par, ast.BoolOp) and isinstance(db.parent(par) if db is not None else _parent_in(st, par), (ast.If, ast.While)):
                        continue
                    inner = x                # stored, returned, yielded, handed to another function
                    while inner is not None and not isinstance(inner, ast.stmt):
                        inner = db.parent(inner) if db is not None else _parent_in(st, inner)
                    how = how or inner or st
        res.append((name, d, how))
    return res


def _parent_in(root: ast.AST, node: ast.AST) -> Optional[ast.AST]:
    for p in ast.walk(root):
        for ch in ast.iter_child_nodes(p):
            if ch is node:
                return p
    return None


def rule_no_shared_default(db: ProgramDB) -> List[Instance]:
    """An object written as a parameter default is created once, when the function is defined, and every call that leaves the parameter out
    gets that one object.  The context stack an evaluation works on, the accumulator of a walk, the list a helper fills: each is meant to
    be new per call.  Rule: no parameter default creates a mutable object that the body stores, returns, hands on or changes.  (A default that
    is only read - iterated, tested - is shared harmlessly.)  The detector is run on a three-line example on every run, so that an empty result is not
    an empty search."""
    probe = ast.parse("def f(a, stack=[], seen=set(), ro=()):\n    G.stack = stack\n    for s in seen:\n        pass\n    return ro\n").body[0]
    got = {n: h is not None for n, _d, h in _shared_default_uses(None, probe)}
    if got != {"stack": True, "seen": False}:
        raise AnalysisError(f"NO-SHARED-DEFAULT: the detector does not find the shared default of its own example ({got})")
    out = []
    n_fn = n_def = 0
    for fn in sorted(db.all_functions(), key=lambda f: f.qualname):
        nodes = [fn.node] + [x for x in ast.walk(fn.node) if isinstance(x, ast.Lambda)]
        for node in nodes:
            n_fn += 1
            a = node.args
            n_def += len(a.defaults) + sum(1 for d in a.kw_defaults if d is not None)
            for name, d, how in _shared_default_uses(db, node):
                out.append(inst("NO-SHARED-DEFAULT", VIOLATION if how is not None else HOLDS, fn, f"{fn.short}[default of {name}]",
                                f"`{name}={unparse(d)}` is one object for all calls, and `{unparse(how)[:90]}` stores, hands on or changes it: calls that leave "
                                f"`{name}` out share what should be new per call (for the context stack of an evaluation: every evaluation and every call of user "
                                f"code then works on the same list, and a block left open by one is found open by the next)" if how is not None else
                                f"`{name}={unparse(d)}` is shared by all calls but only read", line=d.lineno))
    out.append(inst("NO-SHARED-DEFAULT", HOLDS, "src/entity_query_language", "package[parameter defaults]",
                    f"{n_fn} functions and lambdas, {n_def} parameter defaults examined"))
    return out


# ---------------------------------------------------------------------------------- EXC-EXIT-ENV
def rule_exception_exit_env(db: ProgramDB) -> List[Instance]:
    """An evaluation that ends with an exception (user code raised; `the` found a second solution) leaves its pipeline SUSPENDED: the
    generators below the one that raised are held by the frames of the traceback (and, for `the`, by the rows the exception carries), and
    are finalised when the exception is released - in the caller's environment.  A user generator among them that holds a
    `with symbolic_mode():` open across its yields then runs that block's exit there: it restores the mode it found when it was entered
    (off, inside the evaluation) in the middle of the caller's block.  Closing the result iterator (`results.close()` under the override,
    MODE-OFF-DOM) covers the iterator that is abandoned, not the one that raised: a finished generator has nothing left to close.
    Two remedies are accepted: the public entry releases the frames of the traceback under its own mode override
    (`traceback.clear_frames` in an exception handler inside `symbolic_mode(mode=None …)`), or the exit of `symbolic_mode` restores only
    what is still its own (the restore is guarded by a comparison of the current state with what the block installed)."""
    out = []
    sm = db.fn("symbolic:symbolic_mode")
    guarded_restore = False
    for t in [x for x in own_nodes(sm.node) if isinstance(x, ast.Try) and x.finalbody]:
        for st in t.finalbody:
            for i in [x for x in ast.walk(st) if isinstance(x, ast.If)]:
                if any(isinstance(c, ast.Call) and call_name(c) in ("_set_symbolic_mode",) for b in i.body for c in ast.walk(b)) and \
                        any(isinstance(c, ast.Compare) and any(isinstance(o, (ast.Is, ast.IsNot, ast.Eq, ast.NotEq)) for o in c.ops) for c in ast.walk(i.test)):
                    guarded_restore = True
    n = 0
    for fn in public_entries(db):
        clears = False
        for h in [x for x in own_nodes(fn.node) if isinstance(x, ast.ExceptHandler)] + [x for x in own_nodes(fn.node) if isinstance(x, ast.Try) and x.finalbody]:
            body = h.body if isinstance(h, ast.ExceptHandler) else h.finalbody
            for w in [x for st in body for x in ast.walk(st) if isinstance(x, ast.With)]:
                under = any(isinstance(c, ast.Call) and call_name(c) == "symbolic_mode" and any(k.arg == "mode" and isinstance(k.value, ast.Constant) and k.value.value is None
                                                                                               for k in c.keywords) for it in w.items for c in ast.walk(it.context_expr))
                if under and any(isinstance(c, ast.Call) and (dotted(c.func) or "").endswith("clear_frames") for b in w.body for c in ast.walk(b)):
                    clears = True
        n += 1
        ok = clears or guarded_restore
        out.append(inst("EXC-EXIT-ENV", HOLDS if ok else VIOLATION, fn, f"{fn.short}[exception exit: what the evaluation left suspended is finalised in its own environment]",
                        ("the frames of the traceback are released under the evaluation's own mode override" if clears else
                         "the exit of symbolic_mode restores only what is still its own") if ok else
                        "an exception leaves the generators below the one that raised suspended in the traceback; nothing releases them under the evaluation's mode override, so "
                        "a user generator that holds `with symbolic_mode():` open across a yield (a property used through flatten) is finalised when the caller drops the exception "
                        "- inside the caller's block, whose mode its exit switches off: `with symbolic_mode(): try: q.evaluate() except MultipleSolutionFound: pass; "
                        "in_symbolic_mode()` is False", line=fn.lineno))
    if n == 0:
        raise AnalysisError("no public evaluation entry found")
    return out
