"""C14: registry discipline is ownership, which is structural.  C11 shares INFER rules."""
from __future__ import annotations

import ast
import itertools
from typing import Dict, List, Optional, Set, Tuple

from ..db import ProgramDB, FuncInfo, ClassInfo, AnalysisError, unparse, own_nodes, dotted
from ..cfg import CFG, Node, run_forward
from ..callgraph import CallGraph
from ..facts import own_calls, call_attr, call_name, local_defs, resolve_call_target, bind_args, fn_params
from ..framework import inst, HOLDS, VIOLATION, UNDECIDED, INFO, Instance
from .modes import _node_calls, _reachable_when_mode
from .entries import is_eval_method_name


def _is_registry_expr(db: ProgramDB, fn: FuncInfo, e: ast.AST) -> bool:
    """`Variable._cache_` / `self._cache_` (in Variable) / cls._cache_ : the class-level instance registry."""
    if isinstance(e, ast.Attribute) and e.attr == "_cache_":
        v = e.value
        if isinstance(v, ast.Name):
            r = db.resolve_name(fn.module, v.id)
            if isinstance(r, ClassInfo) and r.is_subclass_of("Variable"):
                return True
            owner = fn
            while owner.cls is None and owner.parent is not None:
                owner = owner.parent
            if v.id in ("self", "cls") and owner.cls is not None and owner.cls.is_subclass_of("Variable"):
                return True
    return False


def registry_writes(db: ProgramDB) -> List[Tuple[FuncInfo, ast.AST, str]]:
    """Every construct in the package that adds to, removes from or clears the registry or one of its per-class stores."""
    out = []
    for fn in db.all_functions():
        aliases: Set[str] = set()
        for name, vals in local_defs(fn).items():
            for v in vals:
                if isinstance(v, ast.AST) and (_is_registry_expr(db, fn, v) or
                                               (isinstance(v, ast.Subscript) and _is_registry_expr(db, fn, v.value))):
                    aliases.add(name)

        def is_store(e):     # Variable._cache_[X]
            return isinstance(e, ast.Subscript) and (_is_registry_expr(db, fn, e.value) or
                                                     (isinstance(e.value, ast.Name) and e.value.id in aliases))

        for n in own_nodes(fn.node):
            if isinstance(n, ast.Call) and isinstance(n.func, ast.Attribute):
                r = n.func.value
                if is_store(r) or (isinstance(r, ast.Name) and r.id in aliases):
                    if n.func.attr in ("insert", "clear", "pop", "remove", "add", "update", "popitem", "setdefault"):
                        out.append((fn, n, n.func.attr))
                if _is_registry_expr(db, fn, r) and n.func.attr in ("clear", "pop", "popitem", "update", "setdefault"):
                    out.append((fn, n, "registry." + n.func.attr))
            elif isinstance(n, ast.Delete):
                for t in n.targets:
                    if is_store(t):
                        out.append((fn, n, "del"))
            elif isinstance(n, ast.Assign):
                for t in n.targets:
                    if is_store(t):
                        out.append((fn, n, "rebinding of a per-class store"))
                    if _is_registry_expr(db, fn, t):
                        out.append((fn, n, "rebinding of the registry"))
    return out


def rule_reg_writer(db: ProgramDB) -> List[Instance]:
    out = []
    writer = db.fn("predicate:instantiate_class_and_update_cache")
    ws = registry_writes(db)
    inserts = [(f, n, h) for f, n, h in ws if h == "insert"]
    if not inserts:
        raise AnalysisError("no insertion into Variable._cache_[...] found in the package: anchor vanished")
    for f, n, how in ws:
        ok = (how == "insert" and f.qualname == writer.qualname)
        out.append(inst("REG-WRITER", HOLDS if ok else VIOLATION, f, f"{f.short}[{how}]",
                        f"`{unparse(n)[:70]}`: the registering constructor path stores the new instance" if ok else
                        f"`{unparse(n)[:70]}` changes the instance registry outside {writer.short}: instances would "
                        f"appear in / disappear from domain-less variables", line=n.lineno))
    return out


def _reg_must_and_key(db: ProgramDB) -> List[Instance]:
    out = []
    sym = db.fn("predicate:symbol")
    hyb = sym.nested.get("hybrid_new")
    writer = db.fn("predicate:instantiate_class_and_update_cache")
    # (1) concrete arm of hybrid_new: exactly one call of the writer on every path to return, result returned
    cfg, reach = _reachable_when_mode(db, hyb, False)

    def count_transfer(node: Node, st: int):
        if node.id not in reach:
            return st
        k = 0
        for c in _node_calls(node):
            t = resolve_call_target(db, hyb, c)
            if isinstance(t, FuncInfo) and t.qualname == writer.qualname:
                k += 1
        return min(2, st + k)
    IN = run_forward(cfg, 0, count_transfer, kinds=("n",), )
    rets = [n for n in cfg.nodes if n.kind == "return" and n.id in reach]
    counts = set()
    for r in rets:
        for st in IN[r.id]:
            counts.add(count_transfer(r, st))
    ok = counts == {1} and bool(rets)
    out.append(inst("REG-MUST", HOLDS if ok else VIOLATION, hyb, "hybrid_new[concrete arm registers exactly once]",
                    f"outside symbolic mode every path to return passes {sorted(counts)} call(s) of {writer.short}" +
                    ("" if ok else "; required exactly one")))
    # (2) inside the writer: allocate, insert that instance exactly once on every path, return it
    wcfg = CFG(writer)
    orig = writer.positional_params[1] if len(writer.positional_params) > 1 else "original_new"
    alloc = [n for n in own_nodes(writer.node) if isinstance(n, ast.Assign) and isinstance(n.value, ast.Call)
             and isinstance(n.value.func, ast.Name) and n.value.func.id == orig]
    # one allocation per path (the allocator is called with or without the constructor arguments), all into the same name
    if not alloc or not all(isinstance(a.targets[0], ast.Name) for a in alloc) or len({a.targets[0].id for a in alloc}) != 1:
        raise AnalysisError(f"{writer.short}: allocation `instance = {orig}(cls)` not found")
    inst_name = alloc[0].targets[0].id
    cls_param = writer.positional_params[0]

    def alloc_transfer(node: Node, st: int):
        return min(2, st + sum(1 for a in alloc if node.ast is a))
    INa = run_forward(wcfg, 0, alloc_transfer, kinds=("n",))
    a_counts = {st for r in wcfg.nodes if r.kind == "return" for st in INa[r.id]}
    once = a_counts == {1}
    for a in alloc:
        alloc_ok = len(a.value.args) >= 1 and unparse(a.value.args[0]) == cls_param and once
        out.append(inst("REG-MUST", HOLDS if alloc_ok else VIOLATION, writer, f"{writer.short}[allocates the runtime class]",
                        f"`{unparse(a)}` allocates an instance of the class handed to __new__ (one allocation on every path)" if alloc_ok else
                        f"`{unparse(a)}` does not allocate the runtime class `{cls_param}` exactly once (allocations per path: {sorted(a_counts)})", line=a.lineno))

    def is_insert(c: ast.Call) -> bool:
        return isinstance(c.func, ast.Attribute) and c.func.attr == "insert" and isinstance(c.func.value, ast.Subscript) \
            and _is_registry_expr(db, writer, c.func.value.value)

    def ins_transfer(node: Node, st: int):
        return min(2, st + sum(1 for c in _node_calls(node) if is_insert(c)))
    IN2 = run_forward(wcfg, 0, ins_transfer, kinds=("n",))
    rets2 = [n for n in wcfg.nodes if n.kind == "return"]
    counts2 = set()
    from ..boolexpr import guards_of as _guards_of

    def not_an_instance_exit(r) -> bool:
        """a return taken because what the user's __new__ handed back is not an instance of the class: nothing is registered there"""
        for g, pol in (_guards_of(r.ast, writer.node.body) or []):
            t, neg = g, not pol
            while isinstance(t, ast.UnaryOp) and isinstance(t.op, ast.Not):
                t, neg = t.operand, not neg
            if isinstance(t, ast.Call) and dotted(t.func) == "isinstance" and len(t.args) == 2 and unparse(t.args[1]) == cls_param and neg:
                return True
        return False
    for r in rets2:
        for st in IN2[r.id]:
            if not_an_instance_exit(r):
                if st != 0:
                    counts2.add(("registered although not an instance", st))
                continue
            counts2.add(st)
    ok2 = counts2 == {1}
    out.append(inst("REG-MUST", HOLDS if ok2 else VIOLATION, writer, f"{writer.short}[inserts exactly once on every path]",
                    f"every path to return performs {sorted(counts2)} registry insertion(s)" + ("" if ok2 else "; required exactly one")))
    for c in own_calls(writer):
        if is_insert(c):
            # REG-KEY: keyed by the runtime class; the stored value wraps the fresh instance
            key_ok = unparse(c.func.value.slice) == cls_param
            val_ok = any(inst_name in {x.id for x in ast.walk(a) if isinstance(x, ast.Name)} for a in c.args[1:2]) or \
                any(k.arg == "output" and inst_name in unparse(k.value) for k in c.keywords)
            out.append(inst("REG-KEY", HOLDS if key_ok else VIOLATION, writer, f"{writer.short}[registry key]",
                            f"`{unparse(c.func.value)}`: filed under the runtime class `{cls_param}`" if key_ok else
                            f"`{unparse(c.func.value)}`: not filed under the runtime class `{cls_param}`: instances of "
                            f"undecorated subclasses would be filed under the wrong class", line=c.lineno))
            out.append(inst("REG-MUST", HOLDS if val_ok else VIOLATION, writer, f"{writer.short}[stores the fresh instance]",
                            f"`{unparse(c)[:70]}` stores `{inst_name}`" if val_ok else
                            f"`{unparse(c)[:70]}` does not store the freshly allocated `{inst_name}`", line=c.lineno))
    for r in rets2:
        ok3 = r.ast.value is not None and unparse(r.ast.value) == inst_name
        out.append(inst("REG-MUST", HOLDS if ok3 else VIOLATION, writer, f"{writer.short}[returns the registered instance]",
                        f"`{unparse(r.ast)}`" if ok3 else f"`{unparse(r.ast)}` does not return the registered instance",
                        line=r.lineno))
    return out


def rule_reg_must(db: ProgramDB) -> List[Instance]:
    return [i for i in _reg_must_and_key(db) if i.rule == "REG-MUST"]


def rule_reg_key(db: ProgramDB) -> List[Instance]:
    return [i for i in _reg_must_and_key(db) if i.rule == "REG-KEY"]


def rule_reg_lookup(db: ProgramDB) -> List[Instance]:
    out = []
    fn = db.fn("cache_data:get_cache_keys_for_class_")
    cls_param = fn.positional_params[1]
    calls = [c for c in own_nodes(fn.node) if isinstance(c, ast.Call) and dotted(c.func) == "issubclass"]
    if not calls:
        # alternative idiom: walking clazz.__subclasses__() - every class must be listed once (diamonds!)
        helpers = [fn] + [db.resolve_name(fn.module, c.func.id) for c in own_nodes(fn.node)
                          if isinstance(c, ast.Call) and isinstance(c.func, ast.Name)]
        walkers = [h for h in helpers if isinstance(h, FuncInfo) and "__subclasses__" in unparse(h.node)]
        if walkers:
            transitive = any(any(isinstance(x, ast.While) for x in own_nodes(h.node)) or
                             any(isinstance(x, ast.Call) and isinstance(x.func, ast.Name) and x.func.id == h.name for x in own_nodes(h.node))
                             for h in walkers)
            if not transitive:
                out.append(inst("REG-LOOKUP", VIOLATION, fn, "get_cache_keys_for_class_[subclass walk is transitive]",
                                "the stores are found through clazz.__subclasses__(), which lists DIRECT subclasses only, and the walk "
                                "neither recurses nor iterates a worklist: instances of a grandchild class are missed"))
                return out
            dedup = any(("seen" in unparse(h.node) or "set(" in unparse(h.node) or "dict.fromkeys" in unparse(h.node))
                        for h in walkers + [fn])
            out.append(inst("REG-LOOKUP", HOLDS if dedup else VIOLATION, fn, "get_cache_keys_for_class_[subclass walk lists each class once]",
                            "the subclass walk de-duplicates the classes it reaches" if dedup else
                            "the stores are found by walking __subclasses__() without remembering visited classes: a class "
                            "reachable along two inheritance paths (a diamond) is listed twice and its instances are yielded twice"))
            return out
        exact = [c for c in own_nodes(fn.node) if isinstance(c, ast.Compare) and len(c.ops) == 1 and isinstance(c.ops[0], (ast.Is, ast.Eq))
                 and cls_param in (unparse(c.left), unparse(c.comparators[0]))]
        if exact:
            out.append(inst("REG-LOOKUP", VIOLATION, fn, "get_cache_keys_for_class_[subclass test]",
                            f"`{unparse(exact[0])}` selects the store of exactly the requested class: instances of subclasses are missed",
                            line=exact[0].lineno))
            return out
        raise AnalysisError("get_cache_keys_for_class_: no issubclass test found")
    for c in calls:
        ok = len(c.args) == 2 and unparse(c.args[1]) == cls_param and unparse(c.args[0]) != cls_param
        out.append(inst("REG-LOOKUP", HOLDS if ok else VIOLATION, fn, "get_cache_keys_for_class_[subclass test]",
                        f"`{unparse(c)}` selects the stores of the class and of its subclasses" if ok else
                        f"`{unparse(c)}` does not select 'stored class is a subclass of the requested class'", line=c.lineno))
    # lookup iterates every selected store
    y = db.fn("cache_data:yield_class_values_from_cache")
    loops = [n for n in own_nodes(y.node) if isinstance(n, ast.For)]
    ok = any(any(isinstance(x, ast.YieldFrom) for x in ast.walk(l)) and not any(
        isinstance(x, (ast.Break, ast.Return)) for x in ast.walk(l)) for l in loops)
    out.append(inst("REG-LOOKUP", HOLDS if ok else VIOLATION, y, "yield_class_values_from_cache[all stores]",
                    "yields from every selected per-class store" if ok else "does not yield from every selected store"))
    return out


def rule_reg_branch(db: ProgramDB) -> List[Instance]:
    """The symbolic arm reaches neither the registry writer nor the original allocator, and returns only expressions."""
    out = []
    cg = CallGraph(db)
    sym = db.fn("predicate:symbol")
    snew = sym.nested.get("symbolic_new")
    writer = db.fn("predicate:instantiate_class_and_update_cache")
    reach = cg.reach([snew.qualname], named=False, ctor=True, stop=lambda q: is_eval_method_name(db.functions[q].name))
    bad = []
    if writer.qualname in reach:
        bad.append(("reaches the registry writer", cg.path(snew.qualname, writer.qualname, named=False)))
    for q in reach:
        f = db.functions[q]
        for c in own_calls(f):
            if isinstance(c.func, ast.Name) and c.func.id == "original_new":
                bad.append((f"{f.short} calls original_new", [q]))
    out.append(inst("REG-BRANCH", HOLDS if not bad else VIOLATION, snew, "symbolic_new[no registration, no allocation]",
                    f"{len(reach)} functions reachable from the symbolic arm; none registers or allocates an instance"
                    if not bad else f"the symbolic arm {bad[0][0]}: {bad[0][1]}"))
    # returns only expression objects
    var, an = db.cls("Variable"), db.cls("An")
    rets = [n for n in own_nodes(snew.node) if isinstance(n, ast.Return)]
    for r in rets:
        v = r.value
        kinds = []

        def classify(e):
            if isinstance(e, ast.IfExp):
                classify(e.body); classify(e.orelse); return
            if isinstance(e, ast.Call):
                t = resolve_call_target(db, snew, e)
                if isinstance(t, ClassInfo) and t.is_subclass_of("SymbolicExpression"):
                    kinds.append("expr"); return
            if isinstance(e, ast.Name):
                ds = local_defs(snew).get(e.id, [])
                ok = False
                for d in ds:
                    if isinstance(d, ast.Call):
                        t = resolve_call_target(db, snew, d)
                        if isinstance(t, ClassInfo) and t.is_subclass_of("SymbolicExpression"):
                            ok = True
                    if isinstance(d, tuple) and d[0] == "unpack" and isinstance(d[1], ast.Call):
                        t = resolve_call_target(db, snew, d[1])
                        if isinstance(t, FuncInfo) and t.qualname == "predicate:extract_selected_variable_and_expression":
                            ok = True
                kinds.append("expr" if ok else "?"); return
            kinds.append("?")
        classify(v)
        ok = bool(kinds) and all(k == "expr" for k in kinds)
        out.append(inst("REG-BRANCH", HOLDS if ok else VIOLATION, snew, f"symbolic_new[return {unparse(v)[:40]}]",
                        "returns an expression object (so Python skips the class's __init__)" if ok else
                        "may return something that is not an expression: the class's own __init__ would run on it",
                        line=r.lineno))
    return out


def rule_reg_infer(db: ProgramDB) -> List[Instance]:
    """Instances built by rule inference go through the class call (`self._type_(**…)`), i.e. through hybrid_new in
    concrete mode (C09), hence through the registering arm; they are never allocated by other means."""
    out = []
    var = db.cls("Variable")
    sites = []
    from ..facts import user_type_calls
    for m in var.methods.values():
        for c in user_type_calls(m):
            sites.append((m, c))
    if not sites:
        raise AnalysisError("no construction `self._type_(…)` found in Variable")
    for m, c in sites:
        kw_only = not c.args and all(k.arg is None for k in c.keywords)
        out.append(inst("REG-INFER", HOLDS, m, f"{m.short}[self._type_(…)]",
                        f"`{unparse(c)[:70]}` calls the class itself, so __new__ (hybrid_new) registers the instance",
                        line=c.lineno))
    # no __new__/object.__new__/copy-based allocation of user types elsewhere
    for fn in db.all_functions():
        if fn.qualname.startswith("predicate:symbol") or fn.qualname == "predicate:instantiate_class_and_update_cache":
            continue
        for c in own_calls(fn):
            d = dotted(c.func) or ""
            if d.endswith(".__new__") or d in ("object.__new__", "copy.deepcopy", "deepcopy", "dataclasses.replace", "replace"):
                out.append(inst("REG-INFER", VIOLATION, fn, f"{fn.short}[{d}]",
                                f"`{unparse(c)[:60]}` creates an object bypassing the registering constructor", line=c.lineno))
    return out


def rule_reg_read_mode(db: ProgramDB) -> List[Instance]:
    """The registry is written in one of two modes (indexed tree / flat store) chosen by index_class_cache(cls); a
    variable must read it in the same mode, i.e. every Variable built for a @symbol class passes
    _is_indexed_=index_class_cache(<that class>) (the dataclass default would select the other store)."""
    out = []
    var = db.cls("Variable")
    writer = db.fn("predicate:instantiate_class_and_update_cache")
    wmode = None
    for c in own_calls(writer):
        if call_attr(c) == "insert":
            for k in c.keywords:
                if k.arg == "index":
                    wmode = k.value
    if wmode is None:
        raise AnalysisError("the registry writer does not pass index=")
    wdefs = [d for d in local_defs(writer).get(wmode.id, [])] if isinstance(wmode, ast.Name) else [wmode]
    wsrc = unparse(wdefs[0]) if wdefs and isinstance(wdefs[0], ast.AST) else unparse(wmode)
    default = var.field("_is_indexed_")
    n = 0
    for fn in db.all_functions():
        if fn.module != "predicate":
            continue
        for c in own_calls(fn):
            t = resolve_call_target(db, fn, c)
            if isinstance(t, ClassInfo) and t is var:
                amap = bind_args(var.init_params(), c)
                ty = amap.get("_type_")
                if ty is None or not isinstance(ty, ast.Name):
                    continue
                if "_predicate_type_" in amap and isinstance(amap["_predicate_type_"], ast.Attribute):
                    continue      # @predicate function variables: _type_ is a function, nothing is read from the registry
                n += 1
                mode = amap.get("_is_indexed_")
                want = wsrc.replace(writer.positional_params[0], ty.id)
                ok = mode is not None and unparse(mode) == want
                out.append(inst("REG-READ-MODE", HOLDS if ok else VIOLATION, fn, f"{fn.short}[Variable(…{ty.id}…)]",
                                f"reads the registry in the mode it is written in (`_is_indexed_={want}`)" if ok else
                                f"`{unparse(c)[:70]}` does not pass `_is_indexed_={want}`: the variable reads the "
                                f"{'default (' + unparse(default.default) + ')' if mode is None and default is not None else unparse(mode) if mode is not None else '?'} "
                                f"store while instances are written to the other one, so it ranges over nothing", line=c.lineno))
    if n == 0:
        raise AnalysisError("no Variable construction for a @symbol class found in predicate.py")
    return out


def rule_reg_after_init(db: ProgramDB) -> List[Instance]:
    """An object counts as an instance once its construction succeeded.  Registration in __new__ happens before the
    class's __init__ runs, so a constructor that raises leaves a registered, half-built ghost."""
    out = []
    sym = db.fn("predicate:symbol")
    hyb = sym.nested.get("hybrid_new")
    writer = db.fn("predicate:instantiate_class_and_update_cache")
    # is the writer called from the function installed as __new__?
    installs_new = any(isinstance(n, ast.Assign) and any(isinstance(t, ast.Attribute) and t.attr == "__new__" for t in n.targets)
                       and isinstance(n.value, ast.Name) and n.value.id == hyb.name for n in own_nodes(sym.node))
    calls_writer = any(isinstance(resolve_call_target(db, hyb, c), FuncInfo) and
                       resolve_call_target(db, hyb, c).qualname == writer.qualname for c in own_calls(hyb))
    in_new = installs_new and calls_writer
    out.append(inst("REG-AFTER-INIT", VIOLATION if in_new else HOLDS, hyb, "hybrid_new[registration before __init__]",
                    "the instance is registered inside __new__, i.e. before the class's own __init__ has run: when __init__ raises "
                    "(invalid arguments) the half-built object stays in the registry and domain-less variables range over it"
                    if in_new else "registration does not happen in __new__"))
    return out


# ---------------------------------------------------------------------------------- REG-LIVE
def rule_reg_live(db: ProgramDB) -> List[Instance]:
    """'The instances constructed so far' is what the registry holds when the variable is EVALUATED.
      (a) nothing on the declaration path reads the registry (which per-class stores exist is a fact about the moment: a
          subclass first constructed after the declaration has no store yet);
      (b) where an evaluation takes the domain from the registry, it marks the domain as such, and the per-evaluation reset of
          the variable drops a domain so marked - otherwise the first evaluation's snapshot is what every later evaluation of
          the same query ranges over, also after the registry was cleared;
      (c) that reset reaches a variable that is only selected (it is not below the descriptor in the graph)."""
    from .lazy import CONSTRUCTION_FUNCS
    from .history import reset_chain_assigns
    out = []
    # (a)
    n_decl = 0
    for q in CONSTRUCTION_FUNCS:
        fn = db.fn(q, required=False)
        if fn is None or fn.module not in ("predicate", "entity"):
            continue
        n_decl += 1
        reads = [x for x in own_nodes(fn.node) if _is_registry_expr(db, fn, x) and isinstance(x.ctx, ast.Load)]
        # a registry read is harmless on the concrete arm (hybrid_new registers) - only the functions of the symbolic arm count
        if fn.name in ("hybrid_new",):
            continue
        out.append(inst("REG-LIVE", VIOLATION if reads else HOLDS, fn, f"{fn.short}[declaration does not read the registry]",
                        f"`{unparse(db.parent(reads[0]) if reads else fn.node)[:80]}` reads the registry while the variable is being declared: the per-class stores that exist "
                        f"at that moment are what it will range over, and instances of a subclass first constructed before the evaluation are missed "
                        f"(declared on an empty registry the same variable sees them)" if reads else "the registry is not consulted at declaration",
                        line=reads[0].lineno if reads else fn.lineno))
    if n_decl < 3:
        raise AnalysisError("declaration functions of the predicate / entity modules not found")
    # (a2) nothing that reads the registry is memoised: which stores exist is a fact about the moment
    memo_reads = []
    for fn in db.all_functions():
        if any("lru_cache" in d or d.endswith("cache") or "cached_property" in d for d in fn.decorators):
            if any(_is_registry_expr(db, fn, x) for x in own_nodes(fn.node)):
                memo_reads.append(fn)
    for fn in memo_reads:
        out.append(inst("REG-LIVE", VIOLATION, fn, f"{fn.short}[registry read is not memoised]",
                        f"{fn.short} reads the registry and is memoised ({', '.join(fn.decorators)}): the list of per-class stores of the first evaluation is "
                        f"what every later evaluation of the variable reads, so the first instance of a new subclass is never seen by it", line=fn.lineno))
    if not memo_reads:
        out.append(inst("REG-LIVE", HOLDS, db.cls("Variable"), "Variable[registry reads are not memoised]", "no memoised function reads the registry"))
    # (b)
    var = db.cls("Variable")
    takers = []
    for m in var.methods.values():
        if m.cls is not var:
            continue
        for a in own_nodes(m.node):
            if isinstance(a, ast.Assign) and any(isinstance(t, ast.Attribute) and t.attr == "_domain_source_" for t in a.targets) and \
                    any(isinstance(x, ast.Attribute) and x.attr in ("_cache_values_", "_cache_") for x in ast.walk(a.value)):
                takers.append((m, a))
    if not takers:
        raise AnalysisError("Variable: the place where the domain is taken from the registry was not found")
    dropped = reset_chain_assigns(db, var)
    ok_b = {"_domain_", "_domain_source_"} <= set(dropped) or "_domain_" in dropped
    for m, a in takers:
        out.append(inst("REG-LIVE", HOLDS if ok_b else VIOLATION, m, f"{m.short}[registry-backed domain is per evaluation]",
                        "the per-evaluation reset of the variable drops a domain that was taken from the registry" if ok_b else
                        f"`{unparse(a)[:60]}` memoises the registry as the variable's domain and the per-evaluation reset keeps it: the same query evaluated again "
                        f"after more instances were constructed (or the registry was cleared) returns the instances of its first evaluation", line=a.lineno))
    # (b2) the drop depends on nothing but the mark: whenever the mark is set, the domain is dropped
    from ..boolexpr import guards_of, guard_table
    marks = set()
    for m, a in takers:
        body_of = db.parent(a)
        for st in own_nodes(m.node):
            if isinstance(st, ast.Assign) and isinstance(st.value, ast.Constant) and st.value.value is True:
                for t in st.targets:
                    if isinstance(t, ast.Attribute) and unparse(t.value) == "self":
                        marks.add(t.attr)
    rm = var.methods.get("_reset_only_my_cache_")
    if rm is not None and rm.cls is var and marks:
        drops = [a for a in own_nodes(rm.node) if isinstance(a, ast.Assign) and any(isinstance(t, ast.Attribute) and unparse(t.value) == "self"
                 and t.attr in ("_domain_", "_domain_source_") for t in a.targets)]
        from ..boolexpr import eval_bool

        class _Any(dict):
            def __missing__(self, k):
                return True
        by_target: Dict[str, List[ast.Assign]] = {}
        for a in drops:
            by_target.setdefault([t.attr for t in a.targets if isinstance(t, ast.Attribute)][0], []).append(a)
        for tgt, group in sorted(by_target.items()):
            # the field may be dropped at several places (for the registry's domain, for a domain given as an expression): what matters is that
            # ONE of them is reached whenever the mark is set
            atoms: List[str] = []

            def atom_of(e):
                if isinstance(e, (ast.Attribute, ast.Name, ast.Call, ast.Subscript)) or (isinstance(e, ast.Compare) and not
                        (len(e.ops) == 1 and isinstance(e.ops[0], (ast.Eq, ast.NotEq, ast.Is, ast.IsNot)) and isinstance(e.comparators[0], ast.Constant)
                         and isinstance(e.comparators[0].value, bool))):
                    u = unparse(e)
                    if u not in atoms:
                        atoms.append(u)
                    return u
                return None
            all_gs = [guards_of(a, rm.node.body) or [] for a in group]
            for gs in all_gs:
                for g, _ in gs:                        # collects the atoms (both values, so that no operand is short-cut away)
                    eval_bool(g, atom_of, _Any())
            mark_atoms = [x for x in atoms if x in {f"self.{k}" for k in marks}]
            a = group[0]
            if not mark_atoms and all(all_gs):
                out.append(inst("REG-LIVE", UNDECIDED, rm, f"{rm.short}[{tgt} dropped whenever the domain is the registry's]",
                                f"`{unparse(a)}` is guarded by {[unparse(g) for g, _ in all_gs[0]]}, none of which is the mark {sorted(marks)}", line=a.lineno))
                continue
            tables = [guard_table(gs, atom_of, atoms) if atoms else {(): True} for gs in all_gs]
            bad_rows = [vals for vals in tables[0] if mark_atoms and all(vals[atoms.index(k)] for k in mark_atoms) and not any(t.get(vals, False) for t in tables)]
            if bad_rows:
                others = [x for x in atoms if x not in mark_atoms]
                out.append(inst("REG-LIVE", VIOLATION, rm, f"{rm.short}[{tgt} dropped whenever the domain is the registry's]",
                                f"`{unparse(a)}` is not reached although the domain is marked as taken from the registry, depending on {others}: "
                                f"with that extra condition false the variable keeps the domain source of its first evaluation, and what it ranges "
                                f"over afterwards is the registry as it was then (instances constructed since are missed or seen late)", line=a.lineno))
            else:
                out.append(inst("REG-LIVE", HOLDS, rm, f"{rm.short}[{tgt} dropped whenever the domain is the registry's]",
                                "reached whenever the mark is set", line=a.lineno))
    # (c)
    qod = db.cls("QueryObjectDescriptor")
    r = qod.methods.get("_reset_only_my_cache_")
    def visits_all_variables(l: ast.For) -> bool:
        """the loop over the selected expressions resets every variable an expression is built on (its parent variable, the
        operands of a mapping), not only the expression's own `_var_`"""
        for c in ast.walk(l):
            if isinstance(c, ast.Call) and call_attr(c) == "_reset_cache_":
                return True          # the recursive reset
            if isinstance(c, ast.Call) and call_attr(c) == "_reset_only_my_cache_":
                inner = [x for x in ast.walk(l) if isinstance(x, ast.For) and x is not l and any(y is c for y in ast.walk(x))]
                if any(any(isinstance(a, ast.Attribute) and a.attr in ("_all_variable_instances_", "_unique_variables_", "_descendants_") for a in ast.walk(x.iter))
                       for x in inner):
                    return True
        return False
    reaches = r is not None and any(isinstance(l, ast.For) and "selected_variables" in unparse(l.iter) and visits_all_variables(l) for l in own_nodes(r.node))
    linked = False
    if not reaches:
        # or the selected variables are linked below the descriptor
        for m in qod.methods.values():
            for c in own_calls(m):
                if call_attr(c) in ("_update_children_",) and any("selected_variables" in unparse(a) for a in c.args):
                    linked = True
    ok_c = reaches or linked
    out.append(inst("REG-LIVE", HOLDS if ok_c else VIOLATION, qod, "QueryObjectDescriptor[the reset reaches selected variables]",
                    "the descriptor's reset visits its selected variables" if ok_c else
                    "a variable that is only selected (an(entity(let(Body))), no condition) is not below the descriptor in the graph and the descriptor's reset "
                    "does not visit it: its registry-backed domain is never dropped"))
    return out


# ---------------------------------------------------------------------------------- REG-NO-PROBE
def rule_reg_no_probe(db: ProgramDB) -> List[Instance]:
    """Registration happens in __new__, before the class's __init__ has run: nothing may look attributes up on the new object
    there.  HashedValue(x) without an identifier probes x with hasattr(x, '_id_'), which runs a user-defined __getattr__ on
    the uninitialised object (a delegating __getattr__ recurses forever)."""
    out = []
    w = db.fn("predicate:instantiate_class_and_update_cache")
    hv = db.cls("HashedValue")
    pi = hv.methods.get("__post_init__")
    probes = pi is not None and any(isinstance(c, ast.Call) and dotted(c.func) in ("hasattr", "getattr") for c in own_nodes(pi.node))
    inst_names = {t.id for a in own_nodes(w.node) if isinstance(a, ast.Assign) and isinstance(a.value, ast.Call) and "new" in unparse(a.value.func)
                  for t in a.targets if isinstance(t, ast.Name)}
    if not inst_names:
        raise AnalysisError("instantiate_class_and_update_cache: allocation of the instance not found")
    bad = []
    n = 0
    for c in own_calls(w):
        t = resolve_call_target(db, w, c)
        if isinstance(t, ClassInfo) and t is hv and c.args and isinstance(c.args[0], ast.Name) and c.args[0].id in inst_names:
            n += 1
            amap = bind_args(hv.init_params(), c)
            if probes and "id_" not in amap:
                bad.append(c)
        if dotted(c.func) in ("hasattr",) and c.args and isinstance(c.args[0], ast.Name) and c.args[0].id in inst_names:
            bad.append(c)
    if n == 0:
        raise AnalysisError("instantiate_class_and_update_cache: the wrapped instance handed to the registry was not found")
    out.append(inst("REG-NO-PROBE", VIOLATION if bad else HOLDS, w, "instantiate_class_and_update_cache[no attribute lookup on the uninitialised instance]",
                    f"`{unparse(bad[0])}` looks an attribute up on the instance before its __init__ has run (HashedValue without an identifier probes hasattr(x, '_id_')): "
                    f"a @symbol class with a hand-written __init__ and a delegating __getattr__ raises RecursionError on every concrete construction" if bad else
                    "the instance is wrapped with its identifier given", line=bad[0].lineno if bad else w.lineno))
    return out


def rule_reg_live_conclusions(db: ProgramDB) -> List[Instance]:
    """(d) of REG-LIVE: a variable that only a conclusion mentions is below no condition; the conclusion's own reset visits the
    variables of the expression every conclusion evaluates (its value) - not those of some other field."""
    out = []
    concl = db.cls("Conclusion")
    resets = [m for k in [concl] + concl.all_subclasses() for n, m in k.methods.items() if n in ("_reset_cache_", "_reset_only_my_cache_") and m.cls is k]
    # the fields every concrete conclusion evaluates
    evaluated = None
    for k in concl.all_subclasses():
        for n, m in k.methods.items():
            if m.cls is k and is_eval_method_name(n):
                fs = {c.func.value.attr for c in own_calls(m) if is_eval_method_name(call_attr(c) or "") and isinstance(c.func.value, ast.Attribute)
                      and unparse(c.func.value.value) == "self"}
                evaluated = fs if evaluated is None else evaluated & fs
    if not evaluated:
        raise AnalysisError("Conclusion: no field that every conclusion evaluates found")
    whole = concl.lookup("_all_variable_instances_")
    whole_fields = {a.value.attr for a in own_nodes(whole.node) if isinstance(a, ast.Attribute) and a.attr == "_all_variable_instances_"
                    and isinstance(a.value, ast.Attribute) and unparse(a.value.value) == "self"} if whole is not None and whole.cls is concl else set()

    def visited(m) -> Set[str]:
        got: Set[str] = set()
        for l in own_nodes(m.node):
            if isinstance(l, ast.For) and any(isinstance(c, ast.Call) and call_attr(c) in ("_reset_only_my_cache_", "_reset_cache_") for c in ast.walk(l)):
                for a in ast.walk(l.iter):
                    if isinstance(a, ast.Attribute) and a.attr in ("_all_variable_instances_", "_unique_variables_", "_descendants_"):
                        if unparse(a.value) == "self":
                            got |= whole_fields if a.attr == "_all_variable_instances_" else set(evaluated)
                        elif isinstance(a.value, ast.Attribute) and unparse(a.value.value) == "self":
                            got.add(a.value.attr)
            if isinstance(l, ast.Call) and call_attr(l) == "_reset_cache_" and isinstance(l.func.value, ast.Attribute) and unparse(l.func.value.value) == "self":
                got.add(l.func.value.attr)
        return got
    overridden = bool(resets)
    got = set().union(*[visited(m) for m in resets]) if resets else set()
    missing = sorted(evaluated - got)
    ok = not missing
    out.append(inst("REG-LIVE", HOLDS if ok or not overridden else VIOLATION, concl, "Conclusion[the reset reaches the variables of the concluded value]",
                    f"the conclusion's reset visits the variables of what every conclusion evaluates ({', '.join(sorted(evaluated))})" if ok else
                    ("conclusions inherit the recursive reset" if not overridden else
                     f"Conclusion overrides the reset and visits {sorted(got) or 'nothing'}, not the variables of `self.{missing[0]}`, which every conclusion evaluates: a variable "
                     f"declared without a domain that only a conclusion mentions (Add(v, Dr(handle=h)) with h = let(H)) keeps the registry snapshot of the first evaluation")))
    return out


# ---------------------------------------------------------------------------------- ALLOC-AS-UNDECORATED
def rule_alloc_as_undecorated(db: ProgramDB) -> List[Instance]:
    """Outside every block a decorated class is constructed like the undecorated one: the allocator is the __new__ Python itself
    would find (the class's own, an inherited one, a builtin base's), and unless that is object.__new__ it receives the arguments
    of the call."""
    from ..boolexpr import guards_of
    out = []
    sym = db.fn("predicate:symbol")
    writer = db.fn("predicate:instantiate_class_and_update_cache")
    cp = sym.positional_params[0]
    orig_assign = [a for a in own_nodes(sym.node) if isinstance(a, ast.Assign) and len(a.targets) == 1 and isinstance(a.targets[0], ast.Name) and "new" in a.targets[0].id
                   and any(isinstance(x, ast.Name) and x.id == cp for x in ast.walk(a.value))]
    if not orig_assign:
        raise AnalysisError("symbol(): the choice of the allocator was not found")
    a = orig_assign[0]
    v = a.value
    verdict, why = UNDECIDED, f"`{unparse(a)[:70]}`: idiom not in the accepted table"
    if isinstance(v, ast.IfExp) and "__dict__" in unparse(v.test) and "object.__new__" in unparse(v.orelse):
        verdict = VIOLATION
        why = (f"`{unparse(a)[:90]}` takes the class's __new__ only when the class defines it itself and falls back to object.__new__: a __new__ inherited from an "
               f"undecorated base is skipped silently, and a builtin base raises 'object.__new__(MyInt) is not safe'")
    elif isinstance(v, ast.Attribute) and v.attr == "__new__" and unparse(v.value) == cp:
        verdict, why = HOLDS, "the allocator is resolved through the MRO (cls.__new__)"
    elif isinstance(v, ast.Call) and isinstance(v.func, ast.Name):
        h = db.fn(f"{sym.module}:{v.func.id}", required=False)
        if h is not None and any(isinstance(x, ast.Attribute) and x.attr == "__mro__" for x in own_nodes(h.node)):
            verdict, why = HOLDS, f"the allocator is the first __new__ along the MRO ({h.short})"
    out.append(inst("ALLOC-AS-UNDECORATED", verdict, sym, "symbol[the allocator Python would use]", why, line=a.lineno))
    orig = writer.positional_params[1] if len(writer.positional_params) > 1 else "original_new"
    va = writer.node.args.vararg.arg if writer.node.args.vararg else None
    kw = writer.node.args.kwarg.arg if writer.node.args.kwarg else None
    allocs = [c for c in own_calls(writer) if isinstance(c.func, ast.Name) and c.func.id == orig]
    if not allocs:
        raise AnalysisError(f"{writer.short}: no call of the allocator found")
    for c in allocs:
        forwards = any(isinstance(x, ast.Starred) and unparse(x.value) == va for x in c.args) and any(k.arg is None and unparse(k.value) == kw for k in c.keywords)
        st = c
        while not isinstance(st, ast.stmt):
            st = db.parent(st)
        g = guards_of(st, writer.node.body) or []
        only_object = any(pol and isinstance(t, ast.Compare) and len(t.ops) == 1 and isinstance(t.ops[0], (ast.Is, ast.Eq)) and
                          {unparse(t.left), unparse(t.comparators[0])} == {orig, "object.__new__"} for t, pol in g)
        ok = forwards or only_object
        out.append(inst("ALLOC-AS-UNDECORATED", HOLDS if ok else VIOLATION, writer, f"{writer.short}[{unparse(c)[:40]}]",
                        ("the allocator receives the arguments of the call" if forwards else "called without arguments only when it is object.__new__") if ok else
                        f"`{unparse(c)}` calls the allocator without the constructor arguments whatever it is: a decorated class that defines __new__(cls, key) cannot be "
                        f"constructed outside a block (TypeError: missing argument)", line=c.lineno))
    return out


# ---------------------------------------------------------------------------------- REG-ONLY-INSTANCES
def rule_reg_only_instances(db: ProgramDB) -> List[Instance]:
    """'Ranges over exactly the instances of that type': what a class's own __new__ hands back need not be an instance of the class (a
    factory __new__ that returns an object of another type - Python then does not run __init__ on it either).  Path rule: from the
    call of the user's allocator, the registration is reached only on paths on which `isinstance(<new object>, <class>)` was found
    true."""
    out = []
    w = db.fn("predicate:instantiate_class_and_update_cache")
    cp = w.positional_params[0]
    cfg = CFG(w)
    allocs = [nd for nd in cfg.nodes if nd.kind == "stmt" and isinstance(nd.ast, ast.Assign) and isinstance(nd.ast.value, ast.Call)
              and any(isinstance(a, ast.Starred) for a in nd.ast.value.args) and isinstance(nd.ast.targets[0], ast.Name)]
    regs = [nd for nd in cfg.nodes if nd.ast is not None and nd.kind == "stmt" and any(isinstance(c, ast.Call) and call_attr(c) == "insert" for c in ast.walk(nd.ast))]
    if not allocs or not regs:
        raise AnalysisError("instantiate_class_and_update_cache: the call of the user's allocator / the registration was not found")
    for al in allocs:
        obj = al.ast.targets[0].id

        def edge_ok(e, obj=obj):
            src = cfg.nodes[e.src]
            if src.kind != "test":
                return True
            t = getattr(src.stmt, "test", None)
            neg = False
            while isinstance(t, ast.UnaryOp) and isinstance(t.op, ast.Not):
                t, neg = t.operand, not neg
            if isinstance(t, ast.Call) and dotted(t.func) == "isinstance" and len(t.args) == 2 and unparse(t.args[0]) == obj and unparse(t.args[1]) == cp:
                is_true_label = "F" if neg else "T"
                return e.label != is_true_label           # we look for a path on which it was NOT found true
            return True
        p = cfg.find_path(al.id, lambda nd: nd.id in {r.id for r in regs}, kinds=("n",), edge_ok=edge_ok)
        out.append(inst("REG-ONLY-INSTANCES", VIOLATION if p is not None else HOLDS, w, f"instantiate_class_and_update_cache[{unparse(al.ast)[:50]}]",
                        "what the user's __new__ returned is registered only if it is an instance of the class" if p is None else
                        f"the registration is reached from `{unparse(al.ast)[:60]}` without `isinstance({obj}, {cp})` having been found true "
                        f"({' '.join(cfg.describe_path(p)[-3:])}): a __new__ that hands back an object of another type gets that object registered as an instance - "
                        f"let(Shape) ranges over an Other", line=al.lineno))
    return out


# ---------------------------------------------------------------------------------- REG-SNAPSHOT
def rule_reg_snapshot(db: ProgramDB) -> List[Instance]:
    """'The instances that have been constructed SO FAR': what a variable without a domain ranges over is what the stores of the class
    and of its subclasses hold when the registry is read - all of them at that moment.  The evaluation that reads it also writes it
    (a rule head constructs instances): a store whose turn comes after the first value was handed out would contain what the same
    evaluation has built meanwhile, and the rule would feed on its own output.  Path rule in the function that walks the stores:
    once a value has been yielded, no store is read any more."""
    out = []
    y = db.fn("cache_data:yield_class_values_from_cache")
    cfg = CFG(y)

    # a read written inside a generator expression, a lambda or a lazy wrapper (map, filter, chain) happens where the result is consumed
    def deferred(root):
        res = set()
        for g in ast.walk(root):
            lazy = isinstance(g, (ast.GeneratorExp, ast.Lambda)) or \
                (isinstance(g, ast.Call) and (dotted(g.func) or "").split(".")[-1] in ("map", "filter", "chain", "from_iterable", "starmap", "imap"))
            if lazy:
                inner = ast.walk(g) if not isinstance(g, ast.GeneratorExp) else \
                    itertools.chain(ast.walk(g.elt), *[ast.walk(x) for gen in g.generators[1:] for x in [gen.iter] + gen.ifs], *[ast.walk(x) for x in g.generators[0].ifs])
                for c in inner:
                    if isinstance(c, ast.Call) and call_attr(c) == "retrieve" and c is not g:
                        res.add(id(c))
        return res
    lazy_names = set()
    for a in own_nodes(y.node):
        if isinstance(a, ast.Assign) and len(a.targets) == 1 and isinstance(a.targets[0], ast.Name) and deferred(a.value):
            lazy_names.add(a.targets[0].id)

    def reads_store(nd):
        if nd.ast is None:
            return False
        scan = nd.ast.iter if nd.kind == "for" else nd.ast
        d = deferred(scan)
        if any(isinstance(c, ast.Call) and call_attr(c) == "retrieve" and id(c) not in d for c in ast.walk(scan)):
            return True
        consumed = scan if nd.kind == "for" else None
        if consumed is None and nd.has_yield:
            consumed = scan
        if consumed is not None and (d or any(isinstance(x, ast.Name) and x.id in lazy_names for x in ast.walk(consumed))):
            return True
        return False
    ys = [nd for nd in cfg.nodes if nd.has_yield]
    rs = [nd for nd in cfg.nodes if reads_store(nd)]
    if not ys or not rs:
        raise AnalysisError("yield_class_values_from_cache: the reads of the stores / the yields were not found")
    bad = None
    for yn in ys:
        if reads_store(yn) and any(e.dst == yn.id or cfg.find_path(e.dst, lambda nd, yn=yn: nd.id == yn.id, kinds=("n",)) is not None
                                   for e in cfg.succ[yn.id] if e.kind == "n"):
            bad = (yn, yn)           # the statement that hands values out reads the (next) store itself, in a loop
            break
        p = cfg.find_path(yn.id, lambda nd: reads_store(nd), kinds=("n",))
        if p is not None:
            bad = (yn, cfg.nodes[p[-1].dst])
            break
    out.append(inst("REG-SNAPSHOT", VIOLATION if bad else HOLDS, y, "yield_class_values_from_cache[all stores are read before the first value is handed out]",
                    "the stores are read first, then their contents are handed out" if not bad else
                    f"after `{bad[0].src()[:50]}` has handed out a value, `{bad[1].src()[:50]}` reads a store: the store of a subclass whose turn comes later holds what the "
                    f"evaluation built in between - infer(entity(FollowUp(name=u.name, level=u.lower, origin=u), u.level > 1)) with u = let(Ticket) builds a FollowUp from "
                    f"a FollowUp of the same run (3 instances for 2 satisfying assignments)", line=bad[0].lineno if bad else y.lineno))
    return out



# ---------------------------------------------------------------------------------- REG-OWN-CLASS
def rule_reg_own_class(db: ProgramDB) -> List[Instance]:
    """An instance is filed in the store of ITS class: that is where a variable of that class looks, and the stores of the subclasses
    are how a variable of a base class finds it.  The class the constructor was called on is the class of the instance when the package
    allocates it; when the user's `__new__` allocates it, it is whatever that returned (a factory returns a subclass: Python runs the
    subclass's __init__ on it).  Path rule: from the allocation by a user `__new__` to the insertion into the registry, the class used
    as the key is re-read from the instance (`type(instance)`)."""
    out = []
    fn = db.fn("predicate:instantiate_class_and_update_cache")
    cfg = CFG(fn)
    cp = fn.positional_params[0]
    allocs = []
    for nd in cfg.nodes:
        if nd.kind == "stmt" and isinstance(nd.ast, ast.Assign) and isinstance(nd.ast.value, ast.Call) and isinstance(nd.ast.value.func, ast.Name) \
                and nd.ast.value.func.id in fn.positional_params and (len(nd.ast.value.args) > 1 or any(isinstance(a, ast.Starred) for a in nd.ast.value.args)):
            allocs.append(nd)
    inserts = [nd for nd in cfg.nodes if nd.ast is not None and nd.kind == "stmt" and any(isinstance(c, ast.Call) and call_attr(c) == "insert" for c in ast.walk(nd.ast))]
    if not allocs or not inserts:
        raise AnalysisError("instantiate_class_and_update_cache: the allocation by the class's own __new__ / the insertion into the registry was not found")
    for al in allocs:
        inst_name = unparse(al.ast.targets[0])

        def rereads(nd, inst_name=inst_name):
            if nd.ast is None or nd.kind != "stmt":
                return False
            return isinstance(nd.ast, ast.Assign) and any(isinstance(t, ast.Name) and t.id == cp for t in nd.ast.targets) and \
                any(isinstance(c, ast.Call) and isinstance(c.func, ast.Name) and c.func.id == "type" and c.args and unparse(c.args[0]) == inst_name for c in ast.walk(nd.ast.value)) \
                or (isinstance(nd.ast, ast.Assign) and any(isinstance(t, ast.Name) and t.id == cp for t in nd.ast.targets) and unparse(nd.ast.value) == f"{inst_name}.__class__")

        def keyed_by_instance(nd, inst_name=inst_name):
            return any(isinstance(s_, ast.Subscript) and f"type({inst_name})" in unparse(s_.slice) for s_ in ast.walk(nd.ast))
        bad = None
        for ins in inserts:
            if keyed_by_instance(ins):
                continue
            p = cfg.find_path(al.id, lambda nd, ins=ins: nd.id == ins.id, kinds=("n",), blocked=rereads)
            if p is not None:
                bad = (ins, p)
        out.append(inst("REG-OWN-CLASS", VIOLATION if bad else HOLDS, fn, "instantiate_class_and_update_cache[an instance allocated by the user's __new__ is filed under its own class]",
                        "the class used as the key of the store is re-read from the instance after the user's __new__ returned it" if not bad else
                        f"`{bad[0].src()[:70]}` files what `{al.src()[:50]}` returned under `{cp}`, the class the constructor was called on: a factory __new__ that returns an "
                        f"instance of a subclass (F('g') building a G) leaves it in F's store only, and let(G) does not range over it", line=(bad[0] if bad else al).lineno))
    return out
