"""RESET-ALL-EXITS (C04, C06): the per-evaluation de-duplication state is reset on every exit of a public entry."""
from __future__ import annotations

import ast
from typing import List

from ..db import ProgramDB, FuncInfo, AnalysisError, unparse, own_nodes, dotted
from ..cfg import CFG, Node
from ..facts import call_attr
from ..framework import inst, HOLDS, VIOLATION, UNDECIDED, INFO, Instance
from .entries import public_entries, entry_model
from .modes import _node_calls, _is_exit


def _calls_self_method(node: Node, name: str) -> bool:
    for c in _node_calls(node):
        f = c.func
        if isinstance(f, ast.Attribute) and f.attr == name and isinstance(f.value, ast.Name) and f.value.id == "self":
            return True
    return False


def all_exits_pass(cfg: CFG, starts: List[Node], is_target) -> List:
    """[] if every path (all edge kinds) from each start to any exit passes a target node; else the offending paths."""
    bad = []
    for s in starts:
        if is_target(s):
            continue
        p = cfg.find_path(s.id, _is_exit, blocked=is_target, edge_ok=cfg.no_cleanup_exc)
        if p is not None:
            bad.append((s, p))
    return bad


def rule_reset_all_exits(db: ProgramDB, only: str = None) -> List[Instance]:
    out = []
    for entry in public_entries(db):
        if only and entry.cls.name != only:
            continue
        em = entry_model(db, entry)
        cfg = em.cfg
        is_reset = lambda n: _calls_self_method(n, "_reset_cache_")
        if not any(is_reset(n) for n in cfg.nodes):
            out.append(inst("RESET-ALL-EXITS", VIOLATION, entry, f"{entry.short}[no reset]",
                            "the entry never resets the per-evaluation state of its expression tree"))
            continue
        for rn in em.run_nodes:
            key = f"{entry.short}[{rn.src()[:60]}]"
            bad = all_exits_pass(cfg, [rn], is_reset)
            if not bad:
                out.append(inst("RESET-ALL-EXITS", HOLDS, entry, key,
                                "every normal, exceptional and generator-close path from this evaluation point to an "
                                "exit passes self._reset_cache_()", line=rn.lineno))
                continue
            # accepted alternative: reset-before-use (reset dominates the evaluation point)
            pre = cfg.find_path(cfg.entry, lambda n: n.id == rn.id, blocked=is_reset)
            if pre is None:
                out.append(inst("RESET-ALL-EXITS", HOLDS, entry, key,
                                "reset-before-use: self._reset_cache_() dominates this evaluation point", line=rn.lineno))
                continue
            s, p = bad[0]
            kinds = sorted({e.kind for e in p})
            how = {"e": "an exception (user code raising, or the exceptions the entry is specified to raise)",
                   "s": "the result iterator being closed / dropped while suspended"}
            which = [how[k] for k in kinds if k in how] or ["a normal path"]
            out.append(inst("RESET-ALL-EXITS", VIOLATION, entry, key,
                            f"evaluation can leave through {' or '.join(which)} without self._reset_cache_(): the "
                            f"de-duplication state of this evaluation leaks into the next one. Path: "
                            + " ".join(cfg.describe_path(p)[-3:]), line=rn.lineno, detail=cfg.describe_path(p)))
    return out


def rule_reset_all_exits_the(db: ProgramDB) -> List[Instance]:
    return rule_reset_all_exits(db, only="The")
