"""The truth flag of an expression (`_is_false_`) is decided anew for every row."""
from __future__ import annotations

import ast
import itertools
from typing import Dict, List, Optional, Set, Tuple

from ..db import ProgramDB, FuncInfo, ClassInfo, AnalysisError, unparse, own_nodes
from ..boolexpr import guards_of
from ..framework import inst, HOLDS, VIOLATION, UNDECIDED, INFO, Instance
from .entries import is_eval_method_name


def _conjuncts(g: Optional[List[Tuple[ast.AST, bool]]]) -> List[Tuple[str, bool, ast.AST]]:
    res = []
    for t, pol in (g or []):
        stack = [(t, pol)]
        while stack:
            e, p = stack.pop()
            if isinstance(e, ast.UnaryOp) and isinstance(e.op, ast.Not):
                stack.append((e.operand, not p))
            elif isinstance(e, ast.BoolOp) and isinstance(e.op, ast.And) and p:
                stack.extend((v, p) for v in e.values)
            else:
                res.append((unparse(e), p, e))
    return res


def _structural(e: ast.AST) -> bool:
    """a test on how the expression is built (has it a child at all), the same for every row and every request"""
    if isinstance(e, ast.Attribute) and isinstance(e.value, ast.Name) and e.value.id == "self" and e.attr in ("_child_", "left", "right", "_var_", "selected_variables"):
        return True
    if isinstance(e, ast.Compare) and len(e.ops) == 1 and isinstance(e.ops[0], (ast.Is, ast.IsNot)) and _structural(e.left):
        return True
    return False


def rule_flag_per_row(db: ProgramDB) -> List[Instance]:
    """An evaluation method that copies the truth of the row from its operand (`self._is_false_ = self._child_._is_false_`) and then reads
    its own flag - to drop the row, to decide what to store - reads the flag OF THIS ROW only if the copy was made on the way: the attribute
    outlives the row, the evaluation and the request.  Rule: inside a loop over rows, every read of `self._is_false_` that follows an
    assignment to it is reached only under conditions under which one of the assignments was executed; the only condition an assignment may
    have beyond those of the read is a structural one (the expression has no operand to copy from - then nothing ever sets the flag).  A copy
    made only when false rows were asked for leaves, for every other request, the truth of the last row of the PREVIOUS request in place."""
    out = []
    se = db.cls("SymbolicExpression")
    n = 0
    for c in sorted(se.all_subclasses(), key=lambda k: k.qualname):
        for name, fn in sorted(c.methods.items()):
            if fn.cls is not c or not is_eval_method_name(name):
                continue
            for loop in [x for x in own_nodes(fn.node) if isinstance(x, ast.For)]:
                def is_flag(x):
                    return isinstance(x, ast.Attribute) and x.attr == "_is_false_" and isinstance(x.value, ast.Name) and x.value.id == "self"
                assigns = [a for a in ast.walk(loop) if isinstance(a, ast.Assign) and any(is_flag(t) for t in a.targets)]
                if not assigns:
                    continue
                reads = [x for x in ast.walk(loop) if is_flag(x) and isinstance(x.ctx, ast.Load)]
                for r in sorted(reads, key=lambda x: (x.lineno, x.col_offset)):
                    prior = [a for a in assigns if (a.lineno, a.col_offset) < (r.lineno, r.col_offset)]
                    if not prior:
                        continue
                    g_r = {(s, p) for s, p, _e in _conjuncts(guards_of(r, loop.body))}
                    extras = []
                    for a in prior:
                        ga = _conjuncts(guards_of(a, loop.body))
                        extras.append([(s, p, e) for s, p, e in ga if (s, p) not in g_r and not _structural(e)])
                    atoms = sorted({s for ex in extras for s, _p, _e in ex})
                    if len(atoms) > 8:
                        out.append(inst("FLAG-PER-ROW", UNDECIDED, fn, f"{fn.short}[read of the flag at +{r.lineno - fn.node.lineno}]", "too many conditions to enumerate", line=r.lineno))
                        continue
                    uncovered = None
                    for vals in itertools.product((True, False), repeat=len(atoms)):
                        env = dict(zip(atoms, vals))
                        if any(env.get(s, p) != p for s, p in g_r if s in env):
                            continue
                        if not any(all(env[s] == p for s, p, _e in ex) for ex in extras):
                            uncovered = env
                            break
                    n += 1
                    st = r
                    while st is not None and not isinstance(st, ast.stmt):
                        st = db.parent(st)
                    txt = unparse(st.test if isinstance(st, (ast.If, ast.While)) else st)[:70] if st is not None else unparse(r)
                    out.append(inst("FLAG-PER-ROW", VIOLATION if uncovered is not None else HOLDS, fn, f"{fn.short}[flag read in `{txt[:50]}`]",
                                    "the flag was assigned for this row on every path to the read (or the expression has no operand to copy it from)" if uncovered is None else
                                    f"`{txt}` reads `self._is_false_`, which this row assigned only when "
                                    f"{' and '.join(('' if p else 'not ') + s for s, p, _e in extras[0]) or '?'}; when {', '.join(f'{k} is {v}' for k, v in uncovered.items())} "
                                    f"the flag is what the last row of an earlier request left behind: a sub-query once evaluated as the left operand of an or_ whose "
                                    f"last row was false yields nothing afterwards wherever only true rows are asked for", line=r.lineno))
    if n == 0:
        raise AnalysisError("no evaluation loop that assigns and then reads its own truth flag found")
    return out


# ---------------------------------------------------------------------------------- LOOP-RAN-FLAG
def rule_loop_ran_flag(db: ProgramDB) -> List[Instance]:
    """`produced = False; for row in stream: produced = True ...; if not produced: <evaluate / build something instead>` - the fallback is
    for a stream that produced NOTHING.  That is what the flag says only if every row sets it: an assignment that a `continue` (a row answered
    from the result cache), an early exit of the iteration or a condition can bypass leaves the flag False although rows were produced and
    handed on, and the fallback then runs in addition to them (the right side of an or_ evaluated again on the whole incoming binding:
    duplicated rows from the second evaluation on).  Path rule: from the first statement of the loop body, no path comes back to the loop
    head, or leaves the loop, without passing the assignment."""
    from ..cfg import CFG
    out = []
    n = 0
    for fn in sorted(db.all_functions(), key=lambda f: f.qualname):
        if fn.module not in ("symbolic", "conclusion_selector", "conclusion", "cache_data", "hashed_data"):
            continue
        falses = [a for a in own_nodes(fn.node) if isinstance(a, ast.Assign) and len(a.targets) == 1 and isinstance(a.targets[0], ast.Name)
                  and isinstance(a.value, ast.Constant) and a.value.value is False]
        cfg = None
        for f0 in falses:
            name = f0.targets[0].id
            trues = [a for a in own_nodes(fn.node) if isinstance(a, ast.Assign) and any(isinstance(t, ast.Name) and t.id == name for t in a.targets)
                     and isinstance(a.value, ast.Constant) and a.value.value is True]
            if not trues:
                continue
            # the loop that sets it, and the fallback that reads it afterwards
            loops = [l for l in own_nodes(fn.node) if isinstance(l, ast.For) and any(t is x for t in trues for x in ast.walk(l)) and not any(x is f0 for x in ast.walk(l))]
            if not loops:
                continue
            loop = min(loops, key=lambda l: sum(1 for _ in ast.walk(l)))         # the innermost
            fallbacks = [i for i in own_nodes(fn.node) if isinstance(i, ast.If) and i.lineno > loop.lineno and not any(x is i for x in ast.walk(loop))
                         and any(isinstance(x, ast.Name) and x.id == name for x in ast.walk(i.test))]
            def acts_on(i):
                if any(isinstance(x, (ast.Yield, ast.YieldFrom)) for b in i.body + i.orelse for x in ast.walk(b)):
                    return True
                if i.body and isinstance(i.body[-1], (ast.Continue, ast.Return, ast.Break)) and not i.orelse:
                    par = db.parent(i)                  # `if produced: continue` - the fallback is what follows
                    for fld in ("body", "orelse", "finalbody"):
                        blk = getattr(par, fld, None) or []
                        if any(b is i for b in blk):
                            rest = blk[[k for k, b in enumerate(blk) if b is i][0] + 1:]
                            return any(isinstance(x, (ast.Yield, ast.YieldFrom)) for b in rest for x in ast.walk(b))
                return False
            acts = [i for i in fallbacks if acts_on(i)]
            if not acts:
                continue              # read for a statistic only
            cfg = cfg or CFG(fn)
            heads = [nd for nd in cfg.nodes if nd.kind == "for" and nd.stmt is loop]
            if len(heads) != 1:
                raise AnalysisError(f"{fn.qualname}: loop node of `{name}` not found in the flow graph")
            h = heads[0]

            def sets(nd, name=name):
                return isinstance(nd.ast, ast.Assign) and any(isinstance(t, ast.Name) and t.id == name for t in nd.ast.targets) \
                    and isinstance(nd.ast.value, ast.Constant) and nd.ast.value.value is True
            inside = {id(x) for x in ast.walk(loop)}
            bad = None
            for e in cfg.succ[h.id]:
                if e.kind != "n" or e.label != "iter":
                    continue
                first = cfg.nodes[e.dst]
                if sets(first):
                    continue
                # back to the head, or out of the loop (a node whose statement is not inside the loop), without the assignment
                p = cfg.find_path(first.id, lambda nd: nd.id == h.id or (nd.ast is not None and id(nd.ast) not in inside and id(nd.stmt) not in inside and nd.id != cfg.exit),
                                  kinds=("n",), blocked=sets)
                if p is not None:
                    bad = [e] + p
            n += 1
            out.append(inst("LOOP-RAN-FLAG", VIOLATION if bad else HOLDS, fn, f"{fn.short}[{name}]",
                            f"every row of the loop sets `{name}` before anything else can end the iteration" if not bad else
                            f"`{name}` says whether the stream produced a row at all (`{unparse(acts[0].test)}` runs the fallback), but an iteration can end without setting it: "
                            f"{' '.join(cfg.describe_path(bad)[:5])} - rows that were produced and handed on (e.g. answered from the result cache) are followed by the fallback "
                            f"as if there had been none", line=trues[0].lineno))
    if n < 3:
        raise AnalysisError(f"only {n} 'the stream produced a row' flags with a fallback found")
    return out


# ---------------------------------------------------------------------------------- SEEN-RECORDED
def rule_seen_recorded(db: ProgramDB) -> List[Instance]:
    """`if x in seen: continue` drops what was handled before - provided what is handled is put into `seen`.  A local collection that is
    tested that way and then not added to on the way to the `yield` suppresses nothing: a row the result-cache index holds twice (stored once
    by an evaluation that had bound fewer of the keys) is replayed twice.  Path rule: from the outcome 'not seen' of the test, every path to a
    yield of the same iteration passes an addition to the collection."""
    from ..cfg import CFG
    from ..facts import call_attr
    out = []
    n = 0
    for fn in sorted(db.all_functions(), key=lambda f: f.qualname):
        if fn.module not in ("symbolic", "conclusion_selector", "conclusion", "cache_data", "hashed_data") or not fn.is_generator:
            continue
        inits = {a.targets[0].id for a in own_nodes(fn.node) if isinstance(a, ast.Assign) and len(a.targets) == 1 and isinstance(a.targets[0], ast.Name)
                 and (isinstance(a.value, (ast.List, ast.Set, ast.Dict)) or (isinstance(a.value, ast.Call) and isinstance(a.value.func, ast.Name)
                                                                             and a.value.func.id in ("set", "list", "dict", "SeenSet", "HashedIterable")))}
        cfg = None
        for i in [x for x in own_nodes(fn.node) if isinstance(x, ast.If)]:
            t = i.test
            if not (isinstance(t, ast.Compare) and len(t.ops) == 1 and isinstance(t.ops[0], (ast.In, ast.NotIn)) and isinstance(t.comparators[0], ast.Name)
                    and t.comparators[0].id in inits):
                continue
            seen_branch = i.body if isinstance(t.ops[0], ast.In) else i.orelse
            if not (seen_branch and isinstance(seen_branch[-1], ast.Continue) and len(seen_branch) == 1):
                continue
            S = t.comparators[0].id
            cfg = cfg or CFG(fn)
            tn = [nd for nd in cfg.nodes if nd.kind == "test" and nd.stmt is i]
            if len(tn) != 1:
                raise AnalysisError(f"{fn.qualname}: test node of `{unparse(t)}` not found")
            fresh_label = "F" if isinstance(t.ops[0], ast.In) else "T"

            def adds(nd, S=S):
                if nd.ast is None:
                    return False
                scan = nd.ast.test if isinstance(nd.ast, (ast.If, ast.While)) else nd.ast.iter if isinstance(nd.ast, ast.For) else nd.ast
                for x in ast.walk(scan):
                    if isinstance(x, ast.Call) and call_attr(x) in ("add", "append", "update", "extend", "insert", "setdefault") and isinstance(x.func.value, ast.Name) and x.func.value.id == S:
                        return True
                    if isinstance(x, ast.Subscript) and isinstance(x.ctx, ast.Store) and isinstance(x.value, ast.Name) and x.value.id == S:
                        return True
                    if isinstance(x, ast.AugAssign) and isinstance(x.target, ast.Name) and x.target.id == S:
                        return True
                return False
            bad = None
            for e in cfg.succ[tn[0].id]:
                if e.kind != "n" or e.label != fresh_label:
                    continue
                first = cfg.nodes[e.dst]
                if adds(first):
                    continue
                p = [] if first.has_yield else cfg.find_path(first.id, lambda nd: nd.has_yield, kinds=("n",), blocked=adds)
                if p is not None:
                    bad = [e] + p
            n += 1
            out.append(inst("SEEN-RECORDED", VIOLATION if bad else HOLDS, fn, f"{fn.short}[{unparse(t)}]",
                            f"what passes `{unparse(t)}` is added to `{S}` before it is handed on" if not bad else
                            f"`{unparse(t)}` drops what was handed on before, but a row reaches the yield without being added to `{S}` ({' '.join(cfg.describe_path(bad)[:4])}): "
                            f"nothing is ever dropped - a row the index holds twice (stored once with fewer keys bound) is replayed twice, and a re-evaluation answered from "
                            f"the cache returns more rows than the first", line=i.lineno))
    if n == 0:
        raise AnalysisError("no 'seen before' test on a local collection found in the evaluation generators")
    return out


# ---------------------------------------------------------------------------------- STREAM-UNDER-CLEANUP
def rule_stream_under_cleanup(db: ProgramDB) -> List[Instance]:
    """State that holds WHILE rows are produced (a selected variable marked as inferred, an evaluation parent, a mode) is set before
    the rows are pulled and taken back in a `finally:` / at the end of a `with`.  That brackets the production of the rows only if the
    function that holds the bracket produces them itself (`yield from …` inside the bracket).  `return <stream>` inside it hands out a
    generator that has not started: the `finally` runs at the return, the state is taken back before the first row is computed."""
    out = []
    se = db.cls("SymbolicExpression")
    n = 0
    for c in sorted([se] + se.all_subclasses(), key=lambda k: k.qualname):
        for name, fn in sorted(c.methods.items()):
            if fn.cls is not c:
                continue
            brackets = [t for t in own_nodes(fn.node) if (isinstance(t, ast.Try) and t.finalbody) or isinstance(t, ast.With)]
            if not brackets:
                continue
            for t in brackets:
                body = t.body
                for st in [x for b in body for x in ast.walk(b)]:
                    streams = []
                    if isinstance(st, ast.Return) and st.value is not None:
                        streams = [x for x in ast.walk(st.value) if isinstance(x, ast.Call) and isinstance(x.func, ast.Attribute) and is_eval_method_name(x.func.attr)]
                    elif isinstance(st, ast.YieldFrom):
                        n += 1
                        continue
                    if not streams:
                        continue
                    for call in streams:
                        recv = call.func.value
                        impls = []
                        if isinstance(recv, ast.Call) and isinstance(recv.func, ast.Name) and recv.func.id == "super":
                            for b in c.mro[1:]:
                                if call.func.attr in b.methods:
                                    impls = [b.methods[call.func.attr]]
                                    break
                        elif isinstance(recv, ast.Name) and recv.id == "self":
                            impls = [s.methods[call.func.attr] for s in [c] + c.all_subclasses() if call.func.attr in s.methods]
                            if not impls and c.lookup(call.func.attr):
                                impls = [c.lookup(call.func.attr)]
                        else:
                            impls = [s.methods[call.func.attr] for s in [se] + se.all_subclasses() if call.func.attr in s.methods]
                        lazy = [m for m in impls if m.is_generator]
                        if not lazy:
                            continue
                        n += 1
                        what = "finally" if isinstance(t, ast.Try) else "with"
                        out.append(inst("STREAM-UNDER-CLEANUP", VIOLATION, fn, f"{fn.short}[{unparse(st)[:60]}]",
                                        f"`{unparse(st)[:80]}` hands out the generator of {lazy[0].short} from inside a `{what}` bracket (line {t.lineno}): the bracket is left at the "
                                        f"return, before the first row is produced - what it holds for the duration of the evaluation (the selected variables of infer(...) marked "
                                        f"as inferred, the evaluation parent, the mode) is taken back before any row is computed", line=st.lineno))
    out.append(inst("STREAM-UNDER-CLEANUP", HOLDS, se, "evaluation methods[rows are produced inside their bracket]",
                    f"{n} productions of rows inside try/finally or with brackets examined: each by `yield from`, none by returning an unstarted generator"))
    if n == 0:
        raise AnalysisError("no production of rows inside a try/finally or with bracket found")
    return out


# ---------------------------------------------------------------------------------- OPERATION-ON-VALUES
def rule_operation_on_values(db: ProgramDB) -> List[Instance]:
    """The operation of a comparison receives the two operand VALUES.  The package's own operations (what a negated membership test is
    turned into) are functions of `operator.<op>(a, b)` only: an operand is never asked for its truth (`not a`, `a or …`, `if a`) - '' is in
    '', an empty user container can answer yes to `in`, 0 equals 0."""
    out = []
    comp = db.cls("Comparator")
    ops: Dict[str, FuncInfo] = {}
    for c in [comp] + comp.all_subclasses():
        for m in list(c.methods.values()) + list(c.setters.values()):
            for a in own_nodes(m.node):
                if isinstance(a, ast.Assign) and any(isinstance(t, ast.Attribute) and t.attr == "operation" for t in a.targets) and isinstance(a.value, ast.Name):
                    f = db.resolve_dotted(m.module, a.value)
                    if isinstance(f, FuncInfo):
                        ops[f.qualname] = f
    for fn in db.all_functions():
        for call in [x for x in own_nodes(fn.node) if isinstance(x, ast.Call)]:
            t = db.resolve_dotted(fn.module, call.func) if isinstance(call.func, (ast.Name, ast.Attribute)) else None
            if isinstance(t, ClassInfo) and (t is comp or t.is_subclass_of(comp)) and len(call.args) >= 3 and isinstance(call.args[2], ast.Name):
                f = db.resolve_dotted(fn.module, call.args[2])
                if isinstance(f, FuncInfo):
                    ops[f.qualname] = f
    if not ops:
        raise AnalysisError("no comparison operation defined in the package found (the complement of `contains`)")
    for q, f in sorted(ops.items()):
        params = set(f.positional_params)
        bad = None
        for x in own_nodes(f.node):
            tests = []
            if isinstance(x, ast.UnaryOp) and isinstance(x.op, ast.Not):
                tests = [x.operand]
            elif isinstance(x, ast.BoolOp):
                tests = list(x.values)
            elif isinstance(x, (ast.If, ast.While, ast.IfExp)):
                tests = [x.test]
            elif isinstance(x, ast.Call) and isinstance(x.func, ast.Name) and x.func.id in ("bool", "len", "any", "all") and x.args:
                tests = [x.args[0]]
            elif isinstance(x, ast.Compare) and any(isinstance(o, (ast.Is, ast.IsNot)) for o in x.ops):
                tests = [x.left] + list(x.comparators)
            for t in tests:
                if isinstance(t, ast.Name) and t.id in params:
                    bad = bad or x
        out.append(inst("OPERATION-ON-VALUES", VIOLATION if bad is not None else HOLDS, f, f"{f.short}[operands]",
                        f"`{unparse(bad)[:70]}` asks an operand for its truth (or for being None): the outcome of the comparison then depends on whether the VALUE is falsy - "
                        f"not_(contains('', '')) holds, a container that is empty by `__len__` but answers `in` is said not to contain" if bad is not None else
                        "the operands are only handed to the operator", line=(bad or f.node).lineno))
    return out


# ---------------------------------------------------------------------------------- ROW-NOT-MEMOISED
def _row_memo(fnode: ast.AST) -> Optional[Tuple[str, ast.AST, ast.AST]]:
    """(attribute, the statement that keeps a row in it, the statement that hands the kept row out) if the function keeps a row it produced in an
    attribute of self and hands out what it kept on another call."""
    handed: Set[str] = set()
    for x in ast.walk(fnode):
        if isinstance(x, (ast.Return, ast.Yield)) and x.value is not None:
            handed |= {n.id for n in ast.walk(x.value) if isinstance(n, ast.Name)}
    # locals copied from / into handed-out names
    changed = True
    flows: Dict[str, Set[str]] = {}
    for a in ast.walk(fnode):
        if isinstance(a, ast.Assign) and len(a.targets) == 1 and isinstance(a.targets[0], ast.Name):
            flows.setdefault(a.targets[0].id, set()).update(n.id for n in ast.walk(a.value) if isinstance(n, ast.Name))
    kept = {}
    for a in ast.walk(fnode):
        if isinstance(a, ast.Assign):
            for t in a.targets:
                if isinstance(t, ast.Attribute) and isinstance(t.value, ast.Name) and t.value.id == "self":
                    names = {n.id for n in ast.walk(a.value) if isinstance(n, ast.Name)}
                    if names & handed and not isinstance(a.value, (ast.Compare, ast.BoolOp, ast.UnaryOp, ast.Constant)):
                        kept[t.attr] = a
    for attr, keep in kept.items():
        for a in ast.walk(fnode):
            reads = [x for x in ast.walk(a) if isinstance(x, ast.Attribute) and x.attr == attr and isinstance(x.value, ast.Name) and x.value.id == "self"
                     and isinstance(x.ctx, ast.Load)] if isinstance(a, (ast.Return, ast.Yield, ast.Assign)) else []
            if not reads:
                continue
            if isinstance(a, (ast.Return, ast.Yield)):
                return attr, keep, a
            if isinstance(a, ast.Assign) and any(isinstance(t, ast.Name) and t.id in handed for t in a.targets):
                return attr, keep, a
    return None


def rule_row_not_memoised(db: ProgramDB) -> List[Instance]:
    """An expression is evaluated once per row of whatever encloses it, each time under another binding.  What it hands out for one binding is
    not what it hands out for the next: an evaluation method keeps no row it produced in an attribute of the node to hand it out again (the
    result caches are keyed by the binding; an un-keyed memo is right only as long as the expression mentions no variable of the enclosing
    query - a correlated `the(...)` tested against the solution found for the first binding)."""
    probe = ast.parse("def _evaluate_(self, sources):\n    if self._s_ is not None:\n        r = copy(self._s_)\n        return r\n    r = compute(sources)\n    self._s_ = r\n    return r\n").body[0]
    if _row_memo(probe) is None or _row_memo(ast.parse("def f(self, s):\n    self._flag_ = s is None\n    r = g(s)\n    return r\n").body[0]) is not None:
        raise AnalysisError("ROW-NOT-MEMOISED: the detector fails on its own examples")
    out = []
    se = db.cls("SymbolicExpression")
    n = 0
    for c in sorted([se] + se.all_subclasses(), key=lambda k: k.qualname):
        for name, m in sorted(c.methods.items()):
            if m.cls is not c or not is_eval_method_name(name):
                continue
            n += 1
            hit = _row_memo(m.node)
            if hit is not None:
                attr, keep, give = hit
                out.append(inst("ROW-NOT-MEMOISED", VIOLATION, m, f"{m.short}[self.{attr}]",
                                f"`{unparse(keep)[:60]}` keeps the row this call produced and `{unparse(give)[:60]}` hands the kept row out on a later call, whatever the binding "
                                f"that call is made under: an operand that mentions a variable of the enclosing query (a correlated the(...)) is answered with the solution "
                                f"found for the first binding", line=give.lineno))
    out.append(inst("ROW-NOT-MEMOISED", HOLDS, se, "evaluation methods[no un-keyed memo of rows]", f"{n} evaluation methods examined"))
    return out


# ---------------------------------------------------------------------------------- VARIABLE-DISPATCH
def rule_variable_dispatch(db: ProgramDB) -> List[Instance]:
    """Variable._evaluate__ is one chain of cases: bound already / ranges over a domain / takes the registry / is constructed or called.
    Evaluated as a table: a variable that stands for a predicate is CALLED whether or not it has argument expressions (a predicate without
    arguments is a predicate), a constructor term with arguments is constructed, and a variable that is inferred through explicit conclusions
    only (no arguments, not a predicate) is not constructed by its own evaluation."""
    from ..boolexpr import eval_bool
    from ..facts import call_attr
    out = []
    m = db.method("Variable", "_evaluate__")
    chain = [st for st in m.node.body if isinstance(st, ast.If)]
    if not chain:
        raise AnalysisError("Variable._evaluate__: the chain of cases was not found")
    top = chain[-1]
    bp = [p for p in m.positional_params[1:2]] or ["sources"]

    def atom(e):
        u = unparse(e)
        if isinstance(e, ast.Compare) and len(e.ops) == 1 and isinstance(e.ops[0], (ast.In, ast.NotIn)) and unparse(e.comparators[0]) == bp[0]:
            return ("!" if isinstance(e.ops[0], ast.NotIn) else "") + "BOUND"
        return {"self._domain_": "DOMAIN", "self._is_inferred_": "INFERRED", "self._predicate_type_": "PRED", "self._child_vars_": "ARGS"}.get(u)

    def constructs(stmts) -> bool:
        return any(isinstance(c, ast.Call) and (call_attr(c) or "").startswith(("_yield_from_cache_or_instantiate", "_instantiate_new_values", "_call_user_code_"))
                   for st in stmts for c in ast.walk(st))
    cases = {
        "a predicate without arguments": (dict(BOUND=False, DOMAIN=False, INFERRED=False, PRED=True, ARGS=False), True),
        "a predicate with arguments": (dict(BOUND=False, DOMAIN=False, INFERRED=False, PRED=True, ARGS=True), True),
        "an inferred constructor term": (dict(BOUND=False, DOMAIN=False, INFERRED=True, PRED=False, ARGS=True), True),
        "a variable inferred through explicit conclusions only": (dict(BOUND=False, DOMAIN=False, INFERRED=True, PRED=False, ARGS=False), False),
    }
    for label, (env, want) in cases.items():
        node, got = top, False
        try:
            while node is not None:
                if bool(eval_bool(node.test, atom, env)):
                    got = constructs(node.body)
                    break
                if len(node.orelse) == 1 and isinstance(node.orelse[0], ast.If):
                    node = node.orelse[0]
                else:
                    got = constructs(node.orelse)
                    break
        except (AnalysisError, KeyError) as e:
            out.append(inst("VARIABLE-DISPATCH", UNDECIDED, m, f"Variable._evaluate__[{label}]", f"case not decidable: {e}", line=top.lineno))
            continue
        ok = got == want
        out.append(inst("VARIABLE-DISPATCH", HOLDS if ok else VIOLATION, m, f"Variable._evaluate__[{label}]",
                        f"{'called / constructed' if got else 'left to the conclusions'}" if ok else
                        f"{label} is {'constructed by its own evaluation' if got else 'never called: no case of the chain applies and the variable yields nothing'}"
                        + ("" if got else " - an(entity(x, ready())) returns nothing whatever ready() returns"), line=top.lineno))
    return out
