"""C06: `the` returns the unique solution or raises."""
from __future__ import annotations

import ast
from typing import Dict, List, Optional, Set, Tuple

from ..db import ProgramDB, FuncInfo, ClassInfo, AnalysisError, unparse, own_nodes, dotted
from ..cfg import CFG, Node, Edge
from ..facts import own_calls, call_attr, bind_args, fn_params, resolve_call_target
from ..framework import inst, HOLDS, VIOLATION, UNDECIDED, INFO, Instance
from ..abseval import AbsEval, State, const, TOP, TRUE, FALSE, NONE, truth, fmt, is_none
from .entries import public_entries, entry_model, is_eval_method_name

SOL = ("obj", "Sol")
EXIT_FLAGS: Dict[int, Set] = {}       # truth flag left behind when a solution is returned, per solution count (filled by the_outcomes)


def the_outcomes(db: ProgramDB):
    the = db.cls("The")
    entry = the.methods.get("evaluate")
    if entry is None:
        raise AnalysisError("The.evaluate not found")
    # the plain evaluator The.evaluate calls, with the constants it passes
    calls = [c for c in own_calls(entry) if is_eval_method_name(call_attr(c)) and isinstance(c.func.value, ast.Name)
             and c.func.value.id == "self"]
    if len(calls) != 1:
        raise AnalysisError(f"The.evaluate: expected one evaluation call, found {len(calls)}")
    callee = the.lookup(calls[0].func.attr)
    if callee is None or callee.is_generator:
        raise AnalysisError("The.evaluate no longer calls a plain (non-generator) evaluator; idiom not in the table")
    amap = bind_args(fn_params(callee), calls[0])
    init: Dict[str, object] = {}
    for p, _ in fn_params(callee):
        e = amap.get(p, callee.param_default(p))
        if isinstance(e, ast.Constant):
            init[p] = const(e.value)
        elif e is None:
            raise AnalysisError(f"The.evaluate does not pass `{p}`")
        else:
            init[p] = TOP
    cfg = CFG(callee)
    # the loop over the child's solutions
    loops = [n for n in cfg.nodes if n.kind == "for" and not n.region]
    gen_names = set()
    for n in own_nodes(callee.node):
        if isinstance(n, ast.Assign) and isinstance(n.value, ast.Call) and is_eval_method_name(call_attr(n.value)) \
                and len(n.targets) == 1 and isinstance(n.targets[0], ast.Name):
            gen_names.add(n.targets[0].id)
    sol_loops = [n for n in loops if (isinstance(n.ast.iter, ast.Name) and n.ast.iter.id in gen_names) or
                 (isinstance(n.ast.iter, ast.Call) and is_eval_method_name(call_attr(n.ast.iter)))]
    if len(sol_loops) != 1:
        raise AnalysisError(f"{callee.qualname}: expected one loop over the child's solutions, found {len(sol_loops)}")
    loop = sol_loops[0]
    EXIT_FLAGS.clear()
    results = {}
    # the flag an evaluation leaves behind is the flag the next one starts with - whatever number of solutions the next one
    # finds (the data may have changed, or the quantifier is nested and evaluated once per binding of the enclosing query):
    # the set of entry flags is closed over ALL solution counts together.
    entry_flags = {FALSE}
    done: Set = set()
    acc: Dict[int, Set[Tuple[str, str]]] = {0: set(), 1: set(), 2: set()}
    seen_flags: Dict[int, Set] = {0: set(), 1: set(), 2: set()}
    while True:
        todo = [(N, f) for N in (0, 1, 2) for f in sorted(entry_flags, key=str) if (N, f) not in done]
        if not todo:
            break
        for N, flag in todo:
            done.add((N, flag))
            seen_flags[N].add(flag)
            outcomes = acc[N]
            done_flags = seen_flags[N]

            def post_hook(node, st_in, st_out, ev):
                return st_out

            ev = AbsEval(db, callee, cfg)
            base_edge = ev.edge_transfer

            def edge_transfer(e: Edge, node: Node, st_in, st_out, N=N):
                if node.id == loop.id and e.kind == "n":
                    n = st_in.get("$n")[1]
                    if e.label == "iter":
                        if n >= N and N < 2:
                            return None
                        st = st_out.set("$n", const(min(2, n + 1)))
                        return ev.assign(loop.ast.target, {SOL}, st)
                    if e.label == "done":
                        if N == 2:
                            if n < 2:
                                return None
                        elif n != N:
                            return None
                        return st_out
                if e.kind != "n":
                    return None      # outcomes are taken at raise statements / returns, not at may-raise edges
                return base_edge(e, node, st_in, st_out)
            d = dict(init)
            d.update({"$n": const(0), "self._is_false_": flag})
            from ..cfg import run_forward
            IN = run_forward(cfg, State(d), ev.transfer, edge_transfer, kinds=("n",))
            for n in cfg.nodes:
                for st in IN[n.id]:
                    if n.kind == "return":
                        vals = ev.eval(n.ast.value, st) if n.ast.value is not None else {NONE}
                        for v in vals:
                            nn = is_none(v)
                            outcomes.add(("returns", "a solution" if v == SOL else ("None" if nn else fmt(v))))
                            if v == SOL:
                                EXIT_FLAGS.setdefault(N, set()).add(ev.transfer(n, st).get("self._is_false_"))
                        entry_flags.add(ev.transfer(n, st).get("self._is_false_"))
                    elif n.kind == "raise_stmt":
                        exc = n.ast.exc
                        name = "?"
                        if isinstance(exc, ast.Call):
                            r = resolve_call_target(db, callee, exc)
                            name = r.qualname if isinstance(r, ClassInfo) else unparse(exc.func)
                        elif exc is not None:
                            name = unparse(exc)
                        outcomes.add(("raises", name))
                        entry_flags.add(st.get("self._is_false_"))
            if cfg.exit in IN and any(True for st in IN[cfg.exit]) and not any(
                    n.kind == "return" and IN[n.id] for n in cfg.nodes):
                outcomes.add(("returns", "None (falls off the end)"))
            entry_flags = {f for f in entry_flags if f in (TRUE, FALSE)} | ({TRUE, FALSE} if any(
                f not in (TRUE, FALSE) for f in entry_flags) else set())
    for N in (0, 1, 2):
        results[N] = (acc[N], sorted(fmt(f) for f in seen_flags[N]))
    return callee, results


EXPECTED = {0: {("raises", "failures:NoSolutionFound")}, 1: {("returns", "a solution")},
            2: {("raises", "failures:MultipleSolutionFound")}}


def rule_the_outcome(db: ProgramDB) -> List[Instance]:
    out = []
    callee, results = the_outcomes(db)
    label = {0: "no satisfying assignment", 1: "exactly one", 2: "two or more"}
    for N, (outcomes, flags) in sorted(results.items()):
        ok = outcomes == EXPECTED[N]
        out.append(inst("THE-OUTCOME", HOLDS if ok else VIOLATION, callee, f"{callee.short}[solutions={'>=2' if N == 2 else N}]",
                        f"{label[N]}: reachable outcomes {sorted(outcomes)} (entry _is_false_ in {flags})" +
                        ("" if ok else f"; required exactly {sorted(EXPECTED[N])}")))
    # the truth the quantifier reports for the solution it returns: a nested `the` is a condition of the enclosing query, and its
    # parent reads the flag - 'found' must not be reported as false because an earlier binding found nothing
    flags = EXIT_FLAGS.get(1, set())
    ok = bool(flags) and all(f == FALSE for f in flags)
    out.append(inst("THE-OUTCOME", HOLDS if ok else VIOLATION, callee, f"{callee.short}[solutions=1: truth on exit]",
                    "a returned solution leaves _is_false_ = False whatever the flag was on entry" if ok else
                    f"when exactly one solution is found the truth flag on exit is in {sorted(fmt(f) for f in flags)}: a nested `the` that found nothing for an "
                    f"earlier binding of the enclosing query keeps reporting 'false' after it finds its unique solution for a later one, and an enclosing or_ "
                    f"drops that row"))
    return out


def rule_projection_shared(db: ProgramDB) -> List[Instance]:
    out = []
    targets = {}
    for e in public_entries(db):
        uses = []
        for c in own_calls(e):
            if call_attr(c) == "_process_result_" and isinstance(c.func.value, ast.Name) and c.func.value.id == "self":
                uses.append(c)
        for n in own_nodes(e.node):
            if isinstance(n, ast.Call) and dotted(n.func) == "map" and n.args and isinstance(n.args[0], ast.Attribute) \
                    and n.args[0].attr == "_process_result_":
                uses.append(n)
        impl = {c.lookup("_process_result_").qualname for c in e.cls.all_subclasses() if c.lookup("_process_result_")}
        targets[e.qualname] = impl
        em = entry_model(db, e)
        # the projected value must be what evaluation produced
        ok_flow = False
        for u in uses:
            args = u.args if call_attr(u) == "_process_result_" else u.args[1:]
            for a in args:
                names = {x.id for x in ast.walk(a) if isinstance(x, ast.Name)}
                for nm in names:
                    if nm in em.gen_vars:
                        ok_flow = True
                    for n2 in own_nodes(e.node):
                        if isinstance(n2, ast.Assign) and any(isinstance(t, ast.Name) and t.id == nm for t in n2.targets):
                            v = n2.value
                            if any(isinstance(x, ast.Call) and is_eval_method_name(call_attr(x)) for x in ast.walk(v)):
                                ok_flow = True
                            if any(isinstance(x, ast.Name) and x.id in em.gen_vars for x in ast.walk(v)):
                                ok_flow = True
        ok = bool(uses) and ok_flow
        out.append(inst("PROJECTION-SHARED", HOLDS if ok else VIOLATION, e, f"{e.short}[projection]",
                        "the user-visible value is self._process_result_(<binding produced by evaluation>)" if ok else
                        "the entry does not turn the evaluated binding into the user value through _process_result_"))
    impls = set().union(*targets.values()) if targets else set()
    ok = len(impls) == 1
    rq = db.cls("ResultQuantifier")
    out.append(inst("PROJECTION-SHARED", HOLDS if ok else VIOLATION, rq, "ResultQuantifier._process_result_[single implementation]",
                    f"an/the/infer share one projection: {sorted(impls)}" if ok else
                    f"the quantifiers project through different implementations {sorted(impls)}: the value `the` returns "
                    f"need not be the one `an` yields"))
    return out


def rule_var_null_guard(db: ProgramDB) -> List[Instance]:
    """`_var_` of a result quantifier is None when its descriptor is a SetOf (only Entity designates a single selected
    variable).  Every dereference of self._var_ in the quantifiers' evaluation code must therefore be guarded - sibling
    cross-check: where one quantifier tests it before use, the other must too."""
    from ..boolexpr import guards_of
    out = []
    rq = db.cls("ResultQuantifier")
    qod = db.cls("QueryObjectDescriptor")
    # which descriptors set _var_?
    setters = []
    for c in qod.all_subclasses():
        for m in c.methods.values():
            for n in own_nodes(m.node):
                if isinstance(n, ast.Assign) and any(isinstance(t, ast.Attribute) and t.attr == "_var_" and
                                                     isinstance(t.value, ast.Name) and t.value.id == "self" for t in n.targets):
                    setters.append(c.name)
    concrete = [c.name for c in qod.all_subclasses(include_self=False)]
    may_be_none = [c for c in concrete if c not in setters and not any(s for s in setters if db.cls(c).is_subclass_of(s))]
    if not may_be_none:
        out.append(inst("VAR-NULL-GUARD", INFO, rq, "ResultQuantifier._var_", "every descriptor designates a single variable"))
        return out
    n = 0
    for c in rq.all_subclasses():
        for m in c.methods.values():
            if m.name in ("__post_init__",):
                continue
            for x in own_nodes(m.node):
                if isinstance(x, ast.Attribute) and isinstance(x.value, ast.Attribute) and x.value.attr == "_var_" \
                        and isinstance(x.value.value, ast.Name) and x.value.value.id == "self" and isinstance(x.ctx, ast.Load):
                    n += 1
                    g = guards_of(x, m.node.body) or []
                    guarded = any(unparse(t) == "self._var_" and pol for t, pol in g) or \
                        any("self._var_ is not None" in unparse(t) and pol for t, pol in g) or \
                        any(isinstance(t, ast.Call) and dotted(t.func) == "isinstance" and "Entity" in unparse(t) and pol for t, pol in g)
                    out.append(inst("VAR-NULL-GUARD", HOLDS if guarded else VIOLATION, m, f"{m.short}[{unparse(x)}]",
                                    f"`{unparse(x)}` is used only when the quantifier has a single selected variable" if guarded else
                                    f"`{unparse(x)}` is dereferenced unconditionally, but _var_ is None when the descriptor is "
                                    f"{' / '.join(may_be_none)} (a query over several selected variables): the quantifier raises "
                                    f"AttributeError instead of returning its solution", line=x.lineno))
    if n == 0:
        out.append(inst("VAR-NULL-GUARD", INFO, rq, "ResultQuantifier._var_", "no dereference of self._var_ in evaluation code"))
    return out


def rule_quantifier_kind(db: ProgramDB) -> List[Instance]:
    """an()/the()/infer() return a quantifier of the requested kind on every path."""
    out = []
    fn = db.fn("entity:select_one_or_select_many_or_infer")
    qp = fn.positional_params[0]
    rets = [n for n in own_nodes(fn.node) if isinstance(n, ast.Return) and n.value is not None]
    names = {r.value.id for r in rets if isinstance(r.value, ast.Name)}
    n = 0
    for node in own_nodes(fn.node):
        if isinstance(node, ast.Assign) and any(isinstance(t, ast.Name) and t.id in names for t in node.targets):
            n += 1
            v = node.value
            parts = [v.body, v.orelse] if isinstance(v, ast.IfExp) else [v]
            bad = []
            for p in parts:
                built = isinstance(p, ast.Call) and isinstance(p.func, ast.Name) and p.func.id == qp
                if not built:
                    # passing the argument through is only right when it already is of the requested kind
                    from ..boolexpr import guards_of
                    g = (guards_of(node, fn.node.body) or []) + ([(v.test, p is v.body)] if isinstance(v, ast.IfExp) else [])
                    kind_checked = any(qp in unparse(t) and ("type(" in unparse(t) or "isinstance" in unparse(t)) and pol
                                       for t, pol in g)
                    if not kind_checked:
                        bad.append(p)
            out.append(inst("QUANTIFIER-KIND", HOLDS if not bad else VIOLATION, fn, f"select_one_or_select_many_or_infer[{unparse(node)[:40]}]",
                            f"`{unparse(node)[:70]}` returns a `{qp}(...)`" if not bad else
                            f"`{unparse(node)[:70]}` hands back `{unparse(bad[0])}` whatever kind of quantifier was requested: "
                            f"the(T(From(d), f=v)) is an An, and its evaluate() returns a generator instead of the single solution",
                            line=node.lineno))
    if n == 0:
        raise AnalysisError("select_one_or_select_many_or_infer: result assignments not found")
    return out


# ---------------------------------------------------------------------------------- REQUANTIFY-DESCRIPTION
def rule_requantify_description(db: ProgramDB) -> List[Instance]:
    """A predicate-form term T(From(d), f=v) arrives at an()/the()/infer() already quantified: an An over a description whose conditions
    are the keyword constraints.  Asking for another quantifier re-wraps THE DESCRIPTION (`<term>._child_`).  Re-wrapping anything derived from the
    selected variable alone (`<term>._var_`, a new entity(...) over it) leaves the conditions behind: the(T(From(d), name="x")) then ranges over
    the whole of d."""
    from ..boolexpr import guards_of
    out = []
    fn = db.fn("entity:select_one_or_select_many_or_infer")
    qp = fn.positional_params[0]
    rq = db.cls("ResultQuantifier")
    n = 0
    for c in own_calls(fn):
        if not (isinstance(c.func, ast.Name) and c.func.id == qp and c.args):
            continue
        g = guards_of(c, fn.node.body) or []
        par = db.parent(c)
        while par is not None and not isinstance(par, ast.stmt):
            if isinstance(par, ast.IfExp):
                g = g + [(par.test, any(x is c for x in ast.walk(par.body)))]
            par = db.parent(par)
        subj = None
        for t, pol in g:
            for x in ast.walk(t):
                if isinstance(x, ast.Call) and dotted(x.func) == "isinstance" and len(x.args) == 2 and pol and not _under_not(t, x):
                    classes = [e for e in (x.args[1].elts if isinstance(x.args[1], ast.Tuple) else [x.args[1]])]
                    res = [db.resolve_dotted(fn.module, e) for e in classes]
                    if res and all(isinstance(r, ClassInfo) and r.is_subclass_of(rq) for r in res):
                        subj = unparse(x.args[0])
        if subj is None:
            continue
        n += 1
        arg = c.args[0]
        if isinstance(arg, ast.Name):
            ds = [d.value for d in own_nodes(fn.node) if isinstance(d, ast.Assign) and any(isinstance(t, ast.Name) and t.id == arg.id for t in d.targets)]
            if len(ds) == 1:
                arg = ds[0]
        mentions = {x.attr for x in ast.walk(arg) if isinstance(x, ast.Attribute) and unparse(x.value) == subj}
        ok = "_child_" in mentions
        if not ok and "_var_" not in mentions and "selected_variable" not in mentions and "selected_variables" not in mentions:
            out.append(inst("REQUANTIFY-DESCRIPTION", UNDECIDED, fn, f"select_one_or_select_many_or_infer[requantified {subj}]",
                            f"`{unparse(c)[:80]}`: cannot tell whether the conditions of `{subj}` are part of what is wrapped", line=c.lineno))
            continue
        out.append(inst("REQUANTIFY-DESCRIPTION", HOLDS if ok else VIOLATION, fn, f"select_one_or_select_many_or_infer[requantified {subj}]",
                        f"`{unparse(c)[:60]}` wraps the description of the quantified term, conditions included" if ok else
                        f"`{unparse(c)[:80]}` wraps `{unparse(arg)[:50]}`, not the description `{subj}._child_` of the quantified term: the conditions of the term (the "
                        f"keyword constraints of T(From(d), f=v)) are left behind, and the new quantifier ranges over the whole domain", line=c.lineno))
    if n == 0:
        raise AnalysisError("select_one_or_select_many_or_infer: no requantification of an already quantified term found")
    return out


def _under_not(root: ast.AST, node: ast.AST) -> bool:
    for x in ast.walk(root):
        if isinstance(x, ast.UnaryOp) and isinstance(x.op, ast.Not) and any(y is node for y in ast.walk(x.operand)):
            return True
    return False


# ---------------------------------------------------------------------------------- CONDITIONS-NOT-DROPPED
def rule_conditions_not_dropped(db: ProgramDB) -> List[Instance]:
    """an()/the()/infer() take a description or a variable plus conditions.  Every case of the dispatcher either hands the conditions on
    (`*properties` reaches the description it builds), or is taken only when there are none, or refuses them: a case that builds the
    quantifier from its first argument alone answers for fewer conditions than were written - an(entity(x, c1), c2) yields objects for
    which c2 does not hold."""
    out = []
    fn = db.fn("entity:select_one_or_select_many_or_infer")
    va = fn.node.args.vararg.arg if fn.node.args.vararg else None
    if va is None:
        raise AnalysisError("select_one_or_select_many_or_infer: no *conditions parameter")
    qp = fn.positional_params[0]
    n = 0
    for a in own_nodes(fn.node):
        if not (isinstance(a, ast.Assign) and isinstance(a.value, (ast.Call, ast.IfExp, ast.Name))):
            continue
        builds = [c for c in ast.walk(a.value) if isinstance(c, ast.Call) and isinstance(c.func, ast.Name) and c.func.id == qp]
        if not builds:
            continue
        n += 1
        from ..boolexpr import guards_of
        g = guards_of(a, fn.node.body) or []
        uses = any(isinstance(x, ast.Name) and x.id == va for x in ast.walk(a.value))
        none_given = any(((isinstance(t, ast.UnaryOp) and isinstance(t.op, ast.Not) and unparse(t.operand) == va) and pol) or (unparse(t) == va and not pol)
                         or any(isinstance(y, ast.UnaryOp) and isinstance(y.op, ast.Not) and unparse(y.operand) == va for y in (t.values if isinstance(t, ast.BoolOp) and isinstance(t.op, ast.And) else [])) and pol
                         for t, pol in g)
        # refused: an earlier statement of the same block raises when there are conditions
        par = db.parent(a)
        refused = False
        for fld in ("body", "orelse"):
            blk = getattr(par, fld, None) or []
            if any(b is a for b in blk):
                for b in blk[:[k for k, b_ in enumerate(blk) if b_ is a][0]]:
                    if isinstance(b, ast.If) and any(isinstance(x, ast.Name) and x.id == va for x in ast.walk(b.test)) and any(isinstance(r, ast.Raise) for r in ast.walk(b)):
                        refused = True
        ok = uses or none_given or refused
        out.append(inst("CONDITIONS-NOT-DROPPED", HOLDS if ok else VIOLATION, fn, f"select_one_or_select_many_or_infer[{unparse(a)[:40]}]",
                        ("the conditions are handed on" if uses else "taken only when no conditions are given" if none_given else "conditions are refused here") if ok else
                        f"`{unparse(a)[:60]}` builds the quantifier from the first argument alone, whatever `*{va}` holds: conditions written next to a description are dropped "
                        f"without a word - an(entity(x, x.a == 1), x.b == 0) also yields objects with b != 0", line=a.lineno))
    if n < 3:
        raise AnalysisError(f"select_one_or_select_many_or_infer: only {n} cases found")
    return out


# ---------------------------------------------------------------------------------- FAILURE-CTOR-TOTAL
def rule_failure_ctor_total(db: ProgramDB) -> List[Instance]:
    """`the` reports 'two solutions' / 'no solution' by raising the package's own exception types.  What leaves evaluate() is that
    exception only if constructing it cannot fail first: the constructors do nothing with the rows they are given that can raise
    on a well-formed row - no keyed lookup (two rows of one evaluation need not have the same keys: a row replayed from a
    result cache carries the variables, a row evaluated live also the sub-expressions), no next(), no assert / raise."""
    out = []
    n = 0
    for c in sorted(db.classes.values(), key=lambda k: k.qualname):
        if c.module != "failures":
            continue
        init = c.methods.get("__init__")
        if init is None or init.cls is not c:
            continue
        n += 1
        a = init.node.args
        params = {x.arg for x in a.posonlyargs + a.args + a.kwonlyargs} - {"self"}
        derived = set(params)
        changed = True
        while changed:
            changed = False
            for x in own_nodes(init.node):
                tgt = None
                if isinstance(x, (ast.For, ast.comprehension)):
                    src, tgt = x.iter, x.target
                elif isinstance(x, ast.Assign) and len(x.targets) == 1:
                    src, tgt = x.value, x.targets[0]
                if tgt is None:
                    continue
                if any(isinstance(y, ast.Name) and y.id in derived for y in ast.walk(src)):
                    for y in ast.walk(tgt):
                        if isinstance(y, ast.Name) and y.id not in derived:
                            derived.add(y.id)
                            changed = True
        bad = None
        for x in own_nodes(init.node):
            if isinstance(x, ast.Subscript) and isinstance(x.ctx, ast.Load) and any(isinstance(y, ast.Name) and y.id in derived for y in ast.walk(x.value)):
                bad = (x, "a keyed lookup")
            elif isinstance(x, ast.Call) and dotted(x.func) == "next" and len(x.args) < 2:
                bad = (x, "next() without a default")
            elif isinstance(x, (ast.Raise, ast.Assert)):
                bad = (x, "a raise / assert")
            if bad:
                break
        out.append(inst("FAILURE-CTOR-TOTAL", VIOLATION if bad else HOLDS, init, f"{c.name}.__init__[cannot fail]",
                        "formats its arguments, nothing that can raise on a well-formed row" if not bad else
                        f"`{unparse(bad[0])[:70]}` is {bad[1]} on what the(...) hands to the constructor: when it raises (a second solution replayed from a result "
                        f"cache has other keys than the first), a KeyError / StopIteration leaves evaluate() instead of {c.name}", line=bad[0].lineno if bad else init.lineno))
    if n < 2:
        raise AnalysisError("the exception types of the failures module were not found")
    return out

