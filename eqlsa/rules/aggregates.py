"""C17 (concatenate) and C16 (flatten) structural rules; EVAL-SIGNATURE sibling agreement."""
from __future__ import annotations

import ast
from typing import Dict, List, Optional, Set, Tuple

from ..db import ProgramDB, FuncInfo, ClassInfo, AnalysisError, unparse, own_nodes, dotted
from ..cfg import CFG, Node, Edge, run_forward
from ..facts import own_calls, call_attr, fn_params, resolve_call_target
from ..framework import inst, HOLDS, VIOLATION, UNDECIDED, INFO, Instance
from .entries import is_eval_method_name


def yield_counts(cfg: CFG, start: int = None, init: int = 0) -> Set[int]:
    """Abstract number of yields {0,1,2=many} over all normal paths entry -> normal exit."""
    def transfer(node: Node, st: int):
        return min(2, st + (1 if node.has_yield and node.kind in ("stmt", "return", "test") else 0))
    IN = run_forward(cfg, init, transfer, kinds=("n",))
    return set(IN[cfg.exit])


def rule_eval_signature(db: ProgramDB) -> List[Instance]:
    out = []
    base = db.method("SymbolicExpression", "_evaluate__", inherited=False)
    want = [p for p, _ in fn_params(base)]
    for m in db.overrides("SymbolicExpression", "_evaluate__"):
        if m.qualname == base.qualname:
            continue
        have = [p for p, _ in fn_params(m)]
        a = m.node.args
        flexible = a.kwarg is not None
        missing = [p for p in want if p not in have]
        order_ok = have[:len(want)] == want or flexible
        ok = (not missing or flexible) and (order_ok or not missing and all(p in have for p in want))
        # positional order matters only for the parameters callers pass positionally (the first)
        if not missing and have and want and have[0] != want[0]:
            ok = False
        out.append(inst("EVAL-SIGNATURE", HOLDS if ok else VIOLATION, m, f"{m.short}",
                        f"accepts {have}" + ("" if ok else f"; the evaluation protocol (SymbolicExpression._evaluate__) "
                                             f"passes {want} - callers that pass `{missing or want}` fail with TypeError")))
    return out


def rule_concat_once(db: ProgramDB) -> List[Instance]:
    out = []
    m = db.method("Concatenate", "_evaluate__", inherited=False)
    cfg = CFG(m)
    counts = yield_counts(cfg)
    ok = counts == {1}
    out.append(inst("CONCAT-ONCE", HOLDS if ok else VIOLATION, m, "Concatenate._evaluate__[rows per evaluation]",
                    f"number of rows yielded over all paths: {['many' if c == 2 else c for c in sorted(counts)]}" +
                    ("" if ok else "; concatenate must yield exactly one row")))
    # the aggregate yield must not sit inside the loop over child bindings
    loops = [n for n in own_nodes(m.node) if isinstance(n, (ast.For, ast.While))]
    child_loops = [l for l in loops if isinstance(l, ast.For) and any(
        isinstance(c, ast.Call) and is_eval_method_name(call_attr(c)) for c in ast.walk(l.iter))]
    if len(child_loops) != 1:
        raise AnalysisError(f"Concatenate._evaluate__: expected one loop over the child's bindings, found {len(child_loops)}")
    inner_yields = [y for y in ast.walk(child_loops[0]) if isinstance(y, (ast.Yield, ast.YieldFrom))]
    ok2 = not inner_yields
    out.append(inst("CONCAT-ONCE", HOLDS if ok2 else VIOLATION, m, "Concatenate._evaluate__[aggregate after the loop]",
                    "no row is yielded inside the loop over the child's bindings" if ok2 else
                    f"`{unparse(inner_yields[0])[:60]}` yields inside the loop over the child's bindings: one row per "
                    f"binding instead of one row in total", line=inner_yields[0].lineno if inner_yields else 0))
    # every child value reaches the accumulator unconditionally: the accumulation statement is not under an `if` that
    # tests the element (filtering / de-duplication)
    loop = child_loops[0]
    acc_calls = [c for c in ast.walk(loop) if isinstance(c, ast.Call) and call_attr(c) in ("extend", "append")
                 and "self._id_" in unparse(c.func.value)]
    if not acc_calls:
        acc_calls = [c for c in ast.walk(loop) if isinstance(c, ast.AugAssign) and "self._id_" in unparse(c.target)]
    if not acc_calls:
        raise AnalysisError("Concatenate._evaluate__: accumulation into the row keyed by self._id_ not found")
    from ..boolexpr import guards_of
    for c in acc_calls:
        g = guards_of(c, loop.body) or []
        # accepted guards: selecting the child's own id among the binding's ids; wrapping scalars
        bad = [t for t, pol in g if not _is_id_selection(t, m)]
        ok3 = not bad
        out.append(inst("CONCAT-ONCE", HOLDS if ok3 else VIOLATION, m, "Concatenate._evaluate__[accumulate every element]",
                        f"`{unparse(c)[:60]}` runs for every child binding" if ok3 else
                        f"`{unparse(c)[:60]}` is conditional on `{unparse(bad[0])[:50]}`: elements can be dropped from "
                        f"the combined list", line=c.lineno))
    return out


def _is_id_selection(test: ast.AST, m: FuncInfo) -> bool:
    s = unparse(test)
    return "_child_._id_" in s and isinstance(test, ast.Compare) and isinstance(test.ops[0], ast.Eq)


# ---------------------------------------------------------------------------------- C16
def rule_flatten_each(db: ProgramDB) -> List[Instance]:
    out = []
    m = db.method("Flatten", "_apply_mapping_", inherited=False)
    cfg = CFG(m)
    loops = [n for n in own_nodes(m.node) if isinstance(n, ast.For)]
    if len(loops) != 1:
        raise AnalysisError(f"Flatten._apply_mapping_: expected one loop over the inner iterable, found {len(loops)}")
    loop = loops[0]
    # one yield per iteration on every path through the loop body, no break/continue/return, no condition
    body_yields = [y for s in loop.body for y in [s] + list(own_nodes(s)) if isinstance(y, (ast.Yield, ast.YieldFrom))]
    ctrl = [x for s in loop.body for x in [s] + list(own_nodes(s)) if isinstance(x, (ast.Break, ast.Continue, ast.Return, ast.If, ast.Try))]
    ok = len(body_yields) == 1 and not ctrl and isinstance(body_yields[0], ast.Yield)
    out.append(inst("FLATTEN-EACH", HOLDS if ok else VIOLATION, m, "Flatten._apply_mapping_[one row per inner element]",
                    "the loop over the inner iterable yields once per element, unconditionally" if ok else
                    f"the loop body has {len(body_yields)} yield(s) and control statements {[type(c).__name__ for c in ctrl]}: "
                    f"elements can be filtered, skipped or de-duplicated", line=loop.lineno))
    # the yielded value wraps the loop element itself
    if body_yields and isinstance(body_yields[0], ast.Yield):
        y = body_yields[0]
        tnames = {n.id for n in ast.walk(loop.target) if isinstance(n, ast.Name)}
        uses = {n.id for n in ast.walk(y.value) if isinstance(n, ast.Name)} if y.value is not None else set()
        ok2 = bool(tnames & uses)
        out.append(inst("FLATTEN-EACH", HOLDS if ok2 else VIOLATION, m, "Flatten._apply_mapping_[element yielded]",
                        f"`{unparse(y)}` yields the loop element" if ok2 else f"`{unparse(y)}` does not yield the loop element",
                        line=y.lineno))
    # the iterated value: the inner value itself, or a singleton when it is not iterable; it must not be wrapped in
    # a de-duplicating / re-ordering container
    it = loop.iter
    defs = [n for n in own_nodes(m.node) if isinstance(n, ast.Assign) and isinstance(it, ast.Name)
            and any(isinstance(t, ast.Name) and t.id == it.id for t in n.targets)]
    bad = []
    singleton = False
    for d in defs:
        v = d.value
        if isinstance(v, (ast.List, ast.Tuple)) and len(v.elts) == 1:
            singleton = True
        elif isinstance(v, ast.Call) and dotted(v.func) in ("set", "frozenset", "sorted", "dict", "reversed"):
            bad.append(v)
    calls_in_iter = [c for c in ast.walk(it) if isinstance(c, ast.Call) and dotted(c.func) in
                     ("set", "frozenset", "sorted", "dict", "reversed")]
    bad += calls_in_iter
    tests = [n for n in own_nodes(m.node) if isinstance(n, ast.If) and "is_iterable" in unparse(n.test)]
    ok3 = not bad and (singleton and bool(tests))
    out.append(inst("FLATTEN-EACH", HOLDS if ok3 else VIOLATION, m, "Flatten._apply_mapping_[iterated value]",
                    "iterates the inner value as it is; a non-iterable is wrapped as a singleton" if ok3 else
                    ("the inner value is re-packed (" + unparse(bad[0])[:40] + "): multiplicity/order can change" if bad else
                     "a non-iterable inner value is not treated as a single element"), line=loop.lineno))
    return out


def rule_flatten_keyed(db: ProgramDB) -> List[Instance]:
    """A mapping that yields several values for one value of its child (one-to-many) distinguishes rows like a variable
    does, so it must be part of `_all_variable_instances_` - the set from which cache keys and duplicate-suppression keys
    are computed.  Otherwise all its values under one parent binding share one cache entry / count as duplicates."""
    out = []
    dm = db.cls("DomainMapping")
    for c in sorted(dm.all_subclasses(include_self=False), key=lambda k: k.name):
        m = c.lookup("_apply_mapping_")
        if m is None or m.cls is dm:
            continue
        loops = [l for l in own_nodes(m.node) if isinstance(l, (ast.For, ast.While)) and
                 any(isinstance(x, (ast.Yield, ast.YieldFrom)) for x in ast.walk(l))]
        multi = bool(loops) or any(isinstance(x, ast.YieldFrom) for x in own_nodes(m.node))
        if not multi:
            out.append(inst("FLATTEN-KEYED", INFO, c, f"{c.name}", "one value per child value: identified by its variables"))
            continue
        v = c.lookup("_all_variable_instances_")
        includes_self = v is not None and any(isinstance(x, ast.Name) and x.id == "self" and not isinstance(db.parent(x), ast.Attribute)
                                              for r in own_nodes(v.node) if isinstance(r, ast.Return) for x in ast.walk(r))
        out.append(inst("FLATTEN-KEYED", HOLDS if includes_self else VIOLATION, c, f"{c.name}._all_variable_instances_",
                        f"{c.name} yields several values per child value and counts itself among the variables of the expressions "
                        f"that use it" if includes_self else
                        f"{c.name} yields several values per child value but is not part of `_all_variable_instances_` "
                        f"(effective implementation: {v.short if v else '?'}): result caches and duplicate suppression key its "
                        f"rows on the parent only, so with caching enabled a condition on the element is answered for all "
                        f"elements of a parent by the first one's result"))
    return out


# ---------------------------------------------------------------------------------- SCALAR-CLASSIFIER
def rule_scalar_classifier(db: ProgramDB) -> List[Instance]:
    """flatten / concatenate treat a value that is not a collection as one element.  The classifier they share decides
    'collection' for objects with __iter__ except strings and bytes - by isinstance, so that values whose type derives
    from str (a str-based Enum member, a typed string) are scalars too and are not split into characters."""
    out = []
    users = []
    for cname in ("Flatten", "Concatenate"):
        c = db.cls(cname)
        for m in c.methods.values():
            for call in own_calls(m):
                t = resolve_call_target(db, m, call)
                if isinstance(t, FuncInfo) and t.module.endswith("utils") or (isinstance(t, FuncInfo) and "iterable" in t.name):
                    users.append((m, call, t))
    if not users:
        raise AnalysisError("Flatten / Concatenate no longer classify values through a shared helper")
    seen = set()
    for m, call, t in users:
        if t.qualname in seen:
            continue
        seen.add(t.qualname)
        p = t.positional_params[0]
        rets = [r for r in own_nodes(t.node) if isinstance(r, ast.Return) and r.value is not None]
        iso = [c for r in rets for c in ast.walk(r.value) if isinstance(c, ast.Call) and dotted(c.func) == "isinstance" and len(c.args) == 2
               and isinstance(c.args[0], ast.Name) and c.args[0].id == p]
        covers_str = any("str" in [unparse(e) for e in (c.args[1].elts if isinstance(c.args[1], ast.Tuple) else [c.args[1]])] for c in iso)
        exact = [c for r in rets for c in ast.walk(r.value) if isinstance(c, ast.Call) and dotted(c.func) == "type" and len(c.args) == 1
                 and isinstance(c.args[0], ast.Name) and c.args[0].id == p]
        ok = covers_str and not exact
        out.append(inst("SCALAR-CLASSIFIER", HOLDS if ok else VIOLATION, t, f"{t.short}[strings are scalars, subclasses included]",
                        f"`{unparse(rets[0].value)[:80]}`: strings are excluded by isinstance" if ok else
                        f"`{unparse(rets[0].value)[:80] if rets else '?'}` does not exclude strings by isinstance(…, str): a value whose type "
                        f"derives from str (class Color(str, Enum)) counts as a collection and is split into characters by "
                        f"flatten / concatenate", line=t.lineno))
    return out
