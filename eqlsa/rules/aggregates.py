"""C17 (concatenate) and C16 (flatten) structural rules; EVAL-SIGNATURE sibling agreement."""
from __future__ import annotations

import ast
from typing import Dict, List, Optional, Set, Tuple

from ..db import ProgramDB, FuncInfo, ClassInfo, AnalysisError, unparse, own_nodes, dotted
from ..cfg import CFG, Node, Edge, run_forward
from ..facts import own_calls, call_attr, fn_params, resolve_call_target
from ..framework import inst, HOLDS, VIOLATION, UNDECIDED, INFO, Instance
from .entries import is_eval_method_name


def yield_counts(cfg: CFG, start: int = None, init: int = 0) -> Set[int]:
    """Abstract number of yields {0,1,2=many} over all normal paths entry -> normal exit."""
    def transfer(node: Node, st: int):
        return min(2, st + (1 if node.has_yield and node.kind in ("stmt", "return", "test") else 0))
    IN = run_forward(cfg, init, transfer, kinds=("n",))
    return set(IN[cfg.exit])


def rule_eval_signature(db: ProgramDB) -> List[Instance]:
    out = []
    base = db.method("SymbolicExpression", "_evaluate__", inherited=False)
    want = [p for p, _ in fn_params(base)]
    for m in db.overrides("SymbolicExpression", "_evaluate__"):
        if m.qualname == base.qualname:
            continue
        have = [p for p, _ in fn_params(m)]
        a = m.node.args
        flexible = a.kwarg is not None
        missing = [p for p in want if p not in have]
        order_ok = have[:len(want)] == want or flexible
        ok = (not missing or flexible) and (order_ok or not missing and all(p in have for p in want))
        # positional order matters only for the parameters callers pass positionally (the first)
        if not missing and have and want and have[0] != want[0]:
            ok = False
        out.append(inst("EVAL-SIGNATURE", HOLDS if ok else VIOLATION, m, f"{m.short}",
                        f"accepts {have}" + ("" if ok else f"; the evaluation protocol (SymbolicExpression._evaluate__) "
                                             f"passes {want} - callers that pass `{missing or want}` fail with TypeError")))
    return out


def rule_concat_once(db: ProgramDB) -> List[Instance]:
    out = []
    m = db.method("Concatenate", "_evaluate__", inherited=False)
    cfg = CFG(m)
    counts = yield_counts(cfg)
    ok = counts == {1}
    out.append(inst("CONCAT-ONCE", HOLDS if ok else VIOLATION, m, "Concatenate._evaluate__[rows per evaluation]",
                    f"number of rows yielded over all paths: {['many' if c == 2 else c for c in sorted(counts)]}" +
                    ("" if ok else "; concatenate must yield exactly one row")))
    # the aggregate yield must not sit inside the loop over child bindings
    loops = [n for n in own_nodes(m.node) if isinstance(n, (ast.For, ast.While))]
    child_loops = [l for l in loops if isinstance(l, ast.For) and any(
        isinstance(c, ast.Call) and is_eval_method_name(call_attr(c)) for c in ast.walk(l.iter))]
    if len(child_loops) != 1:
        raise AnalysisError(f"Concatenate._evaluate__: expected one loop over the child's bindings, found {len(child_loops)}")
    inner_yields = [y for y in ast.walk(child_loops[0]) if isinstance(y, (ast.Yield, ast.YieldFrom))]
    ok2 = not inner_yields
    out.append(inst("CONCAT-ONCE", HOLDS if ok2 else VIOLATION, m, "Concatenate._evaluate__[aggregate after the loop]",
                    "no row is yielded inside the loop over the child's bindings" if ok2 else
                    f"`{unparse(inner_yields[0])[:60]}` yields inside the loop over the child's bindings: one row per "
                    f"binding instead of one row in total", line=inner_yields[0].lineno if inner_yields else 0))
    # every child value reaches the accumulator unconditionally: the accumulation statement is not under an `if` that
    # tests the element (filtering / de-duplication)
    loop = child_loops[0]
    acc_calls = [c for c in ast.walk(loop) if isinstance(c, ast.Call) and call_attr(c) in ("extend", "append")
                 and "self._id_" in unparse(c.func.value)]
    if not acc_calls:
        acc_calls = [c for c in ast.walk(loop) if isinstance(c, ast.AugAssign) and "self._id_" in unparse(c.target)]
    if not acc_calls:
        raise AnalysisError("Concatenate._evaluate__: accumulation into the row keyed by self._id_ not found")
    from ..boolexpr import guards_of
    for c in acc_calls:
        g = guards_of(c, loop.body) or []
        # accepted guards: selecting the child's own id among the binding's ids; wrapping scalars
        bad = [t for t, pol in g if not _is_id_selection(t, m)]
        ok3 = not bad
        out.append(inst("CONCAT-ONCE", HOLDS if ok3 else VIOLATION, m, "Concatenate._evaluate__[accumulate every element]",
                        f"`{unparse(c)[:60]}` runs for every child binding" if ok3 else
                        f"`{unparse(c)[:60]}` is conditional on `{unparse(bad[0])[:50]}`: elements can be dropped from "
                        f"the combined list", line=c.lineno))
    # (a) the one row binds the concatenation itself also when the loop over the child's bindings runs zero times: the
    # accumulator entry keyed by self._id_ is created outside that loop
    agg_yields = [nd for nd in cfg.nodes if nd.has_yield and nd.ast is not None and not any(nd.stmt is s or any(z is nd.stmt for z in ast.walk(s)) for s in loop.body)
                  and not (isinstance(nd.ast, ast.Expr) and isinstance(nd.ast.value, ast.Yield) and isinstance(nd.ast.value.value, ast.Name)
                           and nd.ast.value.value.id in m.params)]
    if not agg_yields and not inner_yields:
        raise AnalysisError("Concatenate._evaluate__: the aggregate yield was not found")

    def writes_own_key(nd) -> bool:
        a = nd.ast
        if a is None or nd.kind != "stmt":
            return False
        if any(nd.stmt is s or any(z is nd.stmt for z in ast.walk(s)) for s in loop.body):
            return False
        for x in ast.walk(a):
            if isinstance(x, ast.Subscript) and unparse(x.slice) == "self._id_":
                return True
            if isinstance(x, ast.Dict) and any(k is not None and unparse(k) == "self._id_" for k in x.keys):
                return True
        return False
    for y in agg_yields:
        pth = cfg.find_path(cfg.entry, lambda nd: nd.id == y.id, kinds=("n",), blocked=writes_own_key)
        ok4 = pth is None
        out.append(inst("CONCAT-ONCE", HOLDS if ok4 else VIOLATION, m, "Concatenate._evaluate__[the row binds the concatenation]",
                        "the entry of the combined list exists before the child's bindings are collected: with no binding at all the row "
                        "is {concatenation: []}" if ok4 else
                        "the entry keyed by self._id_ is only created inside the loop over the child's bindings: when the child has no "
                        "binding at all (an empty parent domain, a sub-query without result) the one row does not bind the concatenation, "
                        "and every consumer fails with KeyError instead of seeing []", line=y.lineno))
        # (b) what was bound before the concatenation is evaluated is handed on unchanged: the incoming binding is written
        # over the aggregated dict, last
        yv = next((x for x in ast.walk(y.ast) if isinstance(x, ast.Yield)), None)
        bp = "sources" if "sources" in m.params else None
        if yv is None or bp is None:
            continue
        last_is_sources = False
        if isinstance(yv.value, ast.Dict):
            last_is_sources = bool(yv.value.keys) and yv.value.keys[-1] is None and unparse(yv.value.values[-1]) == bp
        elif isinstance(yv.value, ast.Name):
            row = yv.value.id
            writes = []
            for n2 in own_nodes(m.node):
                if isinstance(n2, ast.Call) and call_attr(n2) == "update" and isinstance(n2.func.value, ast.Name) and n2.func.value.id == row and n2.args:
                    writes.append(((n2.lineno, n2.col_offset), unparse(n2.args[0])))
                elif isinstance(n2, ast.Assign) and any(isinstance(t, ast.Name) and t.id == row for t in n2.targets):
                    v = n2.value
                    if isinstance(v, ast.Dict) and v.keys and v.keys[-1] is None:
                        writes.append(((n2.lineno, n2.col_offset), unparse(v.values[-1])))
                    else:
                        writes.append(((n2.lineno, n2.col_offset), "<built>"))
            writes.sort(key=lambda w: w[0])
            last_is_sources = bool(writes) and writes[-1][1] == bp
        # (c) the row does not bind the variables the concatenation ranges over (they have no single value after it): it is
        # not built from every id the child's rows carry
        # key provenance of the row: its keys are `self._id_` and those of the incoming binding; a dict is 'clean' when every key
        # ever stored into it is `self._id_`
        def store_keys(name: str) -> List[str]:
            ks = []
            for n2 in own_nodes(m.node):
                if isinstance(n2, ast.Subscript) and isinstance(n2.value, ast.Name) and n2.value.id == name:
                    ks.append(unparse(n2.slice))
                if isinstance(n2, ast.Call) and call_attr(n2) in ("update", "setdefault") and isinstance(n2.func.value, ast.Name) and n2.func.value.id == name:
                    ks.append("<" + unparse(n2)[:30] + ">")
            return ks

        def clean_dict(name: str) -> bool:
            return all(k == "self._id_" for k in store_keys(name))

        def keys_ok(e: ast.AST, depth=0) -> Optional[bool]:
            if depth > 4:
                return None
            if isinstance(e, ast.Name):
                if e.id == bp:
                    return True
                ds = [n2.value for n2 in own_nodes(m.node) if isinstance(n2, ast.Assign) and any(isinstance(t, ast.Name) and t.id == e.id for t in n2.targets)]
                if not ds:
                    return None
                r = True
                for d in ds:
                    if isinstance(d, ast.Call) and dotted(d.func) in ("defaultdict", "dict", "OrderedDict") and not (d.args and dotted(d.func) != "defaultdict"):
                        k = clean_dict(e.id)
                    else:
                        k = keys_ok(d, depth + 1)
                        if k:
                            k = all(x == "self._id_" or x.startswith("<") for x in store_keys(e.id))
                    if k is None:
                        return None
                    r = r and k
                for n2 in own_nodes(m.node):
                    if isinstance(n2, ast.Call) and call_attr(n2) == "update" and isinstance(n2.func.value, ast.Name) and n2.func.value.id == e.id and n2.args:
                        k = keys_ok(n2.args[0], depth + 1)
                        if k is None:
                            return None
                        r = r and k
                return r
            if isinstance(e, ast.Dict):
                r = True
                for k_, v_ in zip(e.keys, e.values):
                    if k_ is None:
                        k = keys_ok(v_, depth + 1)
                        if k is None:
                            return None
                        r = r and k
                    elif unparse(k_) != "self._id_":
                        r = False
                return r
            if isinstance(e, ast.Call) and dotted(e.func) in ("dict", "copy") and len(e.args) == 1:
                return keys_ok(e.args[0], depth + 1)
            if isinstance(e, ast.DictComp) and len(e.generators) == 1:
                g = e.generators[0]
                src = g.iter.func.value if isinstance(g.iter, ast.Call) and call_attr(g.iter) in ("items", "keys") else g.iter
                return keys_ok(src, depth + 1)
            return None
        verdict_keys = keys_ok(yv.value)
        built_from_all = verdict_keys is False
        if verdict_keys is None:
            out.append(inst("CONCAT-ONCE", UNDECIDED, m, "Concatenate._evaluate__[the variables it ranges over stay unbound]",
                            f"could not derive where the keys of the row `{unparse(yv.value)[:50]}` come from", line=y.lineno))
            continue
        out.append(inst("CONCAT-ONCE", VIOLATION if built_from_all else HOLDS, m, "Concatenate._evaluate__[the variables it ranges over stay unbound]",
                        "the row carries ids taken from the child's rows: a variable of the concatenated expression comes out of the concatenation "
                        "'bound' (to a list of its values, or to the value of the last child row), and any other expression on that variable in the same "
                        "condition (a second concatenation over the same parent, bx.name == 'B1') is evaluated on that instead of ranging over the variable"
                        if built_from_all else
                        "the row binds the combined list (and what was bound before), not the variables the concatenation ranges over", line=y.lineno))
        out.append(inst("CONCAT-ONCE", HOLDS if last_is_sources else VIOLATION, m, "Concatenate._evaluate__[incoming bindings handed on unchanged]",
                        f"the incoming binding `{bp}` is written over the aggregated row last" if last_is_sources else
                        f"the row is handed on without the incoming binding `{bp}` written over it: the concatenation aggregates every id "
                        f"it sees, so a variable that was bound before (the outer variable of a membership test on the right of or_) comes "
                        f"back as a list of wrapped values instead of its value", line=y.lineno))
    return out


def _is_id_selection(test: ast.AST, m: FuncInfo) -> bool:
    s = unparse(test)
    return "_child_._id_" in s and isinstance(test, ast.Compare) and isinstance(test.ops[0], ast.Eq)


# ---------------------------------------------------------------------------------- C16
def rule_flatten_each(db: ProgramDB) -> List[Instance]:
    out = []
    m = db.method("Flatten", "_apply_mapping_", inherited=False)
    cfg = CFG(m)
    loops = [n for n in own_nodes(m.node) if isinstance(n, ast.For)]
    if len(loops) != 1:
        raise AnalysisError(f"Flatten._apply_mapping_: expected one loop over the inner iterable, found {len(loops)}")
    loop = loops[0]
    # one yield per iteration on every path through the loop body, no break/continue/return, no condition
    body_yields = [y for s in loop.body for y in [s] + list(own_nodes(s)) if isinstance(y, (ast.Yield, ast.YieldFrom))]
    ctrl = [x for s in loop.body for x in [s] + list(own_nodes(s)) if isinstance(x, (ast.Break, ast.Continue, ast.Return, ast.If, ast.Try))]
    ok = len(body_yields) == 1 and not ctrl and isinstance(body_yields[0], ast.Yield)
    out.append(inst("FLATTEN-EACH", HOLDS if ok else VIOLATION, m, "Flatten._apply_mapping_[one row per inner element]",
                    "the loop over the inner iterable yields once per element, unconditionally" if ok else
                    f"the loop body has {len(body_yields)} yield(s) and control statements {[type(c).__name__ for c in ctrl]}: "
                    f"elements can be filtered, skipped or de-duplicated", line=loop.lineno))
    # the yielded value wraps the loop element itself
    if body_yields and isinstance(body_yields[0], ast.Yield):
        y = body_yields[0]
        tnames = {n.id for n in ast.walk(loop.target) if isinstance(n, ast.Name)}
        uses = {n.id for n in ast.walk(y.value) if isinstance(n, ast.Name)} if y.value is not None else set()
        ok2 = bool(tnames & uses)
        out.append(inst("FLATTEN-EACH", HOLDS if ok2 else VIOLATION, m, "Flatten._apply_mapping_[element yielded]",
                        f"`{unparse(y)}` yields the loop element" if ok2 else f"`{unparse(y)}` does not yield the loop element",
                        line=y.lineno))
    # the iterated value: the inner value itself, or a singleton when it is not iterable; it must not be wrapped in
    # a de-duplicating / re-ordering container
    it = loop.iter
    defs = [n for n in own_nodes(m.node) if isinstance(n, ast.Assign) and isinstance(it, ast.Name)
            and any(isinstance(t, ast.Name) and t.id == it.id for t in n.targets)]
    bad = []
    singleton = False
    for d in defs:
        v = d.value
        if isinstance(v, (ast.List, ast.Tuple)) and len(v.elts) == 1:
            singleton = True
        elif isinstance(v, ast.Call) and dotted(v.func) in ("set", "frozenset", "sorted", "dict", "reversed"):
            bad.append(v)
    calls_in_iter = [c for c in ast.walk(it) if isinstance(c, ast.Call) and dotted(c.func) in
                     ("set", "frozenset", "sorted", "dict", "reversed")]
    bad += calls_in_iter
    tests = [n for n in own_nodes(m.node) if isinstance(n, ast.If) and "is_iterable" in unparse(n.test)]
    ok3 = not bad and (singleton and bool(tests))
    out.append(inst("FLATTEN-EACH", HOLDS if ok3 else VIOLATION, m, "Flatten._apply_mapping_[iterated value]",
                    "iterates the inner value as it is; a non-iterable is wrapped as a singleton" if ok3 else
                    ("the inner value is re-packed (" + unparse(bad[0])[:40] + "): multiplicity/order can change" if bad else
                     "a non-iterable inner value is not treated as a single element"), line=loop.lineno))
    return out


def rule_flatten_keyed(db: ProgramDB) -> List[Instance]:
    """A mapping that yields several values for one value of its child (one-to-many) distinguishes rows like a variable
    does, so it must be part of `_all_variable_instances_` - the set from which cache keys and duplicate-suppression keys
    are computed.  Otherwise all its values under one parent binding share one cache entry / count as duplicates."""
    out = []
    dm = db.cls("DomainMapping")
    for c in sorted(dm.all_subclasses(include_self=False), key=lambda k: k.name):
        m = c.lookup("_apply_mapping_")
        if m is None or m.cls is dm:
            continue
        loops = [l for l in own_nodes(m.node) if isinstance(l, (ast.For, ast.While)) and
                 any(isinstance(x, (ast.Yield, ast.YieldFrom)) for x in ast.walk(l))]
        multi = bool(loops) or any(isinstance(x, ast.YieldFrom) for x in own_nodes(m.node))
        if not multi:
            out.append(inst("FLATTEN-KEYED", INFO, c, f"{c.name}", "one value per child value: identified by its variables"))
            continue
        v = c.lookup("_all_variable_instances_")
        includes_self = v is not None and any(isinstance(x, ast.Name) and x.id == "self" and not isinstance(db.parent(x), ast.Attribute)
                                              for r in own_nodes(v.node) if isinstance(r, ast.Return) for x in ast.walk(r))
        out.append(inst("FLATTEN-KEYED", HOLDS if includes_self else VIOLATION, c, f"{c.name}._all_variable_instances_",
                        f"{c.name} yields several values per child value and counts itself among the variables of the expressions "
                        f"that use it" if includes_self else
                        f"{c.name} yields several values per child value but is not part of `_all_variable_instances_` "
                        f"(effective implementation: {v.short if v else '?'}): result caches and duplicate suppression key its "
                        f"rows on the parent only, so with caching enabled a condition on the element is answered for all "
                        f"elements of a parent by the first one's result"))
    return out


# ---------------------------------------------------------------------------------- SCALAR-CLASSIFIER
def rule_scalar_classifier(db: ProgramDB) -> List[Instance]:
    """flatten / concatenate treat a value that is not a collection as one element.  The classifier they share decides
    'collection' for objects with __iter__ except strings and bytes - by isinstance, so that values whose type derives
    from str (a str-based Enum member, a typed string) are scalars too and are not split into characters."""
    out = []
    users = []
    for cname in ("Flatten", "Concatenate"):
        c = db.cls(cname)
        for m in c.methods.values():
            for call in own_calls(m):
                t = resolve_call_target(db, m, call)
                if isinstance(t, FuncInfo) and t.module.endswith("utils") or (isinstance(t, FuncInfo) and "iterable" in t.name):
                    users.append((m, call, t))
    if not users:
        raise AnalysisError("Flatten / Concatenate no longer classify values through a shared helper")
    for cname in ("Flatten", "Concatenate"):
        if not any(m.cls is not None and m.cls.name == cname for m, _, _ in users):
            c = db.cls(cname)
            out.append(inst("SCALAR-CLASSIFIER", VIOLATION, c, f"{cname}[classifies through the shared helper]",
                            f"{cname} no longer asks the shared classifier whether a value is a collection (it tries to iterate / extend instead): "
                            f"a string is iterable, so a scalar string value is split into characters and '' disappears"))
    seen = set()
    for m, call, t in users:
        if t.qualname in seen:
            continue
        seen.add(t.qualname)
        p = t.positional_params[0]
        rets = [r for r in own_nodes(t.node) if isinstance(r, ast.Return) and r.value is not None]
        iso = [c for r in rets for c in ast.walk(r.value) if isinstance(c, ast.Call) and dotted(c.func) == "isinstance" and len(c.args) == 2
               and isinstance(c.args[0], ast.Name) and c.args[0].id == p]
        covers_str = any("str" in [unparse(e) for e in (c.args[1].elts if isinstance(c.args[1], ast.Tuple) else [c.args[1]])] for c in iso)
        exact = [c for r in rets for c in ast.walk(r.value) if isinstance(c, ast.Call) and dotted(c.func) == "type" and len(c.args) == 1
                 and isinstance(c.args[0], ast.Name) and c.args[0].id == p]
        ok = covers_str and not exact
        out.append(inst("SCALAR-CLASSIFIER", HOLDS if ok else VIOLATION, t, f"{t.short}[strings are scalars, subclasses included]",
                        f"`{unparse(rets[0].value)[:80]}`: strings are excluded by isinstance" if ok else
                        f"`{unparse(rets[0].value)[:80] if rets else '?'}` does not exclude strings by isinstance(…, str): a value whose type "
                        f"derives from str (class Color(str, Enum)) counts as a collection and is split into characters by "
                        f"flatten / concatenate", line=t.lineno))
    return out


# ---------------------------------------------------------------------------------- FLATTEN-OCCURRENCE
def rule_flatten_occurrence(db: ProgramDB) -> List[Instance]:
    """Rows are told apart by the identity of the values they bind (duplicate suppression, result caches and the for_all
    intersection all key on `HashedValue.id_`).  'One row per element, with multiplicity' therefore needs the wrapper built
    for a flattened element to tell two occurrences of the same object in one collection apart (an identity that depends on
    the position), because rows of a flattened expression do pass through duplicate suppression (the right side of or_)."""
    out = []
    m = db.method("Flatten", "_apply_mapping_", inherited=False)
    loops = [n for n in own_nodes(m.node) if isinstance(n, ast.For)]
    if len(loops) != 1:
        raise AnalysisError("Flatten._apply_mapping_: expected one loop over the inner iterable")
    loop = loops[0]
    ys = [y for y in ast.walk(loop) if isinstance(y, ast.Yield) and isinstance(y.value, ast.Call)]
    if not ys:
        raise AnalysisError("Flatten._apply_mapping_: the wrapper yielded per element was not found")
    y = ys[0]
    positional = False
    # an index from enumerate(...) (or a counter incremented in the loop) that reaches the wrapper's identity argument
    idx_names = set()
    if isinstance(loop.iter, ast.Call) and dotted(loop.iter.func) == "enumerate" and isinstance(loop.target, ast.Tuple):
        idx_names |= {e.id for e in loop.target.elts[:1] if isinstance(e, ast.Name)}
    idx_names |= {a.target.id for a in ast.walk(loop) if isinstance(a, ast.AugAssign) and isinstance(a.target, ast.Name)}
    for k in y.value.keywords:
        if k.arg == "id_" and {x.id for x in ast.walk(k.value) if isinstance(x, ast.Name)} & idx_names:
            positional = True
    if len(y.value.args) > 1 and {x.id for x in ast.walk(y.value.args[1]) if isinstance(x, ast.Name)} & idx_names:
        positional = True
    out.append(inst("FLATTEN-OCCURRENCE", HOLDS if positional else VIOLATION, m, "Flatten._apply_mapping_[occurrences of one object are one key]",
                    "the identity of the wrapper depends on the element's position" if positional else
                    f"`{unparse(y)}` wraps each element under its own identity only: two occurrences of the same object in one collection "
                    f"(items == [2, 2, 5]) are one key, so wherever rows are de-duplicated (the right side of or_) the second occurrence "
                    f"is dropped", line=y.lineno))
    return out


# ---------------------------------------------------------------------------------- MAPPING-NOT-MEMOISED
def rule_mapping_not_memoised(db: ProgramDB) -> List[Instance]:
    """What a mapping reads from a user object - an attribute, an element, the elements of a collection, the result of a call - it reads
    when it is evaluated, for the binding it is evaluated under.  `_apply_mapping_` and the methods of the node it calls carry no
    memo decorator: a memo is keyed by the wrapped parent, whose equality is its identifier, and lives as long as the query object,
    so 'one row for every element of e under every binding' would speak about the elements e had the first time."""
    out = []
    dm = db.cls("DomainMapping")
    n = 0
    for c in sorted(dm.all_subclasses(include_self=False), key=lambda k: k.qualname):
        m = c.lookup("_apply_mapping_")
        if m is None:
            continue
        seen, todo, memo = set(), [m], None
        while todo:
            f = todo.pop()
            if f.qualname in seen:
                continue
            seen.add(f.qualname)
            if any(("lru_cache" in d) or d.endswith("cache") or ("cached_property" in d) for d in f.decorators):
                memo = f
                break
            for call in own_calls(f):
                if isinstance(call.func, ast.Attribute) and isinstance(call.func.value, ast.Name) and call.func.value.id == "self":
                    g = c.lookup(call.func.attr)
                    if g is not None:
                        todo.append(g)
        n += 1
        out.append(inst("MAPPING-NOT-MEMOISED", VIOLATION if memo else HOLDS, memo or m, f"{c.name}._apply_mapping_[reads the user object anew]",
                        "no memoised method on the path" if memo is None else
                        f"`{memo.short}` is memoised ({', '.join(memo.decorators)}) and is what {c.name}._apply_mapping_ answers from: the memo is keyed by the identity of "
                        f"the parent object and never emptied, so a later evaluation of the same query reports what the object held the first time (elements "
                        f"appended since are missing, removed ones still reported)", line=(memo or m).lineno))
    if n < 4:
        raise AnalysisError(f"only {n} mapping classes found")
    return out

