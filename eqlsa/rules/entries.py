"""Public evaluation entries (``evaluate`` of result quantifiers) and the program points that run evaluation."""
from __future__ import annotations

import ast
from dataclasses import dataclass, field
from typing import Dict, List, Optional, Set, Tuple

from ..db import ProgramDB, FuncInfo, ClassInfo, AnalysisError, unparse, own_nodes, dotted
from ..cfg import CFG, Node
from ..facts import call_attr, call_name, resolve_call_target

EVAL_METHODS = ("_evaluate__", "_evaluate_")


def is_eval_method_name(name: Optional[str]) -> bool:
    """Methods that evaluate an expression node: the abstract protocol `_evaluate__`, descriptor/The helpers
    `_evaluate_`, and any further method whose name starts with `_evaluate` (e.g. a value-role entry)."""
    return bool(name) and name.startswith("_evaluate")


def public_entries(db: ProgramDB) -> List[FuncInfo]:
    rq = db.cls("ResultQuantifier")
    out = []
    for c in rq.all_subclasses(include_self=False):
        m = c.methods.get("evaluate")
        if m is not None:
            out.append(m)
    if not out:
        raise AnalysisError("no public evaluate() entry found on ResultQuantifier subclasses")
    return sorted(out, key=lambda f: f.qualname)


def callee_generatorness(db: ProgramDB, entry: FuncInfo, call: ast.Call) -> Optional[bool]:
    """Is `self.<m>(...)` in `entry` a call of a generator function? Resolved over the class of entry and all its
    subclasses (virtual set).  None if not a self-call of a known method."""
    f = call.func
    if not (isinstance(f, ast.Attribute) and isinstance(f.value, ast.Name) and f.value.id == "self"):
        return None
    kinds = set()
    for c in entry.cls.all_subclasses():
        m = c.lookup(f.attr)
        if m is not None:
            kinds.add(m.is_generator)
    if len(kinds) == 1:
        return kinds.pop()
    if not kinds:
        return None
    raise AnalysisError(f"{entry.qualname}: `{unparse(call)}` resolves to both generator and plain implementations")


@dataclass
class EntryModel:
    fn: FuncInfo
    cfg: CFG
    run_nodes: List[Node]            # nodes at which evaluation actually runs / the evaluation generator is advanced
    gen_vars: Set[str]               # locals holding an evaluation generator
    create_nodes: List[Node]         # nodes that only create the generator
    close_nodes: List[Node] = field(default_factory=list)


def entry_model(db: ProgramDB, entry: FuncInfo) -> EntryModel:
    cfg = CFG(entry)
    gen_vars: Set[str] = set()
    create_stmts: Set[int] = set()
    # pass 1: locals bound to `self._evaluate*()` generator calls
    for n in own_nodes(entry.node):
        if isinstance(n, ast.Assign) and len(n.targets) == 1 and isinstance(n.targets[0], ast.Name) \
                and isinstance(n.value, ast.Call) and is_eval_method_name(call_attr(n.value)):
            g = callee_generatorness(db, entry, n.value)
            if g:
                gen_vars.add(n.targets[0].id)
                create_stmts.add(id(n))
    # derived iterators: x = map(f, g) / iter(g) / (… for … in g)
    changed = True
    while changed:
        changed = False
        for n in own_nodes(entry.node):
            if isinstance(n, ast.Assign) and len(n.targets) == 1 and isinstance(n.targets[0], ast.Name) \
                    and n.targets[0].id not in gen_vars and id(n) not in create_stmts:
                v = n.value
                lazy = (isinstance(v, ast.Call) and dotted(v.func) in ("map", "filter", "iter", "enumerate", "zip")) \
                    or isinstance(v, ast.GeneratorExp)
                if lazy and any(isinstance(x, ast.Name) and x.id in gen_vars for x in ast.walk(v)):
                    gen_vars.add(n.targets[0].id)
                    create_stmts.add(id(n))
                    changed = True
    run_nodes, create_nodes, close_nodes = [], [], []
    for node in cfg.nodes:
        a = node.ast
        if a is None or node.kind in ("with_exit", "join", "except"):
            continue
        if node.kind == "with_enter":
            scan = node.item.context_expr
        elif node.kind == "for":
            scan = a.iter
        elif isinstance(a, (ast.FunctionDef, ast.AsyncFunctionDef, ast.ClassDef)):
            continue
        else:
            scan = a
        if id(a) in create_stmts:
            create_nodes.append(node)
            continue
        runs = False
        closes = False
        for x in ast.walk(scan):
            if isinstance(x, ast.Call) and is_eval_method_name(call_attr(x)):
                runs = True
            if isinstance(x, ast.Name) and x.id in gen_vars and isinstance(x.ctx, ast.Load):
                p = db.parent(x)
                if isinstance(p, ast.Attribute) and p.attr == "close":
                    closes = True
                    continue
                runs = True
        if runs:
            run_nodes.append(node)
        elif closes:
            close_nodes.append(node)
    if not run_nodes:
        raise AnalysisError(f"{entry.qualname}: no program point that runs evaluation was found")
    return EntryModel(entry, cfg, run_nodes, gen_vars, create_nodes, close_nodes)


def with_regions(db: ProgramDB, fn: FuncInfo) -> List[Tuple[ast.With, ast.withitem, object]]:
    """(with stmt, item, resolved manager) for every with-item in fn whose manager is a call of a package function
    or a package expression."""
    out = []
    for n in own_nodes(fn.node):
        if isinstance(n, (ast.With, ast.AsyncWith)):
            for it in n.items:
                ce = it.context_expr
                tgt = None
                if isinstance(ce, ast.Call):
                    tgt = resolve_call_target(db, fn, ce)
                out.append((n, it, tgt))
    return out


def mode_manager_kind(tgt) -> Optional[str]:
    if isinstance(tgt, FuncInfo) and tgt.qualname in ("symbolic:symbolic_mode", "symbolic:rule_mode"):
        return tgt.name
    return None


def const_arg(db: ProgramDB, fn: FuncInfo, call: ast.Call, callee: FuncInfo, param: str):
    """('const', v) | ('default', ast) | ('expr', ast) for the value `param` receives at this call."""
    from ..facts import bind_args, fn_params
    amap = bind_args(fn_params(callee), call)
    if param in amap:
        e = amap[param]
        if isinstance(e, ast.Constant):
            return ("const", e.value)
        return ("expr", e)
    d = callee.param_default(param)
    return ("default", d)


def stmt_inside(body_owner: ast.AST, node: ast.AST) -> bool:
    """node is (inside) one of the statements of body_owner.body"""
    for s in getattr(body_owner, "body", []):
        if s is node:
            return True
        for x in ast.walk(s):
            if x is node:
                return True
    return False
