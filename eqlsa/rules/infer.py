"""C11: rule inference builds one instance per satisfying binding, from that binding."""
from __future__ import annotations

import ast
from typing import Dict, List, Optional, Set, Tuple

from ..db import ProgramDB, FuncInfo, ClassInfo, AnalysisError, unparse, own_nodes, dotted
from ..cfg import CFG, Node, run_forward
from ..facts import own_calls, call_attr, call_name, local_defs
from ..framework import inst, HOLDS, VIOLATION, UNDECIDED, INFO, Instance
from ..abseval import AbsEval, State, const, TOP, TRUE, FALSE
from ..evalsites import site_model, is_eval_name
from .binding import rule_bind_thread, names_in
from .modes import _node_calls


def _is_type_call(c: ast.Call) -> bool:
    """`self._type_(…)`, or the same through a helper that is handed `self._type_` as the callable"""
    f = c.func
    if isinstance(f, ast.Attribute) and f.attr == "_type_" and isinstance(f.value, ast.Name) and f.value.id == "self":
        return True
    return isinstance(f, ast.Attribute) and isinstance(f.value, ast.Name) and f.value.id == "self" and bool(c.args) and unparse(c.args[0]) == "self._type_"


def rule_infer_thread(db: ProgramDB) -> List[Instance]:
    out = []
    for i in rule_bind_thread(db):
        site = [s for s in site_model(db).sites if s.key == i.construct]
        if site and any("_child_vars_" in o for o in site[0].origins):
            i.rule = "INFER-THREAD"
            out.append(i)
        elif not site and i.construct.startswith("Variable.") and "_child_vars_" in i.construct:
            # the sequential binder of the constructor arguments handing the accumulated binding to its recursion
            i.rule = "INFER-THREAD"
            out.append(i)
    if len(out) < 1:
        out.append(inst("INFER-THREAD", UNDECIDED, "", "sites", "the evaluation sites of constructor arguments were not found"))
    return out


def rule_infer_one_per_binding(db: ProgramDB) -> List[Instance]:
    out = []
    var = db.cls("Variable")
    n_sites = 0
    for m in var.methods.values():
        calls = [c for c in own_calls(m) if _is_type_call(c)]
        if not calls:
            continue
        cfg = CFG(m)
        for c in calls:
            n_sites += 1
            nodes = [n for n in cfg.nodes if not n.region and any(x is c for x in _node_calls(n))]
            if len(nodes) != 1:
                out.append(inst("INFER-ONE-PER-BINDING", UNDECIDED, m, f"{m.short}[self._type_(…)]", "construction node not unique"))
                continue
            node = nodes[0]
            loops = [l for l in own_nodes(m.node) if isinstance(l, ast.For) and any(x is c for x in ast.walk(l))]
            if loops:
                loop = loops[-1]
                # exactly one construction on every path through one iteration of the loop over argument combinations
                head = [n for n in cfg.nodes if n.kind == "for" and n.ast is loop and not n.region][0]

                def transfer(nd: Node, st: int):
                    if nd.id == head.id:
                        return 0
                    return min(2, st + sum(1 for x in _node_calls(nd) if _is_type_call(x)))
                IN = run_forward(cfg, 0, transfer, kinds=("n",))
                # states arriving back at the head from the body = constructions per completed iteration
                back = set()
                for e in cfg.pred[head.id]:
                    if e.kind == "n" and e.src != head.id and any(x is cfg.nodes[e.src].ast or True for x in [0]):
                        src = cfg.nodes[e.src]
                        if src.lineno >= loop.lineno and src.id != cfg.entry and _inside(loop, src):
                            for st in IN[e.src]:
                                back.add(transfer(src, st))
                ok = back == {1}
                out.append(inst("INFER-ONE-PER-BINDING", HOLDS if ok else VIOLATION, m, f"{m.short}[self._type_(…) per combination]",
                                f"each iteration of `for {unparse(loop.target)} in {unparse(loop.iter)[:40]}` constructs "
                                f"{sorted(back)} instance(s)" + ("" if ok else "; required exactly one per argument combination"),
                                line=c.lineno))
            else:
                # straight-line: on the path on which it is reached it is executed once
                def transfer2(nd: Node, st: int):
                    return min(2, st + sum(1 for x in _node_calls(nd) if _is_type_call(x)))
                IN = run_forward(cfg, 0, transfer2, kinds=("n",))
                after = {transfer2(node, st) for st in IN[node.id]}
                # and nothing constructs again afterwards on the same path
                for r in cfg.reachable([node.id], kinds=("n",), include_starts=False):
                    for st in IN[r]:
                        if cfg.nodes[r].kind in ("exit", "return") or r == cfg.exit:
                            after.add(st if cfg.nodes[r].kind == "exit" else transfer2(cfg.nodes[r], st))
                after.discard(0)
                ok = after == {1}
                out.append(inst("INFER-ONE-PER-BINDING", HOLDS if ok else VIOLATION, m, f"{m.short}[self._type_(…) once]",
                                f"the construction runs {sorted(after)} time(s) on the paths that reach it", line=c.lineno))
            # keyword values are the .value of the bound HashedValues, taken from the current binding
            for k in c.keywords:
                if k.arg is None and isinstance(k.value, ast.DictComp):
                    dc = k.value
                    v = dc.value
                    tn = {x.id for x in ast.walk(dc.generators[0].target) if isinstance(x, ast.Name)}
                    ok = isinstance(v, ast.Attribute) and v.attr == "value" and isinstance(v.value, ast.Name) and v.value.id in tn
                    out.append(inst("ID-KEEP", HOLDS if ok else VIOLATION, m, f"{m.short}[constructor keyword values]",
                                    f"`{unparse(dc)[:60]}`: each field receives the bound object itself (`.value`)" if ok else
                                    f"`{unparse(dc)[:60]}`: fields do not receive the bound objects themselves", line=c.lineno))
    if n_sites == 0:
        raise AnalysisError("no construction site self._type_(…) in Variable")
    # inferred variables are never served from the registry
    m = var.methods.get("_yield_from_cache_or_instantiate_new_values_")
    if m is None:
        raise AnalysisError("Variable._yield_from_cache_or_instantiate_new_values_ not found")
    cfg = CFG(m)
    for inferred in (True,):
        ev = AbsEval(db, m, cfg)
        IN = ev.run(State({"self._is_inferred_": const(inferred), "self._is_indexed_": TOP, "self._predicate_type_": TOP}),
                    kinds=("n",))
        reach = {nid for nid, sts in IN.items() if sts}
        calls = [c for n in cfg.nodes if n.id in reach for c in _node_calls(n)]
        names = {call_attr(c) for c in calls}
        searched = any(nm and "search" in nm and "cache" in nm for nm in names)
        built = any(nm and "instantiate" in nm for nm in names)
        ok = built and not searched
        out.append(inst("INFER-ONE-PER-BINDING", HOLDS if ok else VIOLATION, m,
                        "Variable._yield_from_cache_or_instantiate_new_values_[inferred]",
                        "for an inferred variable the registry is not consulted and a new instance is always constructed" if ok else
                        f"for an inferred variable: registry consulted={searched}, construction reachable={built}; an "
                        f"existing instance could be returned instead of a new one per binding"))
    return out


def _inside(loop: ast.For, node: Node) -> bool:
    a = node.ast if node.ast is not None else node.stmt
    if a is None:
        return False
    for s in loop.body:
        for x in ast.walk(s):
            if x is a:
                return True
    return False


def rule_id_keep(db: ProgramDB) -> List[Instance]:
    """No copy / deepcopy / replace / re-construction is applied to a user value anywhere in the package: every copy()
    takes a binding dict."""
    out = []
    n = 0
    for fn in db.all_functions():
        if fn.module in ("utils", "rxnode"):
            continue
        for c in own_calls(fn):
            d = dotted(c.func) or ""
            if d in ("copy", "copy.copy", "deepcopy", "copy.deepcopy", "dataclasses.replace", "replace") and c.args:
                n += 1
                a = c.args[0]
                on_value = any(isinstance(x, ast.Attribute) and x.attr in ("value", "unwrapped_values") for x in ast.walk(a))
                deep = "deepcopy" in d or "replace" in d
                ok = not on_value and not deep
                out.append(inst("ID-KEEP", HOLDS if ok else VIOLATION, fn, f"{fn.short}[{unparse(c)[:40]}]",
                                f"`{unparse(c)[:50]}` copies a binding/dict, not a user object" if ok else
                                f"`{unparse(c)[:50]}` copies a user object: identity of existing objects is lost", line=c.lineno))
    # a constant handed to the language (a field value, an operand) IS the value: the wrapper that makes it an expression keeps the object
    lit = db.cls("Literal", required=False)
    init = lit.methods.get("__init__") if lit is not None else None
    if init is not None:
        p0 = init.positional_params[1]
        bad = None
        for c in own_calls(init):
            d = (dotted(c.func) or "").split(".")[-1]
            if d in ("copy", "deepcopy", "list", "dict", "set", "tuple", "frozenset", "sorted") and c.args and isinstance(c.args[0], ast.Name) and c.args[0].id == p0:
                bad = c
            if isinstance(c.func, ast.Attribute) and c.func.attr == "copy" and isinstance(c.func.value, ast.Name) and c.func.value.id == p0:
                bad = c
            if isinstance(c.func, ast.Call) and dotted(c.func.func) == "type" and c.args and isinstance(c.args[0], ast.Name) and c.args[0].id == p0:
                bad = c
        n += 1
        out.append(inst("ID-KEEP", VIOLATION if bad is not None else HOLDS, init, f"Literal.__init__[the constant `{p0}` is wrapped as it is]",
                        "the object given as a constant is the value of the literal" if bad is None else
                        f"`{unparse(bad)}` makes a copy of the constant: a list / dict / set (or the dataset itself) given as a field value of a rule head reaches the "
                        f"instances as a shallow copy - `instance.items is the_list` fails, and what the caller adds to the list afterwards is not seen",
                        line=bad.lineno if bad is not None else init.lineno))
    i2 = [i for i in rule_infer_one_per_binding(db) if i.rule == "ID-KEEP"]
    return out + i2


def rule_infer_one(db: ProgramDB) -> List[Instance]:
    return [i for i in rule_infer_one_per_binding(db) if i.rule == "INFER-ONE-PER-BINDING"]


def rule_infer_not_truth(db: ProgramDB) -> List[Instance]:
    """The instance constructed for an inferred variable is a value: whether the row is produced must not depend on the
    instance's own truthiness (only a predicate's output is a truth value)."""
    from .negation import variable_output_profile
    out = []
    m, res = variable_output_profile(db, predicate=False)
    for k, reached in sorted(res.items()):
        env = dict(k)
        if env["invert"]:
            continue
        key = f"Variable._process_output_and_update_values_[constructed instance,truthy={env['truthy']},yield_when_false={env['ywf']}]"
        ok = bool(reached)
        out.append(inst("INFER-NOT-TRUTH", HOLDS if ok else VIOLATION, m, key,
                        "the row of the constructed instance is produced" if ok else
                        "the constructed instance is dropped because it is falsy (a class with __len__/__bool__): it was "
                        "constructed and registered, but the rule does not return it"))
    return out
